# -*- coding: utf-8 -*-
"""Bounded run-time contracts for Vector methods (C06, C10, C11): real code, exhaustive small scope."""
import itertools
import numpy as np
from dataiter import Vector
from .driver import driver
from .df import POOLS, mkcol, enc, dec, cell_eq, is_missing

PV = "dataiter/vector.py::Vector."
VK = ("int", "float", "str", "date", "obj", "bool")


def vectors(maxlen, kinds=VK):
    for k in kinds:
        for n in range(maxlen + 1):
            for combo in itertools.product(POOLS[k], repeat=n):
                yield k, enc(list(combo))


def ml(run):
    return 3 if run.tier == "thorough" else 2


def BV(run):
    return f"all vectors of <= {ml(run)} elements over int/float/str/date/object/bool pools incl. NaN, NaT, '', None"


def vdriver(name, gen_args, call, expect, kinds=VK):
    """result must equal expect(...) element-wise, share no memory with the receiver, receiver unchanged"""
    @driver(PV + name)
    def _d(run):
        run.bound = BV(run) if kinds == VK else f"all vectors of <= {ml(run)} elements over the pools of kinds {'/'.join(kinds)} (bounded/df.py POOLS: incl. NaN, -inf, NaT, '', None, 2**53, int64 min, 50-character strings)"
        g = ((k, vals) + tuple(a) for k, vals in vectors(ml(run), kinds) for a in gen_args(k, vals, run))
        for inp in run.inputs(g):
            k, vals, args = inp[0], inp[1], inp[2:]
            v = mkcol(k, dec(vals))
            before = [repr(x) for x in v]
            try:
                got = call(v, *args)
                exp = expect(v, *args)
                gl, el = list(got), list(exp)
                ok = len(gl) == len(el) and all(cell_eq(a, b) or (is_missing(a) and is_missing(b) and type(a) is type(b)) or a == b
                                                for a, b in zip(gl, el))
                if isinstance(got, np.ndarray):
                    ok = ok and not np.shares_memory(got, v)
                ok = ok and [repr(x) for x in v] == before
                obs = gl
            except Exception as e:
                ok, obs, exp = False, f"raised {type(e).__name__}: {e}", None
            run.check(list(inp), ok, expected=list(exp) if exp is not None else None, got=obs, clause=name)
    return _d


none = lambda k, vals, run: [()]
vdriver("is_na", none, lambda v: v.is_na(), lambda v: [is_missing(x) for x in v], kinds=VK + ("fix", "td", "f4", "u8"))
vdriver("drop_na", none, lambda v: v.drop_na(), lambda v: [x for x in v if not is_missing(x)], kinds=VK + ("fix", "td", "f4", "u8"))
vdriver("replace_na", lambda k, vals, run: [(enc([POOLS[k][0]])[0],)], lambda v, r: v.replace_na(dec([r])[0]),
        lambda v, r: [dec([r])[0] if is_missing(x) else x for x in v], kinds=("int", "float", "str", "date"))
vdriver("head", lambda k, vals, run: [(n,) for n in (0, 1, 2, 5)], lambda v, n: v.head(n), lambda v, n: list(v)[:n])
vdriver("tail", lambda k, vals, run: [(n,) for n in (0, 1, 2, 5)], lambda v, n: v.tail(n), lambda v, n: list(v)[len(v) - min(n, len(v)):])
vdriver("tolist", none, lambda v: v.tolist(), lambda v: [None if is_missing(x) else (x.item() if hasattr(x, "item") else x) for x in v], kinds=VK + ("f4", "td"))
vdriver("concat", lambda k, vals, run: [(vals,), ([],)], lambda v, o: v.concat(mkcol(v_kind(v), dec(o))), lambda v, o: list(v) + list(mkcol(v_kind(v), dec(o))),
        kinds=("int", "float", "str"))
vdriver("as_float", none, lambda v: v.as_float(), lambda v: [float(x) for x in v], kinds=("int", "bool"))
vdriver("as_boolean", none, lambda v: v.as_boolean(), lambda v: [bool(x) for x in v], kinds=("int", "bool"))
vdriver("as_integer", none, lambda v: v.as_integer(), lambda v: [int(x) for x in v], kinds=("bool", "int"))
vdriver("as_string", none, lambda v: v.as_string(), lambda v: [str(x) for x in v], kinds=("int", "str"))


def v_kind(v):
    if v.is_string():
        return "str"
    return {"i": "int", "f": "float"}.get(v.dtype.kind, "float")


@driver(PV + "sample")
def vsample(run):
    run.bound = "vectors 0..n-1 of length <= 4, sample sizes 0..5, 5 seeds"
    for n, k, seed in run.inputs(((n, k, s) for n in range(5) for k in range(6) for s in range(5))):
        v = Vector(list(range(n)), int)
        np.random.seed(seed + run.seed)
        got = list(v.sample(k))
        ok = len(got) == min(n, k) and got == sorted(set(got)) and all(0 <= x < n for x in got)
        run.check([n, k, seed], ok, expected="distinct elements in order", got=got, clause="sample")


# ---- C11 ---------------------------------------------------------------------------------------------
RANK_POOLS = {"int": [1, 2, 3], "float": [0.5, 1.5, float("nan")], "str": ["a", "b", ""], "date": POOLS["date"] + [np.datetime64("2021-01-01")],
              "obj": [None, 9, 10],      # str() order (10 before 9) differs from the values' own order
              # strings of 50+ characters are ranked without the fixed-width shortcut of _optimize_for_argsort
              "longstr": ["x" * 50 + "a", "x" * 50 + "b", ""]}


def rank_vectors(maxlen):
    for k, pool in RANK_POOLS.items():
        for n in range(maxlen + 1):
            for combo in itertools.product(pool, repeat=n):
                yield k, enc(list(combo))
    # the remaining dtype kinds (boolean, timedelta, unsigned, fixed-width strings, the smallest int64, -inf), up to 3 elements
    for k in ("bool", "td", "u8", "fix", "imin", "float"):
        for n in range(min(maxlen, 3) + 1):
            for combo in itertools.product(POOLS[k], repeat=n):
                yield "pool:" + k, enc(list(combo))


def before(x, y):
    """x is ordered strictly before y: missing after all others; otherwise by value"""
    if is_missing(x):
        return False
    if is_missing(y):
        return True
    return bool(x < y)


def equalish(x, y):
    return (is_missing(x) and is_missing(y)) or (not is_missing(x) and not is_missing(y) and bool(x == y))


@driver(PV + "rank[empty vector (proved); formulas bounded]")
def rank_driver(run):
    mlen = 5 if run.tier == "thorough" else 4
    run.bound = f"all vectors of <= {mlen} elements over 3-value pools with ties and missing values, kinds int/float/str/date/object (plus bool/timedelta/uint8/fixed-width/int64-min/-inf pools, <= 3 elements); methods min, max, ordinal"
    for k, vals in run.inputs(rank_vectors(mlen)):
        v = mkcol(k[5:] if k.startswith("pool:") else "str" if k == "longstr" else k, dec(vals))
        xs = list(v)
        n = len(xs)
        try:
            rmin, rmax, rord = list(v.rank(method="min")), list(v.rank(method="max")), list(v.rank(method="ordinal"))
            emin = [1 + sum(before(y, x) for y in xs) for x in xs]
            emax = [sum(before(y, x) or equalish(y, x) for y in xs) for x in xs]
            ok = rmin == emin and rmax == emax
            # ordinal: a permutation of 1..n, consistent with the order, ties by position
            ok = ok and sorted(rord) == list(range(1, n + 1))
            for i in range(n):
                for j in range(n):
                    if before(xs[i], xs[j]) or (equalish(xs[i], xs[j]) and i < j):
                        ok = ok and rord[i] < rord[j]
            obs = [rmin, rmax, rord]
        except Exception as e:
            ok, obs, emin, emax = False, f"raised {type(e).__name__}: {e}", None, None
        run.check([k, vals], ok, expected=[emin, emax], got=obs, clause="rank formulas")


@driver(PV + "_optimize_for_argsort[order-isomorphism: bounded only]")
def optimize_driver(run):
    run.bound = ("string vectors of <= 3 elements over {'', 'a', 'b', 'ab', 49/50-char, two 51-char strings sharing a 50-char prefix, astral}; "
                 "other kinds: identity; again after storing '' / 'a' / 'zz' / a 51-character string into element 0")
    pool = ["", "a", "b", "ab", "b" * 50, "\U0001F600", "c" * 49, "c" * 50 + "x", "c" * 50 + "y"]
    def gen():
        for n in range(4):
            for combo in itertools.product(pool, repeat=n):
                yield list(combo)
    for (vals,) in run.inputs(((v,) for v in gen())):
        v = Vector(vals, str)
        o = v._optimize_for_argsort()
        ok = len(o) == len(v)
        for i in range(len(v)):
            for j in range(len(v)):
                ok = ok and bool(o[i] == o[j]) == bool(v[i] == v[j]) and bool(o[i] < o[j]) == bool(v[i] < v[j])
        w = Vector([1.5, float("nan")])
        ok = ok and w._optimize_for_argsort() is w
        run.check([vals], ok, expected="same == and < on all pairs", got=list(o), clause="order-isomorphism")
        # ... of the vector's CURRENT elements: after an in-place edit the result must reflect the new values (nothing remembered)
        if vals:
            for r in ("", "a", "zz", "c" * 50 + "z"):
                v2 = Vector(vals, str)
                v2._optimize_for_argsort()
                v2[0] = r
                o2 = v2._optimize_for_argsort()
                ok2 = len(o2) == len(v2)
                for i in range(len(v2)):
                    for j in range(len(v2)):
                        ok2 = ok2 and bool(o2[i] == o2[j]) == bool(v2[i] == v2[j]) and bool(o2[i] < o2[j]) == bool(v2[i] < v2[j])
                run.check([vals, r], ok2, expected="same == and < on all pairs of the edited vector", got=list(o2),
                          clause="order-isomorphism after an in-place edit of the vector")


vdriver("sort[ascending]", none, lambda v: v.sort(), lambda v: sorted([x for x in v if not is_missing(x)]) + [x for x in v if is_missing(x)],
        kinds=("int", "float", "str", "date", "bool", "imin", "u8", "fix", "td"))
vdriver("sort[descending]", none, lambda v: v.sort(dir=-1), lambda v: sorted([x for x in v if not is_missing(x)], reverse=True) + [x for x in v if is_missing(x)],
        kinds=("int", "float", "str", "date", "bool", "imin", "u8", "fix", "td"))


def _uniq(v):
    out = []
    for x in v:
        if not any(equalish(x, y) for y in out):
            out.append(x)
    return out


vdriver("unique", none, lambda v: v.unique(), _uniq, kinds=("int", "float", "str", "date", "bool", "objn", "fix", "td"))


# ---- C10: construction from Python / NumPy scalars, the missing-value model, equal ---------------------
import datetime as _dt


class _Obj:
    def __repr__(self):
        return "OBJ"


_OBJ = _Obj()
CTOR_POOL = {
    "None": None, "nan": float("nan"), "True": True, "1": 1, "2.5": 2.5, "'a'": "a",
    "date": _dt.date(2020, 1, 2), "datetime": _dt.datetime(2020, 1, 2, 3, 4, 5), "timedelta": _dt.timedelta(days=1),
    "bytes": b"x", "OBJ": _OBJ,
    "np.int64": np.int64(3), "np.float64": np.float64(1.5), "np.nan": np.float64("nan"), "np.str_": np.str_("b"),
    "np.datetime64": np.datetime64("2020-01-03"), "np.bool_": np.bool_(True), "np.timedelta64": np.timedelta64(2, "D"),
}
# explicit dtypes offered for a homogeneous list of the given tags (plus missing values)
CTOR_DTYPES = {
    "True": ["bool", "object"], "1": ["int", "float", "object"], "2.5": ["float", "object"], "'a'": ["str", "object"],
    "date": ["datetime64[D]", "object"], "datetime": ["datetime64[us]", "object"], "timedelta": ["timedelta64[us]", "object"],
    "bytes": ["object"], "OBJ": ["object"], "np.int64": ["int", "float"], "np.float64": ["float"], "np.str_": ["str"],
    "np.datetime64": ["datetime64[D]"], "np.bool_": ["bool"], "np.timedelta64": ["timedelta64[D]"],
}
_DT = {"bool": bool, "int": int, "float": float, "str": str, "object": object}


def _missing_in(x):
    return x is None or (isinstance(x, float) and x != x)


def _same_value(got, x):
    """tolist() returns the original value (NumPy scalars as their Python value; NumPy's own conversion of a mixed
    list to its common type - int to float, number to str - is accepted)"""
    if isinstance(x, np.generic):
        x = x.item()
    if got is x:
        return True
    try:
        if got == x:
            return True
        if isinstance(got, str) and not isinstance(x, str):
            return True          # NumPy's own string conversion of a non-string in a list with strings
        if isinstance(got, float) and isinstance(x, (int, bool)) and got == float(x):
            return True
    except Exception:
        pass
    return False


def _numpy_cast_of(v, raw, x):
    """the raw element is what NumPy's own cast of the original value to the vector's dtype gives (mixed lists)"""
    try:
        c = np.array([x]).astype(v.dtype)[0]
        return bool(c == raw) and not is_missing(raw)
    except Exception:
        return False


def _raw_is_na_of(v, raw):
    """raw element is THE missing value of the vector's type (table of the property statement)"""
    if v.is_float():
        return isinstance(raw, (float, np.floating)) and raw != raw
    if v.is_datetime() or v.is_timedelta():
        return isinstance(raw, (np.datetime64, np.timedelta64)) and bool(np.isnat(raw))
    if v.is_string() or v.dtype.kind == "U":
        return isinstance(raw, str) and raw == ""
    return raw is None and v.dtype == object


def _check_construction(run, tags, dtype):
    xs = [CTOR_POOL[t] for t in tags]
    inp = [list(tags), dtype]
    dt = _DT.get(dtype, dtype)
    try:
        v = Vector(xs) if dtype is None else Vector(xs, dt)
    except Exception as e:
        run.check(inp, False, expected="a vector", got=f"raised {type(e).__name__}: {e}", clause="construction answers")
        return
    miss = [_missing_in(x) for x in xs]
    run.check(inp, isinstance(v, Vector) and v.ndim == 1 and len(v) == len(xs), expected=len(xs), got=getattr(v, "shape", None),
              clause="one element per input value")
    if len(v) != len(xs) or v.ndim != 1:
        return
    flags = [bool(b) for b in v.is_na()]
    run.check(inp, flags == miss, expected=miss, got=flags, clause="is_na flags exactly the None/NaN positions")
    raws = list(v)
    run.check(inp, all(_raw_is_na_of(v, r) for r, m in zip(raws, miss) if m), expected="the missing value of the resulting type",
              got=[repr(r) for r, m in zip(raws, miss) if m], clause="None/NaN become the missing value of the inferred type")
    out = v.tolist()
    run.check(inp, len(out) == len(xs) and all((o is None) if m else (_same_value(o, x) or _numpy_cast_of(v, r, x)) for o, x, m, r in zip(out, xs, miss, raws)),
              expected=[None if m else x for x, m in zip(xs, miss)], got=out, clause="tolist returns the original values with None at the missing positions")
    nonmiss = [x for x, m in zip(xs, miss) if not m]
    if dtype is None and any(miss) and nonmiss:
        numeric = lambda x: (isinstance(x, (int, float, np.integer, np.floating)) and not isinstance(x, (bool, np.bool_, np.timedelta64)))
        dateish = lambda x: isinstance(x, (_dt.date, np.datetime64))
        stringy = lambda x: isinstance(x, str)
        if all(numeric(x) for x in nonmiss):
            run.check(inp, v.is_float(), expected="float", got=str(v.dtype), clause="numbers with missing values widen to float (NaN)")
        elif all(stringy(x) for x in nonmiss):
            run.check(inp, v.is_string() or v.dtype.kind == "U", expected="string", got=str(v.dtype), clause="strings take '' as missing")
        elif all(type(x) is type(nonmiss[0]) for x in nonmiss) and dateish(nonmiss[0]):
            run.check(inp, v.is_datetime(), expected="datetime64", got=str(v.dtype), clause="dates take NaT as missing")
        elif all(isinstance(x, np.timedelta64) for x in nonmiss):
            run.check(inp, v.is_timedelta(), expected="timedelta64", got=str(v.dtype), clause="NumPy durations take NaT as missing (they do not widen to float)")
    try:
        w = Vector(out, v.dtype)
        ok = bool(w.equal(v)) and bool(v.equal(w))
        obs = list(w)
    except Exception as e:
        ok, obs = False, f"raised {type(e).__name__}: {e}"
    run.check(inp, ok, expected=[repr(r) for r in raws], got=obs, clause="Vector(v.tolist(), v.dtype) equals v")
    run.check(inp, bool(v.equal(v)), expected=True, got=False, clause="equal is reflexive")


@driver(PV + "__new__")
def vconstruct(run):
    n = 3
    run.bound = (f"all lists of <= {n} values over {len(CTOR_POOL)} representatives (bool, int, float, str, date, datetime, timedelta, bytes, "
                 "an arbitrary object, None, NaN; Python and NumPy scalars) without dtype; homogeneous lists plus None/NaN with each "
                 "compatible explicit dtype; '' and NaT themselves are not offered as input values")
    tags = list(CTOR_POOL)

    def gen():
        for k in range(n + 1):
            for combo in itertools.product(tags, repeat=k):
                yield list(combo), None
        for t, dts in CTOR_DTYPES.items():
            for d in dts:
                for combo in itertools.product([t, "None", "nan"], repeat=min(n, 2)):
                    yield list(combo), d
                yield [t, t, "None"], d
    for tg, d in run.inputs(gen()):
        _check_construction(run, tg, d)


@driver(PV + "equal")
def vequal(run):
    n = ml(run)
    run.bound = (f"all pairs (thorough: and triples of length <= 2) of same-kind vectors of <= {n} elements over int/float/str/date/object/bool pools "
                 "incl. NaN, NaT, '', None")

    def gen():
        for k in VK:
            vs = [vals for kk, vals in vectors(n, (k,))]
            for a in vs:
                for b in vs:
                    yield k, a, b, None
            if run.tier == "thorough":
                small = [vals for kk, vals in vectors(2, (k,))]
                for a in small:
                    for b in small:
                        for c in small:
                            yield k, a, b, c
    for k, a, b, c in run.inputs(gen()):
        va, vb = mkcol(k, dec(a)), mkcol(k, dec(b))
        inp = [k, a, b, c]
        try:
            eab, eba = bool(va.equal(vb)), bool(vb.equal(va))
        except Exception as e:
            run.check(inp, False, expected="an answer", got=f"raised {type(e).__name__}: {e}", clause="equal answers without raising")
            continue
        la, lb = list(va), list(vb)
        spec = len(la) == len(lb) and all((is_missing(x) and is_missing(y)) or (not is_missing(x) and not is_missing(y) and bool(x == y))
                                          for x, y in zip(la, lb))
        run.check(inp, eab == spec, expected=spec, got=eab, clause="characterisation: same length, same missing positions, equal values elsewhere")
        run.check(inp, eab == eba, expected=eab, got=eba, clause="equal is symmetric")
        if a == b:
            run.check(inp, eab, expected=True, got=eab, clause="equal is reflexive")
        if c is not None:
            vc = mkcol(k, dec(c))
            if eab and bool(vb.equal(vc)):
                run.check(inp, bool(va.equal(vc)), expected=True, got=False, clause="equal is transitive")


@driver("dataiter/util.py::unique_types")
def v_unique_types(run):
    from dataiter import util
    n = 3 if run.tier == "thorough" else 2
    run.bound = f"all lists of <= {n} values over the {len(CTOR_POOL)} construction representatives"
    tags = list(CTOR_POOL)
    for combo in run.inputs(list(c) for k in range(n + 1) for c in itertools.product(tags, repeat=k)):
        xs = [CTOR_POOL[t] for t in combo]
        exp = {type(x) for x in xs if not _missing_in(x)}
        try:
            got = util.unique_types(xs)
            ok = isinstance(got, set) and got == exp
        except Exception as e:
            got, ok = f"raised {type(e).__name__}: {e}", False
        run.check(list(combo), ok, expected=sorted(map(repr, exp)), got=sorted(map(repr, got)) if isinstance(got, set) else got,
                  clause="exactly the classes of the non-missing values")


_TYPE_POOL = {"bool": bool, "int": int, "float": float, "str": str, "bytes": bytes, "object": object, "date": _dt.date,
              "datetime": _dt.datetime, "timedelta": _dt.timedelta, "np.str_": np.str_, "np.bool_": np.bool_, "np.float64": np.float64,
              "np.float32": np.float32, "np.int64": np.int64, "np.uint8": np.uint8, "np.datetime64": np.datetime64, "np.timedelta64": np.timedelta64,
              "_Obj": _Obj}


def _na_choice(types):
    """the table of the property statement, written independently of the code"""
    number = lambda t: t in (int, float) or (issubclass(t, (np.integer, np.floating)) )
    if not types:
        return None
    if any(issubclass(t, str) for t in types):
        return ""
    if all(number(t) for t in types):
        return float("nan")
    if all(t in (_dt.date, _dt.datetime, np.datetime64) for t in types):
        return np.datetime64("NaT")
    return None


@driver(PV + "_std_to_np_na_value")
def v_na_choice(run):
    n = 3 if run.tier == "thorough" else 2
    run.bound = f"all sets of <= {n} classes out of {len(_TYPE_POOL)} (Python builtins, datetime classes, NumPy scalar types, a user class)"
    names = list(_TYPE_POOL)
    for combo in run.inputs(list(c) for k in range(n + 1) for c in itertools.combinations(names, k)):
        types = {_TYPE_POOL[t] for t in combo}
        exp = _na_choice(types)
        try:
            got = Vector._std_to_np_na_value(set(types))
            ok = (got is None and exp is None) or (isinstance(exp, str) and isinstance(got, str) and got == exp) or \
                 (isinstance(exp, float) and isinstance(got, float) and got != got) or \
                 (isinstance(exp, np.datetime64) and isinstance(got, np.datetime64) and bool(np.isnat(got)))
        except Exception as e:
            got, ok = f"raised {type(e).__name__}: {e}", False
        run.check(list(combo), ok, expected=exp, got=got, clause="missing value by table: none / strings / numbers / dates / other")


_STD_KINDS = {
    "bool": (bool, ["True", "np.bool_"], "b"), "int": (int, ["1", "np.int64"], "i"), "uint": (np.uint8, ["1"], "u"),
    "float": (float, ["2.5", "1"], "f"), "datetime": ("datetime64[D]", ["date", "np.datetime64"], "M"),
    "timedelta": ("timedelta64[us]", ["timedelta"], "m"), "string": (str, ["'a'", "np.str_"], "T"), "fixedstr": ("U3", ["'a'"], "U"),
    "bytes": ("S1", ["bytes"], "S"), "object": (object, ["OBJ", "1", "'a'"], "O"),
}
_NA_KIND = {"b": "O", "i": "f", "u": "f", "f": "f", "M": "M", "m": "m", "T": "T", "U": "U", "S": "O", "O": "O"}


def _mk_std_driver(kind):
    dt, vals, ch = _STD_KINDS[kind]

    @driver(PV + f"_std_to_np[dtype {kind}]")
    def _d(run):
        n = 3 if run.tier == "thorough" else 2
        run.bound = f"all lists of <= {n} values over {vals} + None + NaN with the explicit dtype {dt!r}"
        pool = vals + ["None", "nan"]
        for combo in run.inputs(list(c) for k in range(n + 1) for c in itertools.product(pool, repeat=k)):
            xs = [CTOR_POOL[t] for t in combo]
            miss = [_missing_in(x) for x in xs]
            try:
                arr = Vector._std_to_np(list(xs), dt)
                v = arr.view(Vector)
                want = _NA_KIND[ch] if any(miss) else ch
                run.check(list(combo), v.dtype.kind == want, expected=want, got=v.dtype.kind,
                          clause="dtype kept without missing values, upcast per na_dtype table with them")
                flags = [bool(b) for b in v.is_na()]
                run.check(list(combo), len(v) == len(xs) and flags == miss and all(_raw_is_na_of(v, r) for r, m in zip(list(v), miss) if m),
                          expected=miss, got=flags, clause="None / NaN positions hold the missing value of the resulting type, others do not")
            except Exception as e:
                run.check(list(combo), False, expected="an array", got=f"raised {type(e).__name__}: {e}", clause="conversion answers")
    return _d


for _k in _STD_KINDS:
    _mk_std_driver(_k)


@driver(PV + "_std_to_np[no dtype]")
def v_std_inferred(run):
    n = 3
    run.bound = (f"all lists of <= {n} values over the {len(CTOR_POOL)} construction representatives without dtype, except lists whose "
                 "non-missing values are NumPy scalars of one single type")
    tags = list(CTOR_POOL)
    for combo in run.inputs(list(c) for k in range(n + 1) for c in itertools.product(tags, repeat=k)):
        xs = [CTOR_POOL[t] for t in combo]
        miss = [_missing_in(x) for x in xs]
        types = {type(x) for x, m in zip(xs, miss) if not m}
        if len(types) == 1 and next(iter(types)).__module__ == "numpy":
            continue
        try:
            v = Vector._std_to_np(list(xs)).view(Vector)
            flags = [bool(b) for b in v.is_na()]
            raws = list(v)
            run.check(list(combo), len(v) == len(xs) and flags == miss and all(_raw_is_na_of(v, r) for r, m in zip(raws, miss) if m),
                      expected=miss, got=[flags, [repr(r) for r in raws]],
                      clause="None / NaN positions hold the missing value of the resulting type (None when NumPy falls back to object), others do not")
            if v.dtype == object:
                run.check(list(combo), all(r is x for r, x, m in zip(raws, xs, miss) if not m), expected=xs, got=raws,
                          clause="non-missing values are handed to NumPy unchanged")
            nm = [x for x, m in zip(xs, miss) if not m]
            for cls_ in (_dt.datetime, _dt.date):
                if any(type(x) is cls_ for x in nm) and all(type(x) in (cls_, np.datetime64) for x in nm):
                    run.check(list(combo), v.is_datetime(), expected="datetime64", got=str(v.dtype),
                              clause="dates / datetimes (and np.datetime64 scalars) are converted to a datetime64 dtype")
        except Exception as e:
            run.check(list(combo), False, expected="an array", got=f"raised {type(e).__name__}: {e}", clause="conversion answers")


# ---- NA tables per dtype kind: na_value, na_dtype, "a vector cast to its na_dtype can hold its na_value as missing" ------------
_NA_KINDS = {
    "bool": lambda: Vector([True, False], bool), "int": lambda: Vector([1, 2], int), "uint": lambda: Vector([1, 2], np.uint8),
    "float": lambda: Vector([0.5, 1.5], float), "datetime": lambda: Vector(["2020-01-01", "2020-01-02"], "datetime64[D]"),
    "timedelta": lambda: Vector(np.array([1, 2], "timedelta64[D]")), "string": lambda: Vector(["a", "b"], str),
    "fixedstr": lambda: Vector(np.array(["FI", "SE"], "<U2")), "bytes": lambda: Vector(np.array([b"x", b"y"], "S1")),
    "object": lambda: Vector([1, "x"], object),
}


def _mk_na_table_driver(kind):
    @driver(PV + f"na_value[kind {kind}]")
    def _d(run):
        run.bound = f"two vectors of kind {kind} (2 elements, empty): put na_value into the vector cast to na_dtype; it must be flagged missing, the others not"
        for (empty,) in run.inputs(((e,) for e in (False, True))):
            v = _NA_KINDS[kind]()
            if empty:
                v = v[:0]
            try:
                na, nd = v.na_value, v.na_dtype
                w = v.astype(nd) if len(v) else Vector.fast([v.na_value], nd)
                if len(v):
                    w = w.copy()
                    w[0] = na
                flags = [bool(b) for b in w.is_na()]
                ok = flags[0] is True and not any(flags[1:])
                raw = w[0]
                ok = ok and _raw_is_na_of(w, raw if not isinstance(raw, np.generic) or isinstance(raw, (np.floating, np.datetime64, np.timedelta64, np.str_)) else raw)
                obs = [repr(na), str(nd), [repr(x) for x in w], flags]
            except Exception as e:
                ok, obs = False, f"raised {type(e).__name__}: {e}"
            run.check([kind, empty], ok, expected="na_value stored in astype(na_dtype) is flagged by is_na; nothing else is", got=obs,
                      clause="a vector cast to its na_dtype can hold its na_value as missing")
    return _d


for _k in _NA_KINDS:
    _mk_na_table_driver(_k)
