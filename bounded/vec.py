# -*- coding: utf-8 -*-
"""Bounded run-time contracts for Vector methods (C06, C10, C11): real code, exhaustive small scope."""
import itertools
import numpy as np
from dataiter import Vector
from .driver import driver
from .df import POOLS, mkcol, enc, dec, cell_eq, is_missing

PV = "dataiter/vector.py::Vector."
VK = ("int", "float", "str", "date", "obj", "bool")


def vectors(maxlen, kinds=VK):
    for k in kinds:
        for n in range(maxlen + 1):
            for combo in itertools.product(POOLS[k], repeat=n):
                yield k, enc(list(combo))


def ml(run):
    return 3 if run.tier == "thorough" else 2


def BV(run):
    return f"all vectors of <= {ml(run)} elements over int/float/str/date/object/bool pools incl. NaN, NaT, '', None"


def vdriver(name, gen_args, call, expect, kinds=VK):
    """result must equal expect(...) element-wise, share no memory with the receiver, receiver unchanged"""
    @driver(PV + name)
    def _d(run):
        run.bound = BV(run)
        g = ((k, vals) + tuple(a) for k, vals in vectors(ml(run), kinds) for a in gen_args(k, vals, run))
        for inp in run.inputs(g):
            k, vals, args = inp[0], inp[1], inp[2:]
            v = mkcol(k, dec(vals))
            before = [repr(x) for x in v]
            try:
                got = call(v, *args)
                exp = expect(v, *args)
                gl, el = list(got), list(exp)
                ok = len(gl) == len(el) and all(cell_eq(a, b) or (is_missing(a) and is_missing(b) and type(a) is type(b)) or a == b
                                                for a, b in zip(gl, el))
                if isinstance(got, np.ndarray):
                    ok = ok and not np.shares_memory(got, v)
                ok = ok and [repr(x) for x in v] == before
                obs = gl
            except Exception as e:
                ok, obs, exp = False, f"raised {type(e).__name__}: {e}", None
            run.check(list(inp), ok, expected=list(exp) if exp is not None else None, got=obs, clause=name)
    return _d


none = lambda k, vals, run: [()]
vdriver("is_na", none, lambda v: v.is_na(), lambda v: [is_missing(x) for x in v])
vdriver("drop_na", none, lambda v: v.drop_na(), lambda v: [x for x in v if not is_missing(x)])
vdriver("replace_na", lambda k, vals, run: [(enc([POOLS[k][0]])[0],)], lambda v, r: v.replace_na(dec([r])[0]),
        lambda v, r: [dec([r])[0] if is_missing(x) else x for x in v], kinds=("int", "float", "str", "date"))
vdriver("head", lambda k, vals, run: [(n,) for n in (0, 1, 2, 5)], lambda v, n: v.head(n), lambda v, n: list(v)[:n])
vdriver("tail", lambda k, vals, run: [(n,) for n in (0, 1, 2, 5)], lambda v, n: v.tail(n), lambda v, n: list(v)[len(v) - min(n, len(v)):])
vdriver("tolist", none, lambda v: v.tolist(), lambda v: [None if is_missing(x) else (x.item() if hasattr(x, "item") else x) for x in v])
vdriver("concat", lambda k, vals, run: [(vals,), ([],)], lambda v, o: v.concat(mkcol(v_kind(v), dec(o))), lambda v, o: list(v) + list(mkcol(v_kind(v), dec(o))),
        kinds=("int", "float", "str"))
vdriver("as_float", none, lambda v: v.as_float(), lambda v: [float(x) for x in v], kinds=("int", "bool"))
vdriver("as_boolean", none, lambda v: v.as_boolean(), lambda v: [bool(x) for x in v], kinds=("int", "bool"))
vdriver("as_integer", none, lambda v: v.as_integer(), lambda v: [int(x) for x in v], kinds=("bool", "int"))
vdriver("as_string", none, lambda v: v.as_string(), lambda v: [str(x) for x in v], kinds=("int", "str"))


def v_kind(v):
    if v.is_string():
        return "str"
    return {"i": "int", "f": "float"}.get(v.dtype.kind, "float")


@driver(PV + "sample")
def vsample(run):
    run.bound = "vectors 0..n-1 of length <= 4, sample sizes 0..5, 5 seeds"
    for n, k, seed in run.inputs(((n, k, s) for n in range(5) for k in range(6) for s in range(5))):
        v = Vector(list(range(n)), int)
        np.random.seed(seed + run.seed)
        got = list(v.sample(k))
        ok = len(got) == min(n, k) and got == sorted(set(got)) and all(0 <= x < n for x in got)
        run.check([n, k, seed], ok, expected="distinct elements in order", got=got, clause="sample")


# ---- C11 ---------------------------------------------------------------------------------------------
RANK_POOLS = {"int": [1, 2, 3], "float": [0.5, 1.5, float("nan")], "str": ["a", "b", ""], "date": POOLS["date"] + [np.datetime64("2021-01-01")],
              "obj": [None, 1, 2]}


def rank_vectors(maxlen):
    for k, pool in RANK_POOLS.items():
        for n in range(maxlen + 1):
            for combo in itertools.product(pool, repeat=n):
                yield k, enc(list(combo))


def before(x, y):
    """x is ordered strictly before y: missing after all others; otherwise by value"""
    if is_missing(x):
        return False
    if is_missing(y):
        return True
    return bool(x < y)


def equalish(x, y):
    return (is_missing(x) and is_missing(y)) or (not is_missing(x) and not is_missing(y) and bool(x == y))


@driver(PV + "rank[empty vector (proved); formulas bounded]")
def rank_driver(run):
    mlen = 5 if run.tier == "thorough" else 4
    run.bound = f"all vectors of <= {mlen} elements over 3-value pools with ties and missing values, kinds int/float/str/date/object; methods min, max, ordinal"
    for k, vals in run.inputs(rank_vectors(mlen)):
        v = mkcol(k, dec(vals))
        xs = list(v)
        n = len(xs)
        try:
            rmin, rmax, rord = list(v.rank(method="min")), list(v.rank(method="max")), list(v.rank(method="ordinal"))
            emin = [1 + sum(before(y, x) for y in xs) for x in xs]
            emax = [sum(before(y, x) or equalish(y, x) for y in xs) for x in xs]
            ok = rmin == emin and rmax == emax
            # ordinal: a permutation of 1..n, consistent with the order, ties by position
            ok = ok and sorted(rord) == list(range(1, n + 1))
            for i in range(n):
                for j in range(n):
                    if before(xs[i], xs[j]) or (equalish(xs[i], xs[j]) and i < j):
                        ok = ok and rord[i] < rord[j]
            obs = [rmin, rmax, rord]
        except Exception as e:
            ok, obs, emin, emax = False, f"raised {type(e).__name__}: {e}", None, None
        run.check([k, vals], ok, expected=[emin, emax], got=obs, clause="rank formulas")


@driver(PV + "_optimize_for_argsort[order-isomorphism: bounded only]")
def optimize_driver(run):
    run.bound = "string vectors of <= 3 elements over {'', 'a', 'b', 'ab', 50-char, astral}; other kinds: identity"
    pool = ["", "a", "b", "ab", "b" * 50, "\U0001F600"]
    def gen():
        for n in range(4):
            for combo in itertools.product(pool, repeat=n):
                yield list(combo)
    for (vals,) in run.inputs(((v,) for v in gen())):
        v = Vector(vals, str)
        o = v._optimize_for_argsort()
        ok = len(o) == len(v)
        for i in range(len(v)):
            for j in range(len(v)):
                ok = ok and bool(o[i] == o[j]) == bool(v[i] == v[j]) and bool(o[i] < o[j]) == bool(v[i] < v[j])
        w = Vector([1.5, float("nan")])
        ok = ok and w._optimize_for_argsort() is w
        run.check([vals], ok, expected="same == and < on all pairs", got=list(o), clause="order-isomorphism")


vdriver("sort[ascending]", none, lambda v: v.sort(), lambda v: sorted([x for x in v if not is_missing(x)]) + [x for x in v if is_missing(x)],
        kinds=("int", "float", "str", "date", "bool"))
vdriver("sort[descending]", none, lambda v: v.sort(dir=-1), lambda v: sorted([x for x in v if not is_missing(x)], reverse=True) + [x for x in v if is_missing(x)],
        kinds=("int", "float", "str", "date", "bool"))


def _uniq(v):
    out = []
    for x in v:
        if not any(equalish(x, y) for y in out):
            out.append(x)
    return out


vdriver("unique", none, lambda v: v.unique(), _uniq, kinds=("int", "float", "str", "date", "bool"))
