# -*- coding: utf-8 -*-
"""Runs aggregations in THIS process (USE_NUMBA as given by the environment) in a given order of first use and prints
the results as JSON.  Used by the C08 bounded contract: one fresh interpreter per compilation order / cache state."""
import json
import sys

import numpy as np
import dataiter as di
from dataiter import DataFrame, Vector

HELPERS = {
    "all": lambda c: di.all(c), "any": lambda c: di.any(c), "count": lambda c: di.count(c), "count_na": lambda c: di.count(c, drop_na=True),
    "count_unique": lambda c: di.count_unique(c), "first": lambda c: di.first(c), "last": lambda c: di.last(c),
    "nth1": lambda c: di.nth(c, 1), "nth_m2": lambda c: di.nth(c, -2), "min": lambda c: di.min(c), "max": lambda c: di.max(c),
    "max_keep": lambda c: di.max(c, drop_na=False), "mode": lambda c: di.mode(c), "mean": lambda c: di.mean(c), "median": lambda c: di.median(c),
    "quantile": lambda c: di.quantile(c, 0.25), "std": lambda c: di.std(c), "var": lambda c: di.var(c), "sum": lambda c: di.sum(c),
    "first_drop": lambda c: di.first(c, drop_na=True),
    # the non-default setting of drop_na for every helper that has one (kernels are shared with the default: no extra compilation)
    "count_unique_drop": lambda c: di.count_unique(c, drop_na=True), "quantile_keep": lambda c: di.quantile(c, 0.25, drop_na=False),
    "mean_keep": lambda c: di.mean(c, drop_na=False), "median_keep": lambda c: di.median(c, drop_na=False),
    "min_keep": lambda c: di.min(c, drop_na=False), "sum_keep": lambda c: di.sum(c, drop_na=False), "std_keep": lambda c: di.std(c, drop_na=False),
    "var_keep": lambda c: di.var(c, drop_na=False), "mode_keep": lambda c: di.mode(c, drop_na=False), "last_drop": lambda c: di.last(c, drop_na=True),
    "nth1_drop": lambda c: di.nth(c, 1, drop_na=True),
    # a non-default ddof: Numba's np.std / np.var take no ddof, so these must not be routed to a compiled kernel
    "std_ddof1": lambda c: di.std(c, ddof=1), "var_ddof1": lambda c: di.var(c, ddof=1),
}
NUMERIC_ONLY = {"mean", "median", "quantile", "std", "var", "sum", "quantile_keep", "mean_keep", "median_keep", "sum_keep", "std_keep", "var_keep",
                "std_ddof1", "var_ddof1"}


def frames():
    nat = np.datetime64("NaT")
    yield "int", DataFrame(g=[1, 1, 2, 3, 3, 3], x=Vector([3, 1, 2, 2, 2, 5], int))
    yield "float", DataFrame(g=[1, 1, 2, 3, 3, 3], x=Vector([0.5, np.nan, np.nan, 1.5, 1.5, np.nan], float))
    yield "bool", DataFrame(g=[1, 1, 2, 3, 3, 3], x=Vector([True, False, False, True, True, False], bool))
    yield "date", DataFrame(g=[1, 1, 2, 3, 3, 3], x=Vector(["2020-01-02", nat, nat, "2021-01-01", "2020-01-01", "2021-01-01"], "datetime64[D]"))
    yield "timedelta", DataFrame(g=[1, 1, 2, 3, 3, 3], x=Vector([1, np.timedelta64("NaT"), np.timedelta64("NaT"), 5, 5, 2], "timedelta64[D]"))
    yield "float_nonan", DataFrame(g=[2, 1, 2, 1], x=Vector([4.0, 3.0, 2.0, 1.0], float))
    yield "float32", DataFrame(g=[1, 1, 2, 3, 3, 3], x=Vector(np.array([0.5, np.nan, np.nan, 1.5, 7.0, np.nan], np.float32)))
    yield "datetime", DataFrame(g=[1, 1, 2, 3, 3, 3], x=Vector(["2020-01-02T03:04:05", nat, nat, "2021-01-01T00:00:00", "2020-01-01T12:00:00", "2021-01-01T00:00:00"], "datetime64[us]"))
    yield "float_inf", DataFrame(g=[1, 1, 1, 2, 2, 3, 3], x=Vector([2.0, np.inf, 4.0, -np.inf, 6.0, np.nan, 1.0], float))
    yield "ties", DataFrame(g=[1, 1, 1, 1, 2, 2, 2, 2, 2, 3], x=Vector([1, 2, 2, 1, 3, 1, 2, 2, 1, 7], int))
    yield "empty", DataFrame(g=Vector([], int), x=Vector([], float))


def enc(v):
    out = []
    for x in list(v):
        if x is None:
            out.append(None)
        elif isinstance(x, (np.datetime64, np.timedelta64)):
            out.append("NaT" if np.isnat(x) else str(x))
        elif isinstance(x, (float, np.floating)):
            out.append("nan" if x != x else round(float(x), 9))
        elif isinstance(x, (bool, np.bool_)):
            out.append(bool(x))
        elif isinstance(x, (int, np.integer)):
            out.append(int(x))
        else:
            out.append(str(x))
    return out


def main():
    order = json.loads(sys.argv[1])
    res = {}
    for h in order:
        if h.startswith("multi:"):
            parts = h[6:].split("+")
            for name, d in frames():
                if name in ("date", "datetime", "timedelta") and any(p_ in NUMERIC_ONLY for p_ in parts):
                    continue
                if name == "float_inf" and any(p_.startswith("quantile") for p_ in parts):
                    continue        # quantile with an infinite element: known finding, pinned on the single-helper calls
                try:
                    out = d.group_by("g").aggregate(**{f"y{t}": HELPERS[p_]("x") for t, p_ in enumerate(parts)})
                    res[f"{h}/{name}"] = [[enc(out[f"y{t}"]) for t in range(len(parts))], " ".join(str(out[f"y{t}"].dtype) for t in range(len(parts)))]
                    res[f"{h}/{name} receiver"] = [enc(d.x), str(d.x.dtype)]
                except Exception as e:
                    res[f"{h}/{name}"] = [f"raised {type(e).__name__}: {e}", ""]
            continue
        for name, d in frames():
            if h in NUMERIC_ONLY and name in ("date", "datetime", "timedelta"):
                continue
            if h in ("all", "any") and name in ("date", "datetime", "timedelta"):
                continue
            if h == "median_keep" and name == "float32":
                continue        # the known finding on np.median and NaN under Numba is pinned on the float64 frame

            try:
                out = d.group_by("g").aggregate(y=HELPERS[h]("x"))
                res[f"{h}/{name}"] = [enc(out.y), str(out.y.dtype)]
            except Exception as e:
                res[f"{h}/{name}"] = [f"raised {type(e).__name__}: {e}", ""]
    print("RESULT " + json.dumps({"use_numba": bool(di.USE_NUMBA), "res": res}))


if __name__ == "__main__":
    main()
