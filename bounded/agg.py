# -*- coding: utf-8 -*-
"""Bounded run-time contracts for aggregation (C04, C07, C08): real code, small scopes, fresh processes for Numba."""
import itertools
import json
import os
import shutil
import subprocess
import sys
import tempfile

import numpy as np
import dataiter as di
from dataiter import DataFrame, Vector
from .driver import driver

PA = "dataiter/aggregate.py::"
HELPER_NAMES = ["all", "any", "count", "count_na", "count_unique", "first", "last", "nth1", "nth_m2", "min", "max", "max_keep",
                "mode", "mean", "median", "quantile", "std", "var", "sum", "first_drop"]
GENERIC = {"all", "any", "count", "count_na", "min", "max", "max_keep", "mean", "median", "std", "var", "sum"}
NTH = {"first", "last", "nth1", "nth_m2", "first_drop"}


def run_worker(order, use_numba, cache_dir, cache_on=True):
    env = dict(os.environ)
    env["DATAITER_USE_NUMBA"] = "true" if use_numba else "false"
    env["DATAITER_USE_NUMBA_CACHE"] = "true" if cache_on else "false"
    if cache_dir:
        env["NUMBA_CACHE_DIR"] = cache_dir
    p = subprocess.run([sys.executable, "-m", "bounded.numba_worker", json.dumps(order)], capture_output=True, text=True, env=env, timeout=1800)
    for line in p.stdout.splitlines():
        if line.startswith("RESULT "):
            return json.loads(line[7:])
    return {"use_numba": None, "res": {"__error__": [p.stderr[-800:], ""]}}


def close(a, b):
    if a == b:
        return True
    if isinstance(a, list) and isinstance(b, list) and len(a) == len(b):
        return all(close(x, y) for x, y in zip(a, b))
    if isinstance(a, float) and isinstance(b, float):
        return abs(a - b) <= 1e-9 * max(1.0, abs(a), abs(b))
    return False


def classify(h, first):
    """which cooperation of kernels a disagreement belongs to (so that a known finding names one class only)"""
    fam = lambda x: ("generic(default=None)" if x in ("min", "max", "max_keep") else "generic") if x in GENERIC else "nth" if x in NTH else x
    if first is None or first == h:
        return f"{fam(h)} kernel used first"
    return f"{fam(h)} kernel after {fam(first)} kernel"


@driver(PA + "use_numba")
def numba_matrix(run):
    """USE_NUMBA on == off, for every order of first use (compile order) and cache state."""
    thorough = run.tier == "thorough"
    run.max_failures = 10 ** 6          # classify every disagreement (known findings are matched per class)
    ref = run_worker(HELPER_NAMES, False, None)["res"]
    orders = [["max", "first"], HELPER_NAMES]
    if thorough:
        orders = [[h] + [x for x in HELPER_NAMES if x != h] for h in HELPER_NAMES] + [list(reversed(HELPER_NAMES))]
    run.bound = (f"{len(orders)} orders of first use x (fresh cache, same cache re-used by a second process" +
                 (", cache off" if thorough else "") + f") x {len(HELPER_NAMES)} helper calls x 7 grouped frames (int, float+NaN, bool, date+NaT, timedelta+NaT, unsorted, empty)")
    inputs = run.inputs([(o,) for o in orders])
    for (order,) in inputs:
        d = tempfile.mkdtemp(prefix="nbcache")
        try:
            runs = [("fresh cache", run_worker(order, True, d)), ("cache from an earlier process", run_worker(order, True, d))]
            if thorough:
                runs.append(("cache off", run_worker(order, True, d, cache_on=False)))
            for label, got in runs:
                if got["use_numba"] is not True:
                    run.check([order], False, expected="USE_NUMBA on in the worker", got=got["res"].get("__error__"), clause="worker failed")
                    continue
                for key, val in got["res"].items():
                    h = key.split("/")[0]
                    ok = key in ref and close(val[0], ref[key][0]) and val[1] == ref[key][1]
                    run.check([order], ok, expected=ref.get(key), got=val, clause=f"{classify(h, order[0])}: {key} [{label}]")
        finally:
            shutil.rmtree(d, ignore_errors=True)
