# -*- coding: utf-8 -*-
"""Bounded run-time contracts for aggregation (C04, C07, C08): real code, small scopes, fresh processes for Numba."""
import itertools
import json
import os
import shutil
import subprocess
import sys
import tempfile

import numpy as np
import dataiter as di
from dataiter import DataFrame, Vector
from .driver import driver

PA = "dataiter/aggregate.py::"
HELPER_NAMES = ["all", "any", "count", "count_na", "count_unique", "first", "last", "nth1", "nth_m2", "min", "max", "max_keep",
                "mode", "mean", "median", "quantile", "std", "var", "sum", "first_drop",
                "count_unique_drop", "quantile_keep", "mean_keep", "median_keep", "min_keep", "sum_keep", "std_keep", "var_keep", "mode_keep",
                "last_drop", "nth1_drop", "std_ddof1", "var_ddof1",
                # several helpers on the same column in ONE aggregate call (a kernel must not disturb what the next one sees)
                "multi:count_unique+first+last+nth1", "multi:median+first+last", "multi:quantile+mode+nth_m2", "multi:count_unique_drop+first_drop+sum"]
GENERIC = {"all", "any", "count", "count_na", "min", "max", "max_keep", "mean", "median", "std", "var", "sum",
           "mean_keep", "median_keep", "min_keep", "sum_keep", "std_keep", "var_keep", "std_ddof1", "var_ddof1"}
NTH = {"first", "last", "nth1", "nth_m2", "first_drop", "last_drop", "nth1_drop"}


def run_worker(order, use_numba, cache_dir, cache_on=True):
    env = dict(os.environ)
    env["DATAITER_USE_NUMBA"] = "true" if use_numba else "false"
    env["DATAITER_USE_NUMBA_CACHE"] = "true" if cache_on else "false"
    if cache_dir:
        env["NUMBA_CACHE_DIR"] = cache_dir
    p = subprocess.run([sys.executable, "-m", "bounded.numba_worker", json.dumps(order)], capture_output=True, text=True, env=env, timeout=1800)
    for line in p.stdout.splitlines():
        if line.startswith("RESULT "):
            return json.loads(line[7:])
    return {"use_numba": None, "res": {"__error__": [p.stderr[-800:], ""]}}


def close(a, b):
    if a == b:
        return True
    if isinstance(a, list) and isinstance(b, list) and len(a) == len(b):
        return all(close(x, y) for x, y in zip(a, b))
    if isinstance(a, float) and isinstance(b, float):
        return abs(a - b) <= 1e-9 * max(1.0, abs(a), abs(b))
    return False


def classify(h, first):
    """which cooperation of kernels a disagreement belongs to (so that a known finding names one class only)"""
    def fam(x):
        if x.startswith("multi:"):        # several helpers in one call: classified by the most fragile kernel among them
            parts = x[6:].split("+")
            return "nth" if any(p_ in NTH for p_ in parts) else "mode" if any(p_.startswith("mode") for p_ in parts) else "multi"
        return ("generic(default=None)" if x in ("min", "max", "max_keep", "min_keep") else "generic") if x in GENERIC else \
            "nth" if x in NTH else "mode" if x.startswith("mode") else x
    if first is None or first == h:
        return f"{fam(h)} kernel used first"
    return f"{fam(h)} kernel after {fam(first)} kernel"


@driver(PA + "use_numba")
def numba_matrix(run):
    """USE_NUMBA on == off, for every order of first use (compile order) and cache state."""
    thorough = run.tier == "thorough"
    if os.environ.get("PYVC_SKIP_NUMBA_MATRIX"):
        # only used by tools/refac_eval.py for edits that do not touch aggregate.py (never by a registered command)
        run.bound = "skipped on request (PYVC_SKIP_NUMBA_MATRIX)"
        return
    run.max_failures = 10 ** 6          # classify every disagreement (known findings are matched per class)
    ref = run_worker(HELPER_NAMES, False, None)["res"]
    # quick: the order of the known finding, the full list, and two short orders that put a generic reduction kernel in front of the
    # kernels that build optional lists (thorough: every helper first)
    orders = [["max", "first"], HELPER_NAMES, ["mean", "first", "mode"], ["sum", "std", "last", "nth1"]]
    if thorough:
        orders = [[h] + [x for x in HELPER_NAMES if x != h] for h in HELPER_NAMES] + [list(reversed(HELPER_NAMES))]
    run.bound = (f"{len(orders)} orders of first use x (fresh cache, same cache re-used by a second process" +
                 (", cache off" if thorough else "") + f") x {len(HELPER_NAMES)} helper calls (both settings of drop_na) x 11 grouped frames (int, float+NaN, float32+NaN, float with +-inf, bool, date+NaT, datetime+NaT, timedelta+NaT, unsorted, interleaved ties + one-row group, empty) + 4 calls with several helpers on one column in ONE aggregate call")
    inputs = run.inputs([(o,) for o in orders])
    for (order,) in inputs:
        d = tempfile.mkdtemp(prefix="nbcache")
        try:
            runs = [("fresh cache", run_worker(order, True, d)), ("cache from an earlier process", run_worker(order, True, d))]
            if thorough:
                runs.append(("cache off", run_worker(order, True, d, cache_on=False)))
            for label, got in runs:
                if got["use_numba"] is not True:
                    run.check([order], False, expected="USE_NUMBA on in the worker", got=got["res"].get("__error__"), clause="worker failed")
                    continue
                for key, val in got["res"].items():
                    h = key.split("/")[0]
                    # values and missing positions (what C07 and C04 also rest on); the result type is a clause of C08 only.
                    # Columns of the default widths keep the two in one clause, as before; for float32 columns they are
                    # separate clauses, because the result type is a known finding there while the values must agree
                    same_values = key in ref and close(val[0], ref[key][0])
                    same_type = key in ref and val[1] == ref[key][1]
                    if key.endswith("/float32"):
                        run.check([order], same_values, expected=ref.get(key), got=val, clause=f"{classify(h, order[0])}: {key} [{label}]")
                        if os.environ.get("PYVC_PROP", "C08") == "C08":
                            run.check([order], same_type, expected=ref.get(key), got=val, clause=f"{classify(h, order[0])}: {key} result type [{label}]")
                    else:
                        run.check([order], same_values and same_type, expected=ref.get(key), got=val, clause=f"{classify(h, order[0])}: {key} [{label}]")
        finally:
            shutil.rmtree(d, ignore_errors=True)


# ---- C07: helpers against textbook definitions ----------------------------------------------------------
import math
import statistics


def _missing(x):
    if x is None:
        return True
    if isinstance(x, str):
        return x == ""
    if isinstance(x, (np.datetime64, np.timedelta64)):
        return bool(np.isnat(x))
    try:
        return bool(x != x)
    except Exception:
        return False


def _same(a, b, column=False):
    """observed a against expected b; column=True: a is an element of a result COLUMN, where "the column's missing value" of a
    date / duration column is NaT of that type (not NaN, not None) - the vector form returns Python values (NaT as None)"""
    if _missing(a) and _missing(b):
        if column:
            for cls in (np.datetime64, np.timedelta64):
                if isinstance(b, cls) and not isinstance(a, cls):
                    return False
        return True
    if isinstance(a, float) or isinstance(b, float):
        try:
            return math.isclose(float(a), float(b), rel_tol=1e-9, abs_tol=1e-12)
        except Exception:
            return False
    return a == b


def textbook(name, xs, kind, **kw):
    """the statistic the property describes, computed with the standard library only"""
    drop = kw.get("drop_na")
    kept = [x for x in xs if not _missing(x)] if drop else list(xs)
    has_na = any(_missing(x) for x in kept)
    nanv = {"float": float("nan"), "int": float("nan"), "bool": None, "str": "", "date": np.datetime64("NaT"), "td": np.timedelta64("NaT")}[kind]
    if name == "count":
        return len(kept)
    if name == "count_unique":
        return len(set(kept)) if not has_na else None      # NaN objects: not specified here
    if name in ("first", "last", "nth"):
        i = {"first": 0, "last": -1}.get(name, kw.get("index"))
        return kept[i] if -len(kept) <= i < len(kept) else nanv
    if name == "all":
        return all(bool(x) for x in xs)
    if name == "any":
        return any(bool(x) for x in xs)
    if name in ("min", "max"):
        if not kept:
            return nanv
        if has_na:
            return nanv if kind in ("float", "date") else None
        return min(kept) if name == "min" else max(kept)
    if name == "mode":
        if not kept:
            return nanv
        if has_na:
            return None
        best, cnt = None, 0
        for x in kept:
            c = sum(1 for y in kept if y == x)
            if c > cnt:
                best, cnt = x, c
        return best
    nums = [float(x) for x in kept]
    if name == "sum":
        return float("nan") if has_na else sum(kept)
    need = 2 if name in ("std", "var") else 1
    if len(nums) < need:
        return float("nan")
    if has_na:
        return float("nan")
    if name == "mean":
        return statistics.fmean(nums)
    if name == "median":
        return statistics.median(nums)
    if name == "quantile":
        q = kw["q"]
        s = sorted(nums)
        pos = q * (len(s) - 1)
        lo = int(math.floor(pos))
        hi = min(lo + 1, len(s) - 1)
        return s[lo] + (s[hi] - s[lo]) * (pos - lo)
    if name in ("std", "var"):
        ddof = kw.get("ddof", 0)
        if len(nums) - ddof <= 0:
            return None
        m = statistics.fmean(nums)
        v = sum((x - m) ** 2 for x in nums) / (len(nums) - ddof)
        return math.sqrt(v) if name == "std" else v
    raise KeyError(name)


H_POOLS = {"int": [1, 2, 3], "float": [0.5, 1.5, float("nan")], "bool": [True, False], "str": ["a", "b", ""],
           "date": [np.datetime64("2020-01-02"), np.datetime64("2021-01-01"), np.datetime64("NaT", "D")],
           "td": [np.timedelta64(1, "D"), np.timedelta64(3, "D"), np.timedelta64("NaT", "D")]}
H_DT = {"int": int, "float": float, "bool": bool, "str": str, "date": "datetime64[D]", "td": "timedelta64[D]"}
H_CALLS = {
    "all": (("int", "float", "bool"), [{}]), "any": (("int", "float", "bool"), [{}]),
    "count": (tuple(H_POOLS), [{"drop_na": True}, {"drop_na": False}]),
    "count_unique": (tuple(H_POOLS), [{"drop_na": True}, {"drop_na": False}]),
    "first": (tuple(H_POOLS), [{"drop_na": True}, {"drop_na": False}]), "last": (tuple(H_POOLS), [{"drop_na": True}, {"drop_na": False}]),
    "nth": (tuple(H_POOLS), [{"index": i, "drop_na": d} for i in (-3, -1, 0, 1, 2) for d in (True, False)]),
    "min": (("int", "float", "str", "date", "td"), [{"drop_na": True}, {"drop_na": False}]), "max": (("int", "float", "str", "date", "td"), [{"drop_na": True}, {"drop_na": False}]),
    "mode": (("int", "float", "str", "bool", "td"), [{"drop_na": True}, {"drop_na": False}]),
    "mean": (("int", "float", "bool"), [{"drop_na": True}, {"drop_na": False}]), "median": (("int", "float"), [{"drop_na": True}, {"drop_na": False}]),
    "quantile": (("int", "float", "bool"), [{"q": q, "drop_na": d} for q in (0, 0.25, 1) for d in (True, False)]),
    "std": (("int", "float"), [{"ddof": k, "drop_na": d} for k in (0, 1) for d in (True, False)]),
    "var": (("int", "float"), [{"ddof": k, "drop_na": d} for k in (0, 1) for d in (True, False)]),
    "sum": (("int", "float", "bool"), [{"drop_na": True}, {"drop_na": False}]),
}


# documented defaults of drop_na (signatures in doc/aggregation.rst): a call that leaves the keyword out gets these
DOC_DROP_DEFAULT = {"count": False, "count_unique": False, "first": False, "last": False, "nth": False,
                    "max": True, "mean": True, "median": True, "min": True, "mode": True, "quantile": True,
                    "std": True, "sum": True, "var": True}
LEFT_OUT = "keyword left out: the documented default is in effect"


def _variant_matches(name, kw, variant):
    if "drop_na" not in kw:
        return True
    if LEFT_OUT in variant:
        return kw["drop_na"] == DOC_DROP_DEFAULT[name]
    return f"drop_na={kw['drop_na']}" in variant


def _actual_kw(kw, variant):
    """keywords actually passed: the left-out variant calls without drop_na (the oracle still uses the documented value)"""
    return {k: v for k, v in kw.items() if not (k == "drop_na" and LEFT_OUT in variant)}


def h_vectors(kind, maxlen):
    for n in range(maxlen + 1):
        for combo in itertools.product(range(len(H_POOLS[kind])), repeat=n):
            yield list(combo)


def call_helper(name, x, kw):
    kw = dict(kw)
    f = getattr(di, name)
    if name == "nth":
        return f(x, kw.pop("index"), **kw)
    if name == "quantile":
        return f(x, kw.pop("q"), **kw)
    return f(x, **kw)


def helper_driver(name):
    kinds, calls = H_CALLS[name]
    variants = sorted({f"vector form, drop_na={kw['drop_na']}" if "drop_na" in kw else "vector form" for kw in calls})
    if name in DOC_DROP_DEFAULT:
        variants.append(f"vector form, {LEFT_OUT}")
    for variant in variants:
        @driver(PA + f"{name}[{variant}]")
        def _d(run, variant=variant):
            mlen = 4 if run.tier == "thorough" else 3
            run.bound = f"all vectors of <= {mlen} elements over 3-value pools (with ties and a missing value) of kinds {kinds}; arguments {calls}"
            gen = ((k, idx, kw) for k in kinds for idx in h_vectors(k, mlen) for kw in calls if _variant_matches(name, kw, variant))
            for k, idx, kw in run.inputs(gen):
                xs = [H_POOLS[k][i] for i in idx]
                x = Vector(xs, H_DT[k])
                exp = textbook(name, list(x), k, **kw)
                if exp is None:
                    continue            # outside what the property specifies (e.g. NaN without drop_na for order statistics)
                try:
                    got = call_helper(name, x, _actual_kw(kw, variant))
                    ok = _same(got, exp)
                except Exception as e:
                    got, ok = f"raised {type(e).__name__}: {e}", False
                run.check([k, idx, kw], ok, expected=exp, got=got, clause=f"{name} (vector form) = textbook statistic / default")


for _n in H_CALLS:
    helper_driver(_n)


# ---- C07 / C04: group-wise forms through DataFrame.aggregate ------------------------------------------------
def group_frames(kind, maxrow):
    """(group ids, value indices): rows in arbitrary order, group keys 1/2 (and a missing key in thorough scopes)"""
    for n in range(maxrow + 1):
        for gs in itertools.product((1, 2), repeat=n):
            for idx in itertools.product(range(len(H_POOLS[kind])), repeat=n):
                yield list(gs), list(idx)


def group_expected(name, gs, xs, kind, kw):
    out = []
    for key in sorted(set(gs)):
        vals = [x for g, x in zip(gs, xs) if g == key]
        out.append(textbook(name, vals, kind, **kw))
    return out


def group_driver(name):
    kinds, calls = H_CALLS[name]
    variants = sorted({f"group-wise form, drop_na={kw['drop_na']}" if "drop_na" in kw else "group-wise form" for kw in calls})
    if name in DOC_DROP_DEFAULT:
        variants.append(f"group-wise form, {LEFT_OUT}")
    for variant in variants:
        @driver(PA + f"{name}[{variant}]")
        def _d(run, variant=variant):
            mrow = 4 if run.tier == "thorough" else 3
            run.bound = f"all frames of <= {mrow} rows, group column in {{1,2}} in any order, x over 3-value pools of kinds {kinds}; arguments {calls}"
            gen = ((k, gs, idx, kw) for k in kinds for gs, idx in group_frames(k, mrow) for kw in calls if _variant_matches(name, kw, variant))
            for k, gs, idx, kw in run.inputs(gen):
                xs = [H_POOLS[k][i] for i in idx]
                d = DataFrame(g=Vector(gs, int), x=Vector(xs, H_DT[k]))
                exp = group_expected(name, gs, list(d.x), k, kw)
                if any(e is None for e in exp):
                    continue
                kw2 = _actual_kw(kw, variant)
                args = [kw2.pop("index")] if name == "nth" else [kw2.pop("q")] if name == "quantile" else []
                try:
                    got = list(d.group_by("g").aggregate(y=getattr(di, name)("x", *args, **kw2)).y)
                    ok = len(got) == len(exp) and all(_same(a, b, column=True) for a, b in zip(got, exp))
                except Exception as e:
                    got, ok = f"raised {type(e).__name__}: {e}", False
                run.check([k, gs, idx, kw], ok, expected=exp, got=got, clause=f"{name} (group-wise) = textbook statistic per group")


for _n in H_CALLS:
    group_driver(_n)


# ---- C04: grouping partitions the rows (aggregate / split / count / grouped modify against the relational definition) ----
from .df import is_missing as _is_missing, enc as _enc, dec as _dec

_GPOOLS = {
    "int": [0, -1, -2, 2 ** 53, 2 ** 53 + 1], "float": [0.0, -0.0, float("inf"), float("-inf"), float("nan"), 0.5],
    "str": ["", "a", "b"], "date": [np.datetime64("2020-01-02"), np.datetime64("NaT", "D"), np.datetime64("2019-01-01")],
    "bool": [True, False], "obj": [None, 1, 2],
}
_GDT = {"int": int, "float": float, "str": str, "date": "datetime64[D]", "bool": bool, "obj": object}


def _same_key(a, b):
    return all((_is_missing(x) and _is_missing(y)) or (not _is_missing(x) and not _is_missing(y) and bool(x == y)) for x, y in zip(a, b))


def _key_before(a, b):
    """lexicographic, missing last"""
    for x, y in zip(a, b):
        if _same_key((x,), (y,)):
            continue
        if _is_missing(x):
            return False
        if _is_missing(y):
            return True
        return bool(x < y)
    return False


def _group_inputs(run):
    n = 4 if run.tier == "thorough" else 3
    for k1 in _GPOOLS:
        for rows in range(n + 1):
            for c1 in itertools.product(range(len(_GPOOLS[k1])), repeat=rows):
                yield [k1], [list(c1)]
    for k1, k2 in (("int", "str"), ("float", "date"), ("str", "float")):
        for rows in range(min(n, 3) + 1):
            for c1 in itertools.product(range(2), repeat=rows):
                for c2 in itertools.product(range(len(_GPOOLS[k2])), repeat=rows):
                    yield [k1, k2], [list(c1), list(c2)]
    # larger tie-heavy frames (an unstable sort only shows beyond ~16 rows): 40 rows, 3 key values, fixed pseudo-random order
    import random
    for k1 in ("int", "float", "str", "bool"):
        for seed_ in range(3):
            rnd = random.Random(1000 + seed_)
            yield [k1], [[rnd.randrange(min(3, len(_GPOOLS[k1]))) for _ in range(40)]]


def _mk_group_frame(kinds, cols):
    d = {}
    for t, (k, idx) in enumerate(zip(kinds, cols)):
        d[f"g{t}"] = Vector([_GPOOLS[k][i] for i in idx], _GDT[k])
    n = len(cols[0])
    d["i"] = Vector(list(range(n)), int)
    d["v"] = Vector([float(i % 3) for i in range(n)], float)
    d["w"] = Vector([float("nan") if i % 2 == 0 else float(i) for i in range(n)], float)      # a column with missing values
    d["s"] = Vector(["" if i % 3 == 0 else "s%d" % i for i in range(n)], str)
    d["t"] = Vector(np.array(["NaT" if i % 2 == 1 else i + 1 for i in range(n)], "timedelta64[D]"))      # durations with missing values
    return DataFrame(**d)


def _classes(df, by):
    """relational definition: classes of 'equal group key' in order of first appearance, members in original order"""
    keys = [tuple(df[b][r] for b in by) for r in range(df.nrow)]
    classes = []
    for r, k in enumerate(keys):
        for c in classes:
            if _same_key(c[0], k):
                c[1].append(r)
                break
        else:
            classes.append((k, [r]))
    return classes


def _sorted_classes(classes):
    out = []
    for c in classes:          # insertion sort by key (stable)
        pos = len(out)
        for t, o in enumerate(out):
            if _key_before(c[0], o[0]):
                pos = t
                break
        out.insert(pos, c)
    return out


def _c04_driver(name, body):
    @driver("dataiter/data_frame.py::DataFrame." + name)
    def _d(run):
        run.bound = ("12 tie-heavy frames of 40 rows; frames of <= 3 (thorough: 4) rows in every order, one group column over each of int (incl. -1, -2, 2**53, 2**53+1), float (0.0, -0.0, "
                     "+-inf, NaN), str (''), date (NaT), bool, object (None), and two group columns (int x str, float x date, str x float)")
        for kinds, cols in run.inputs(_group_inputs(run)):
            names = [f"g{t}" for t in range(len(kinds))]
            # two group columns: also named in the order opposite to their order in the frame (the result is ordered by the columns AS GIVEN)
            for by in ([names] if len(names) < 2 else [names, names[::-1]]):
                df = _mk_group_frame(kinds, cols)
                exp = _sorted_classes(_classes(df, by))
                try:
                    ok, obs = body(df, by, exp)
                except Exception as e:
                    ok, obs = False, f"raised {type(e).__name__}: {e}"
                run.check([kinds, cols] + ([by] if by != names else []), ok, expected=[[list(map(repr, k)), m] for k, m in exp], got=obs, clause=name)
    return _d


def _agg_body(df, by, exp):
    got = df.copy().group_by(*by).aggregate(n=lambda x: x.nrow, ids=lambda x: "-".join(str(t) for t in x.i), m=di.mean("v"),
                                            m2=lambda x: di.mean(x.v), c=di.count(), f=di.first("i"),
                                            cw=di.count("w", drop_na=True), cw2=lambda x: di.count(x.w, drop_na=True),
                                            cs=di.count("s", drop_na=True), cs2=lambda x: di.count(x.s, drop_na=True),
                                            sw=di.sum("w"), sw2=lambda x: di.sum(x.w), fw=di.first("w", drop_na=True), fw2=lambda x: di.first(x.w, drop_na=True),
                                            ct=di.count("t", drop_na=True), ct2=lambda x: di.count(x.t, drop_na=True),
                                            ut=di.count_unique("t", drop_na=True), ut2=lambda x: di.count_unique(x.t, drop_na=True))
    obs = {c: list(got[c]) for c in got.colnames}
    ok = got.nrow == len(exp) and got.colnames[:len(by) + 6] == by + ["n", "ids", "m", "m2", "c", "f"]
    same_ = lambda a, b: (_is_missing(a) and _is_missing(b)) or a == b       # missing is missing (NaN in a float column, None in an object column)
    for h in ("cw", "cs", "sw", "fw", "ct", "ut"):
        ok = ok and all(same_(a, b) for a, b in zip(got[h], got[h + "2"]))
    for t, (k, members) in enumerate(exp):
        if not ok:
            break
        ok = _same_key(tuple(got[b][t] for b in by), k) and got.n[t] == len(members) and got.ids[t] == "-".join(map(str, members))
        ok = ok and got.c[t] == len(members) and got.f[t] == members[0]
        ok = ok and ((got.m[t] != got.m[t] and got.m2[t] != got.m2[t]) or got.m[t] == got.m2[t])
    ok = ok and sum(got.n) == df.nrow
    return ok, obs


def _split_body(df, by, exp):
    got = df.split(*by)
    obs = [list(map(int, x)) for x in got]
    return obs == [m for k, m in exp] and sorted(i for x in obs for i in x) == list(range(df.nrow)), obs


def _count_body(df, by, exp):
    got = df.count(*by)
    obs = {c: list(got[c]) for c in got.colnames}
    ok = got.nrow == len(exp) and all(_same_key(tuple(got[b][t] for b in by), k) and got.n[t] == len(m) for t, (k, m) in enumerate(exp))
    ok = ok and sum(got.n) == df.nrow and list(df.i) == list(range(df.nrow))
    # count does not group its receiver: a later plain modify still sees the whole frame, a receiver grouped by something else stays so
    if df.nrow:
        ok = ok and all(v == df.nrow for v in df.modify(zz=lambda x: np.repeat(x.nrow, x.nrow)).zz)
        g = df.copy().group_by(by[0])
        g.count(*by[::-1])
        sizes = {}
        for v in g.modify(zz=lambda x: np.repeat(x.nrow, x.nrow)).zz:
            sizes[int(v)] = sizes.get(int(v), 0) + 1
        first_col_classes = _classes(df, by[:1])
        ok = ok and sorted(sizes.items()) == sorted({n: sum(len(m) for k, m in first_col_classes if len(m) == n) for n in {len(m) for k, m in first_col_classes}}.items())
    return ok, obs


def _modify_body(df, by, exp):
    got = df.copy().group_by(*by).modify(size=lambda x: np.repeat(x.nrow, x.nrow), rank=lambda x: x.i - (x.i.min() if x.nrow else 0), first=lambda x: x.i[0] if x.nrow else x.i,
                                         half=lambda x: x.i * 0.5 if x.nrow != 1 else 0)       # int for one-row groups, float for the others: the column is float
    obs = {c: list(got[c]) for c in ("i", "size", "rank", "first")} if got.nrow == df.nrow else "wrong number of rows"
    ok = got.nrow == df.nrow and list(got.i) == list(range(df.nrow))
    for k, members in exp:
        for r in members:
            ok = ok and got["size"][r] == len(members) and got["first"][r] == members[0] and got["rank"][r] == r - members[0]
            ok = ok and float(got["half"][r]) == (r * 0.5 if len(members) > 1 else 0.0)
    return ok, obs


_c04_driver("aggregate[partition]", _agg_body)
_c04_driver("split[partition]", _split_body)
_c04_driver("count[partition]", _count_body)
_c04_driver("modify[grouped]", _modify_body)
