# -*- coding: utf-8 -*-
"""Bounded run-time contracts on the REAL code (runs under /venv/bin/python).

Each driver evaluates the concrete denotation of a contract's clauses on the real
function over an exhaustive small scope.  Results are labelled *bounded* and are never
counted as proved; they serve as (1) the counterexample search + replay when an
obligation fails, (2) the CPython cross-check of discharged clauses."""
import importlib
import json
import sys
import traceback

DRIVERS = {}


def driver(name):
    def deco(f):
        DRIVERS[name] = f
        return f
    return deco


class Run:
    """Collects evaluations / failures for one driver."""
    def __init__(self, tier, seed, replay):
        self.tier, self.seed, self.replay = tier, seed, replay
        self.evaluations = 0
        self.failures = []
        self.nontrivial = set()
        self.distinct = set()
        self.samples = []
        self.bound = ""
        self.max_failures = 3

    def inputs(self, gen):
        """Iterate the scope, or just the replayed input."""
        if self.replay is not None:
            yield self.replay
            return
        for x in gen:
            if len(self.failures) >= self.max_failures:
                return
            yield x

    def check(self, inp, ok, expected=None, got=None, clause=""):
        self.evaluations += 1
        try:
            key = json.dumps(inp, default=str, sort_keys=True)
        except Exception:
            key = repr(inp)
        if key not in self.distinct:
            self.distinct.add(key)
            # non-trivial by rule: the input contains at least one non-empty list / string / mapping (not the empty collection)
            if any(ch.isalnum() for ch in key):
                self.nontrivial.add(key)
            if len(self.samples) < 3 and len(key) < 400:
                self.samples.append({"input": inp, "clause": clause, "ok": bool(ok)})
        if not ok:
            self.failures.append({"input": inp, "clause": clause, "expected": repr(expected)[:500],
                                  "observed": repr(got)[:500]})

    def result(self):
        return {"evaluations": self.evaluations, "failures": self.failures, "bound": self.bound,
                "label": "bounded", "distinct_inputs": len(self.distinct), "distinct_nontrivial": len(self.nontrivial),
                "samples": self.samples}


def main():
    req = json.loads(sys.stdin.read())
    for m in ("bounded.lod", "bounded.df", "bounded.agg", "bounded.vec", "bounded.misc", "bounded.dtre"):
        try:
            importlib.import_module(m)
        except ModuleNotFoundError as e:
            if m not in str(e):
                raise
    out = {}
    import bounded.driver as canonical
    DRIVERS = canonical.DRIVERS
    Run = canonical.Run
    replay = req.get("replay")
    for name in req["contracts"]:
        f = DRIVERS.get(name)
        if f is None:
            out[name] = {"evaluations": 0, "failures": [], "bound": "no bounded driver", "label": "bounded"}
            continue
        run = Run(req["tier"], req["seed"], replay["failing_input"]["input"] if replay and replay.get("failing_input") else None)
        try:
            f(run)
        except Exception:
            run.failures.append({"input": None, "clause": "driver crashed", "expected": "", "observed": traceback.format_exc()[-1500:]})
        out[name] = run.result()
    print(json.dumps(out, default=str))


if __name__ == "__main__":
    main()
