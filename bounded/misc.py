# -*- coding: utf-8 -*-
"""Bounded run-time contracts: io aliases (C14), GeoJSON (C18), dt/regex (C19)."""
import itertools
import json
import os
import shutil
import tempfile

import numpy as np
import dataiter as di
from dataiter import DataFrame, GeoJSON, ListOfDicts
from .driver import driver


def frames_equal(a, b):
    if type(a) is not type(b):
        return False
    if isinstance(a, DataFrame):
        return a.colnames == b.colnames and all(str(a[c].dtype) == str(b[c].dtype) and a[c].equal(b[c]) for c in a.colnames) \
            and getattr(a, "metadata", None) == getattr(b, "metadata", None)
    return a == b


def _sample_frame():
    return DataFrame(a=[1, 2, 3], b=["x", "", "z"], c=[0.5, float("nan"), 2.0])


def alias_driver(alias, target, write, argsets):
    @driver(f"dataiter/io.py::{alias}[alias of {target}]")
    def _d(run):
        run.bound = f"one 3-row file; {len(argsets)} keyword combinations"
        d = tempfile.mkdtemp(prefix="vfio")
        try:
            path = write(d)
            cls, meth = target.split(".")
            tfn = getattr({"DataFrame": DataFrame, "GeoJSON": GeoJSON, "ListOfDicts": ListOfDicts}[cls], meth)
            afn = getattr(di, alias)
            for (kw,) in run.inputs(((k,) for k in argsets)):
                kw2 = {k: (eval(v) if isinstance(v, str) and v.startswith("@") is False and k == "dtypes_" else v) for k, v in kw.items()}
                kw2 = {k: ({kk: {"float": float, "str": str, "int": int}[vv] for kk, vv in v.items()} if k in ("dtypes", "types") else v)
                       for k, v in kw.items()}
                try:
                    exp = tfn(path, **kw2)
                except Exception as e:
                    exp = f"raised {type(e).__name__}"
                try:
                    got = afn(path, **kw2)
                except Exception as e:
                    got = f"raised {type(e).__name__}"
                run.check([kw], frames_equal(got, exp), expected=exp, got=got, clause="alias == class method")
        finally:
            shutil.rmtree(d, ignore_errors=True)
    return _d


def _w_csv(d):
    p = os.path.join(d, "t.csv")
    _sample_frame().write_csv(p)
    return p


def _w_parquet(d):
    p = os.path.join(d, "t.parquet")
    _sample_frame().write_parquet(p)
    return p


def _w_npz(d):
    p = os.path.join(d, "t.npz")
    _sample_frame().write_npz(p)
    return p


def _w_json(d):
    p = os.path.join(d, "t.json")
    _sample_frame().write_json(p)
    return p


def _w_geojson(d):
    p = os.path.join(d, "t.geojson")
    doc = {"type": "FeatureCollection", "name": "n", "features": [
        {"type": "Feature", "properties": {"a": 1, "b": "x"}, "geometry": {"type": "Point", "coordinates": [1, 2]}},
        {"type": "Feature", "properties": {"a": 2}, "geometry": None}]}
    with open(p, "w") as f:
        json.dump(doc, f)
    return p


COLSETS = [{}, {"columns": ["a"]}, {"columns": ["c", "a"]}, {"dtypes": {"a": "float"}}, {"columns": ["a"], "dtypes": {"a": "float"}}]
alias_driver("read_csv", "DataFrame.read_csv", _w_csv, COLSETS + [{"sep": ","}, {"header": False}, {"encoding": "utf-8"}])
alias_driver("read_parquet", "DataFrame.read_parquet", _w_parquet, COLSETS)
alias_driver("read_npz", "DataFrame.read_npz", _w_npz, [{}, {"allow_pickle": True}])
alias_driver("read_json", "ListOfDicts.read_json", _w_json,
             [{}, {"keys": ["a"]}, {"keys": ["c", "a"]}, {"types": {"a": "float"}}, {"keys": ["a"], "types": {"a": "str"}}, {"encoding": "utf-8"}])
alias_driver("read_geojson", "GeoJSON.read", _w_geojson,
             [{}, {"columns": ["a"]}, {"dtypes": {"a": "float"}}, {"columns": ["b", "a"]}, {"encoding": "utf-8"}])
