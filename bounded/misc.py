# -*- coding: utf-8 -*-
"""Bounded run-time contracts: io aliases (C14), GeoJSON (C18), dt/regex (C19)."""
import itertools
import json
import os
import shutil
import tempfile

import numpy as np
import dataiter as di
from dataiter import DataFrame, DataFrameColumn, GeoJSON, ListOfDicts, Vector
from .driver import driver


def frames_equal(a, b):
    if type(a) is not type(b):
        return False
    if isinstance(a, DataFrame):
        return a.colnames == b.colnames and all(str(a[c].dtype) == str(b[c].dtype) and a[c].equal(b[c]) for c in a.colnames) \
            and getattr(a, "metadata", None) == getattr(b, "metadata", None)
    return a == b


def _sample_frame():
    return DataFrame(a=[1, 2, 3], b=["x", "", "z"], c=[0.5, float("nan"), 2.0])


def alias_driver(alias, target, write, argsets):
    @driver(f"dataiter/io.py::{alias}[alias of {target}]")
    def _d(run):
        run.bound = f"one 3-row file; {len(argsets)} keyword combinations"
        d = tempfile.mkdtemp(prefix="vfio")
        try:
            path = write(d)
            cls, meth = target.split(".")
            tfn = getattr({"DataFrame": DataFrame, "GeoJSON": GeoJSON, "ListOfDicts": ListOfDicts}[cls], meth)
            afn = getattr(di, alias)
            for (kw,) in run.inputs(((k,) for k in argsets)):
                kw2 = {k: (eval(v) if isinstance(v, str) and v.startswith("@") is False and k == "dtypes_" else v) for k, v in kw.items()}
                kw2 = {k: ({kk: {"float": float, "str": str, "int": int}[vv] for kk, vv in v.items()} if k in ("dtypes", "types") else v)
                       for k, v in kw.items()}
                try:
                    exp = tfn(path, **kw2)
                except Exception as e:
                    exp = f"raised {type(e).__name__}"
                try:
                    got = afn(path, **kw2)
                except Exception as e:
                    got = f"raised {type(e).__name__}"
                run.check([kw], frames_equal(got, exp), expected=exp, got=got, clause="alias == class method")
        finally:
            shutil.rmtree(d, ignore_errors=True)
    return _d


def _w_csv(d):
    p = os.path.join(d, "t.csv")
    _sample_frame().write_csv(p)
    return p


def _w_parquet(d):
    p = os.path.join(d, "t.parquet")
    _sample_frame().write_parquet(p)
    return p


def _w_npz(d):
    p = os.path.join(d, "t.npz")
    _sample_frame().write_npz(p)
    return p


def _w_json(d):
    p = os.path.join(d, "t.json")
    _sample_frame().write_json(p)
    return p


def _w_geojson(d):
    p = os.path.join(d, "t.geojson")
    doc = {"type": "FeatureCollection", "name": "n", "features": [
        {"type": "Feature", "properties": {"a": 1, "b": "x"}, "geometry": {"type": "Point", "coordinates": [1, 2]}},
        {"type": "Feature", "properties": {"a": 2}, "geometry": None}]}
    with open(p, "w") as f:
        json.dump(doc, f)
    return p


COLSETS = [{}, {"columns": ["a"]}, {"columns": ["c", "a"]}, {"dtypes": {"a": "float"}}, {"columns": ["a"], "dtypes": {"a": "float"}}]
alias_driver("read_csv", "DataFrame.read_csv", _w_csv, COLSETS + [{"sep": ","}, {"header": False}, {"encoding": "utf-8"}])
alias_driver("read_parquet", "DataFrame.read_parquet", _w_parquet, COLSETS)
alias_driver("read_npz", "DataFrame.read_npz", _w_npz, [{}, {"allow_pickle": True}])
alias_driver("read_json", "ListOfDicts.read_json", _w_json,
             [{}, {"keys": ["a"]}, {"keys": ["c", "a"]}, {"types": {"a": "float"}}, {"keys": ["a"], "types": {"a": "str"}}, {"encoding": "utf-8"}])
alias_driver("read_geojson", "GeoJSON.read", _w_geojson,
             [{}, {"columns": ["a"]}, {"dtypes": {"a": "float"}}, {"columns": ["b", "a"]}, {"encoding": "utf-8"}])


# ---- C14 first half: restricting a read never changes what is read (bounded run-time contracts on the real readers) ----
_TY = {"float": float, "str": str, "int": int, "object": object, "len": len, "bool": bool}      # len / bool: converters that tell '' from a value


def _frame_cols(df):
    return {c: (str(df[c].dtype), [None if m else (x.item() if hasattr(x, "item") else x) for x, m in zip(df[c], df[c].is_na())])
            for c in df.colnames}


def _orderings(names, maxlen=3):
    for k in range(1, min(len(names), maxlen) + 1):
        for combo in itertools.permutations(names, k):
            yield list(combo)


def _w_csv3(d):
    p = os.path.join(d, "r.csv")
    DataFrame(a=[1, 2, 3], b=["x", "", "z"], c=[0.5, float("nan"), 2.0], d=["p", "", ""]).write_csv(p)
    return p


def _w_parquet3(d):
    p = os.path.join(d, "r.parquet")
    DataFrame(a=[1, 2, 3], b=["x", "", "z"], c=[0.5, float("nan"), 2.0], d=["p", "", ""]).write_parquet(p)
    return p


def _w_json3(d):
    p = os.path.join(d, "r.json")
    with open(p, "w") as f:
        json.dump([{"a": 1, "b": "x", "z": 9, "d": "p"}, {"b": "", "a": 2, "d": None}, {"c": 2.0, "a": 3, "b": "z"}], f)      # c first occurs in the last item
    return p


def _w_csv_text_forms(d):
    """numbers whose text differs from the text of the parsed value (leading zeros, trailing zeros): a column read as str / object is
    the CAST of what a plain read gives, not the raw field text"""
    p = os.path.join(d, "forms.csv")
    with open(p, "w") as f:
        f.write("a,b,c,d\n007,x,1.50,p\n010,,,\n100,z,2.0,\n")
    return p


def _w_csv_dup_header(d):
    """a header that repeats a name: restricting the read to that name gives what the full read gives for it"""
    p = os.path.join(d, "dup.csv")
    with open(p, "w") as f:
        f.write("a,b,c,b,d\n1,x,0.5,X,p\n2,,,Y,\n3,z,2.0,Z,\n")
    return p


def _w_csv_header_only(d):
    p = os.path.join(d, "h.csv")
    with open(p, "w") as f:
        f.write("a,b,c,d\n")
    return p


def restriction_driver(name, cls, meth, write, colkw, tykw, tymaps, from_string=False, extra_files=()):
    """reader(path, <restriction>, <types>) == select(reader(path, <types>), restriction), compared name by name"""
    @driver(name)
    def _d(run):
        run.bound = ("one 3-row file with columns a (int), b (str incl. ''), c (float incl. missing), d (str incl. null / absent); every ordering of every "
                     f"subset of 1-3 columns x {len(tymaps)} type maps (incl. maps naming unselected columns)"
                     + (f"; plus {len(extra_files)} more file(s): header-only CSV, CSV with a repeated header name, CSV with 007 / 1.50 style numbers, Parquet written by pandas with a materialised index" if extra_files else ""))
        d = tempfile.mkdtemp(prefix="vfrd")
        try:
            paths = [write(d)] + [w(d) for w in extra_files]
            fn = getattr(cls, meth)

            def read(path, **kw):
                if from_string:
                    with open(path) as f:
                        return fn(f.read(), **kw)
                return fn(path, **kw)
            gen = ((pi, cols, tm) for pi in range(len(paths)) for cols in _orderings(["a", "b", "c", "d"], 3) for tm in tymaps)
            for pi, cols, tm in run.inputs(gen):
                inp = [pi, cols, tm]
                ty = {k: _TY[v] for k, v in tm.items()}
                ty0 = dict(ty)
                try:
                    full = read(paths[pi], **({tykw: ty} if ty else {}))      # the SAME map object is used for both reads
                except Exception as e:
                    continue        # the unrestricted read with this type map fails: nothing to compare with
                run.check(inp, ty == ty0, expected=ty0, got=ty, clause="the caller's type map is not modified by a read")
                try:
                    got = read(paths[pi], **{colkw: list(cols)}, **({tykw: ty} if ty else {}))
                except Exception as e:
                    run.check(inp, False, expected="the selected columns of the full read", got=f"raised {type(e).__name__}: {e}",
                              clause="restricted read answers whenever the full read does")
                    continue
                if isinstance(full, DataFrame):
                    exp = {c: v for c, v in _frame_cols(full).items() if c in cols or c == "geometry"}
                    obs = _frame_cols(got)
                    ok = exp == obs
                    # "... and casting them": a column read with a type map is the plainly read column converted with the constructor
                    if ty and ok:
                        try:
                            plain_ = read(paths[pi])
                            for c, t in ty.items():
                                if c in got.colnames:
                                    want = DataFrameColumn(plain_[c].tolist(), t)
                                    na0 = [bool(m) for m in plain_[c].is_na()]
                                    # positions that are missing in the plain read ('' / null) may come back as '' or None in an object
                                    # column: compared only for being "empty"; everything else: same dtype, same values, same missing positions
                                    emptyish = lambda x: x is None or x == "" or (isinstance(x, float) and x != x)
                                    gl, wl = got[c].tolist(), want.tolist()
                                    same_t = str(want.dtype) == str(got[c].dtype) and len(gl) == len(wl) and all(
                                        (emptyish(list(got[c])[i]) if m else (gl[i] == wl[i] and not bool(got[c].is_na()[i]))) for i, m in enumerate(na0))
                                    run.check(inp, same_t, expected=[str(want.dtype), want.tolist()], got=[str(got[c].dtype), got[c].tolist()],
                                              clause="a type map gives the plainly read column cast with the constructor (dtype, values, missing positions)")
                        except Exception as e:
                            run.check(inp, False, expected="cast of the plain read", got=f"raised {type(e).__name__}: {e}", clause="type map == read then cast")
                else:
                    exp = [{k: v for k, v in item.items() if k in cols} for item in full]
                    obs = [dict(x) for x in got]
                    ok = exp == obs and all(type(a[k]) is type(b[k]) for a, b in zip(exp, obs) for k in a)
                    # "... and casting them": a key read with a converter holds converter(plainly read value) in EVERY item that has
                    # the key - blank fields and null values included
                    if ty and ok:
                        try:
                            plain_ = read(paths[pi])
                            same_t = len(plain_) == len(got)
                            for x, y in zip(plain_, got):
                                for k, t in ty.items():
                                    if k in y:
                                        same_t = same_t and k in x and y[k] == t(x[k]) and type(y[k]) is type(t(x[k]))
                            run.check(inp, same_t, expected=[{k: (ty[k](v) if k in ty else v) for k, v in x.items() if k in cols} for x in plain_],
                                      got=obs, clause="a type map gives converter(plainly read value) for every item that has the key")
                        except Exception as e:
                            run.check(inp, False, expected="converters applied to the plain read", got=f"raised {type(e).__name__}: {e}", clause="type map == read then convert")
                run.check(inp, ok, expected=exp, got=obs, clause="every requested column/key holds its own values (any requested order), cast as in the full read")
        finally:
            shutil.rmtree(d, ignore_errors=True)
    return _d


_DF_TYMAPS = [{}, {"a": "float"}, {"c": "float"}, {"a": "float", "b": "object"}, {"b": "str"}, {"a": "str", "c": "float"}, {"d": "str"}]
_LOD_TYMAPS = [{}, {"a": "float"}, {"a": "str"}, {"c": "str", "a": "float"}, {"b": "len"}, {"d": "bool", "b": "len"}]


def _w_parquet_pandas(d):
    """the same table written by pandas after a row filter: the index is materialised as an extra column (__index_level_0__) that a
    restricted read must not bring along"""
    import pandas as pd
    p = os.path.join(d, "pandas.parquet")
    t = pd.DataFrame({"a": [1, 2, 3, 4], "b": ["x", None, "z", "w"], "c": [0.5, float("nan"), 2.0, 1.0], "d": ["p", None, None, "q"]})
    t[t.a != 2].to_parquet(p)
    return p

restriction_driver("dataiter/data_frame.py::DataFrame.read_csv[restriction]", DataFrame, "read_csv", _w_csv3, "columns", "dtypes",
                   _DF_TYMAPS + [{"a": "object"}, {"c": "str"}], extra_files=(_w_csv_text_forms,))
restriction_driver("dataiter/data_frame.py::DataFrame.read_parquet[restriction]", DataFrame, "read_parquet", _w_parquet3, "columns", "dtypes", _DF_TYMAPS,
                   extra_files=(_w_parquet_pandas,))
restriction_driver("dataiter/data_frame.py::DataFrame.read_json[restriction]", DataFrame, "read_json", _w_json3, "columns", "dtypes", _DF_TYMAPS)
restriction_driver("dataiter/data_frame.py::DataFrame.from_json[restriction]", DataFrame, "from_json", _w_json3, "columns", "dtypes", _DF_TYMAPS, from_string=True)
restriction_driver("dataiter/list_of_dicts.py::ListOfDicts.read_csv[restriction]", ListOfDicts, "read_csv", _w_csv3, "keys", "types", _LOD_TYMAPS,
                   extra_files=(_w_csv_header_only, _w_csv_dup_header))
restriction_driver("dataiter/list_of_dicts.py::ListOfDicts.read_json[restriction]", ListOfDicts, "read_json", _w_json3, "keys", "types", _LOD_TYMAPS)
restriction_driver("dataiter/list_of_dicts.py::ListOfDicts.from_json[restriction]", ListOfDicts, "from_json", _w_json3, "keys", "types", _LOD_TYMAPS, from_string=True)


def _w_geojson3(d):
    p = os.path.join(d, "r.geojson")
    doc = {"type": "FeatureCollection", "name": "n", "features": [
        {"type": "Feature", "properties": {"a": 1, "b": "x", "z": 9, "d": "p"}, "geometry": {"type": "Point", "coordinates": [1, 2]}},
        {"type": "Feature", "properties": {"b": "", "a": 2, "d": None}, "geometry": None},
        {"type": "Feature", "properties": {"c": 2.0, "a": 3, "b": "z"}, "geometry": {"type": "Point", "coordinates": [3, 4]}}]}
    # heterogeneous property sets: column c first occurs in the LAST feature, the first feature has an unrequested key z
    with open(p, "w") as f:
        json.dump(doc, f)
    return p


restriction_driver("dataiter/geojson.py::GeoJSON.read[restriction]", GeoJSON, "read", _w_geojson3, "columns", "dtypes", _DF_TYMAPS)


# ---- C06: every public non-in-place method of DataFrame / Vector: receiver and arguments unchanged, result shares no memory ----
def _arrays_of(obj):
    """all NumPy arrays reachable in a result (frames, vectors, lists / tuples / dicts of them)"""
    if isinstance(obj, DataFrame):
        return list(obj.columns)
    if isinstance(obj, np.ndarray):
        return [obj]
    if isinstance(obj, (list, tuple)):
        return [a for x in obj for a in _arrays_of(x)]
    if isinstance(obj, dict):
        return [a for x in obj.values() for a in _arrays_of(x)]
    return []


def _snap(obj):
    if isinstance(obj, DataFrame):
        return ("frame", [(c, str(obj[c].dtype), [repr(x) for x in obj[c]]) for c in obj.colnames], tuple(obj._group_colnames))
    if isinstance(obj, np.ndarray):
        return ("vector", str(obj.dtype), [repr(x) for x in obj], type(obj).__name__)
    return ("other", repr(obj))


def _c06_frames():
    fix = np.array(["b", "", "a"], "<U1")
    yield "int/float/str", lambda: DataFrame(g=[2, 1, 2], x=[0.5, float("nan"), 1.5], s=["b", "", "a"])
    yield "fixed-width string + bool + date", lambda: DataFrame(g=fix.copy(), x=[True, False, True],
                                                                d=Vector(["2020-01-02", "NaT", "2020-01-01"], "datetime64[D]"))
    yield "object + int", lambda: DataFrame(g=Vector([None, 1, "x"], object), x=[3, 1, 2])
    yield "no rows", lambda: DataFrame(g=Vector([], int), x=Vector([], float))
    # strings longer than the display width and with a newline (what printing truncates), float32 and timedelta columns
    yield "long strings + float32 + timedelta", lambda: DataFrame(g=["y" * 60, "a\nb", ""], x=Vector(np.array([1.5, np.nan, 0.5], np.float32)),
                                                                 t=Vector(np.array([1, "NaT", 2], "timedelta64[D]")))


_DF_CALLS = {
    "aggregate": lambda d, o: d.aggregate(n=di.count(), m=lambda x: x.nrow),          # receiver grouped beforehand (see _GROUPED)
    "anti_join": lambda d, o: d.anti_join(o, "g"), "cbind": lambda d, o: d.cbind(o.rename(g="g2", x="x2").select("g2", "x2")),
    "compare": lambda d, o: d.compare(o, "g") if d.nrow else None, "count": lambda d, o: d.count("g"),
    "deepcopy": lambda d, o: d.deepcopy(), "drop_na": lambda d, o: d.drop_na("x"), "filter": lambda d, o: d.filter(d.g == d.g),
    "filter_out": lambda d, o: d.filter_out(d.g != d.g), "full_join": lambda d, o: d.full_join(o.select("g").unique("g"), "g"),
    "head": lambda d, o: d.head(2), "inner_join": lambda d, o: d.inner_join(o.select("g").unique("g"), "g"),
    "left_join": lambda d, o: d.left_join(o.select("g").unique("g").modify(z=lambda x: x.g), "g"), "map": lambda d, o: d.map(lambda x: x),
    "modify": lambda d, o: d.modify(y=lambda x: x.x), "modify (grouped)": lambda d, o: d.modify(y=lambda x: x.nrow),
    "rbind": lambda d, o: d.rbind(o), "rename": lambda d, o: d.rename(h="g"), "sample": lambda d, o: d.sample(2),
    "select": lambda d, o: d.select("x", "g"), "semi_join": lambda d, o: d.semi_join(o, "g"), "slice": lambda d, o: d.slice(list(range(d.nrow))),
    "slice_off": lambda d, o: d.slice_off([]), "sort": lambda d, o: d.sort(g=1), "sort (descending)": lambda d, o: d.sort(g=-1, x=1),
    "split": lambda d, o: d.split("g"), "tail": lambda d, o: d.tail(2), "to_list_of_dicts": lambda d, o: d.to_list_of_dicts(),
    "to_json": lambda d, o: d.to_json() if "d" not in d.colnames else None, "to_string": lambda d, o: d.to_string(),
    "to_pandas": lambda d, o: d.to_pandas(), "to_arrow": lambda d, o: d.to_arrow() if d.g.dtype != object else None,
    "unique": lambda d, o: d.unique("g"), "unselect": lambda d, o: d.unselect("x"), "update": lambda d, o: d.update(o.select("x")),
    # argument combinations: columns only / rows and columns; a mask that is a column of the receiver or of another frame, alone and
    # together with column=value pairs (the mask object itself must stay as it was)
    "slice (columns only)": lambda d, o: d.slice(cols=[1, 0]), "slice (no arguments)": lambda d, o: d.slice(),
    "slice (rows and columns)": lambda d, o: d.slice(rows=list(range(d.nrow)), cols=[0]), "slice_off (columns only)": lambda d, o: d.slice_off(cols=[0]),
    "filter (mask = own boolean column)": lambda d, o: d.filter(_bool_col(d)), "filter_out (mask = own boolean column)": lambda d, o: d.filter_out(_bool_col(d)),
    "filter (mask = column of another frame, with a pair)": lambda d, o: d.filter(_bool_col(o), g=d.g[0]),
    "filter_out (mask = column of another frame, with a pair)": lambda d, o: d.filter_out(_bool_col(o), g=d.g[0]),
    "filter (callable returning an own column, with a pair)": lambda d, o: d.filter(lambda f: _bool_col(f), g=d.g[0]),
    "filter_out (callable returning an own column, with a pair)": lambda d, o: d.filter_out(lambda f: _bool_col(f), g=d.g[0]),
    "filter (pairs)": lambda d, o: d.filter(g=d.g[0], x=d.x[0]), "filter_out (pairs)": lambda d, o: d.filter_out(g=d.g[0], x=d.x[0]),
    "cbind (same number of rows)": lambda d, o: d.cbind(o.rename(g="g2", x="x2")), "cbind (one-row frame)": lambda d, o: d.cbind(o.rename(g="g2", x="x2").head(1)) if d.nrow else None,
    "rbind (other columns)": lambda d, o: d.rbind(o.rename(g="g2")), "update (keywords)": lambda d, o: d.update(x=o.x, z=o.g),
    "modify (column object)": lambda d, o: d.modify(z=o.x, x=o.g), "select (one)": lambda d, o: d.select("g"),
    "rename (two)": lambda d, o: d.rename(h="g", y="x"), "drop_na (all columns)": lambda d, o: d.drop_na(), "unique (all columns)": lambda d, o: d.unique(),
    "cbind (no arguments)": lambda d, o: d.cbind(), "rbind (no arguments)": lambda d, o: d.rbind(),
    "print_ / repr / str": lambda d, o: (repr(d), str(d), d.print_(), d.print_na_counts(), d.print_memory_use()) and None,
    "copy": lambda d, o: d.copy() and None,     # documented shallow copy: shares the columns; only "inputs unchanged" is checked
}


def _bool_col(f):
    """a boolean column OBJECT of the frame (not a new vector): the frame's column x when it is boolean"""
    if f.x.dtype != bool:
        raise TypeError("no boolean column in this frame")
    return f.x


_GROUPED = ("aggregate", "modify (grouped)")      # group_by marks and returns the receiver (documented exception): done before the snapshot


@driver("dataiter/data_frame.py::DataFrame[every public non-in-place method: no mutation, no aliasing]")
def c06_frames(run):
    run.bound = (f"{len(_DF_CALLS)} calls x 5 frames (int/float/str; fixed-width string + bool + date; object; no rows; long strings + float32 + timedelta): receiver and argument "
                 "unchanged (names, order, dtypes, values, grouping), result shares no memory with either")
    frames_ = list(_c06_frames())
    for name, fi in run.inputs((n, i) for n in _DF_CALLS for i in range(len(frames_))):
        label, mk = frames_[fi]
        d, o = mk(), mk()
        if name in _GROUPED:
            d.group_by("g")
        sd, so = _snap(d), _snap(o)
        try:
            import contextlib, io
            with contextlib.redirect_stdout(io.StringIO()):
                got = _DF_CALLS[name](d, o)
        except Exception as e:
            continue          # not applicable to this frame (e.g. JSON of dates): nothing returned, but inputs must still be intact
        finally:
            run.check([name, fi], _snap(d) == sd and _snap(o) == so, expected=[sd, so], got=[_snap(d), _snap(o)],
                      clause=f"{name}: receiver and argument unchanged")
        if name in ("cbind (no arguments)", "rbind (no arguments)", "slice (no arguments)", "deepcopy", "slice_off (columns only)") and name != "slice_off (columns only)":
            # called with nothing to add / remove, the result is the receiver's table again (same names, order, dtypes, values)
            run.check([name, fi], isinstance(got, DataFrame) and _snap(got)[1] == sd[1], expected=sd[1], got=_snap(got)[1] if isinstance(got, DataFrame) else repr(got),
                      clause=f"{name}: the result holds the receiver's columns and values")
        shared = [1 for a in _arrays_of(got) for inp in (d, o) for c in inp.columns if np.shares_memory(a, c)]
        if name == "split" or name.startswith("to_"):
            shared = []       # index vectors / foreign containers: not views of the data columns by construction, checked below by edit
        run.check([name, fi], not shared, expected="no shared memory", got=f"{len(shared)} shared buffers", clause=f"{name}: result shares no memory with the inputs")
        # a later in-place edit of the result is not observable on the inputs
        for a in _arrays_of(got):
            if a.flags.writeable and len(a) and a.dtype.kind in "ifb":
                a[...] = a[::-1].copy() if len(a) > 1 else a
                a[0] = a[0] + 1 if a.dtype.kind in "if" else not a[0]
        run.check([name, fi], _snap(d) == sd and _snap(o) == so, expected=[sd, so], got=[_snap(d), _snap(o)],
                  clause=f"{name}: editing the result in place does not show on the inputs")


_V_CALLS = {
    "as_boolean": lambda v: v.as_boolean(), "as_bytes": lambda v: v.as_bytes(), "as_date": lambda v: v.as_date(), "as_datetime": lambda v: v.as_datetime(),
    "as_float": lambda v: v.as_float(), "as_integer": lambda v: v.as_integer(), "as_object": lambda v: v.as_object(), "as_string": lambda v: v.as_string(),
    "concat": lambda v: v.concat(v), "drop_na": lambda v: v.drop_na(), "head": lambda v: v.head(2), "tail": lambda v: v.tail(2),
    "map": lambda v: v.map(lambda x: x), "range": lambda v: v.range(), "rank": lambda v: v.rank(), "rank (ordinal)": lambda v: v.rank(method="ordinal"),
    "replace_na": lambda v: v.replace_na(v[0]) if len(v) else v.replace_na(None), "sample": lambda v: v.sample(2), "sort": lambda v: v.sort(),
    "sort (descending)": lambda v: v.sort(dir=-1), "tolist": lambda v: v.tolist(), "to_string": lambda v: v.to_string(), "to_strings": lambda v: v.to_strings(),
    "unique": lambda v: v.unique(), "is_na": lambda v: v.is_na(), "equal": lambda v: v.equal(v.copy()), "same dtype conversion": lambda v: Vector(v, v.dtype),
    "to_strings (unquoted, truncated)": lambda v: v.to_strings(quote=False, truncate_width=5), "repr / str": lambda v: (repr(v), str(v)) and None,
    "concat (nothing)": lambda v: v.concat(), "concat (an empty vector)": lambda v: v.concat(v[:0]), "concat (onto an empty vector)": lambda v: v[:0].concat(v),
}


def _c06_vectors():
    yield "int", lambda: Vector([3, 1, 2], int)
    yield "float + NaN", lambda: Vector([0.5, float("nan"), -1.5], float)
    yield "string + ''", lambda: Vector(["b", "", "a"], str)
    yield "fixed-width string", lambda: Vector(np.array(["b", "", "a"], "<U1"))
    yield "bool", lambda: Vector([True, False, True], bool)
    yield "date + NaT", lambda: Vector(["2020-01-02", "NaT", "2020-01-01"], "datetime64[D]")
    yield "object + None", lambda: Vector([None, 1, "x"], object)
    yield "empty", lambda: Vector([], float)
    yield "long strings", lambda: Vector(["y" * 60, "a\nb", ""], str)
    yield "float32 + NaN", lambda: Vector(np.array([1.5, np.nan, 0.5], np.float32))


@driver("dataiter/vector.py::Vector[every public non-in-place method: no mutation, no aliasing]")
def c06_vectors(run):
    run.bound = f"{len(_V_CALLS)} calls x 10 vectors (int, float+NaN, string+'', fixed-width string, bool, date+NaT, object+None, empty, long strings, float32+NaN)"
    vs = list(_c06_vectors())
    for name, vi in run.inputs((n, i) for n in _V_CALLS for i in range(len(vs))):
        v = vs[vi][1]()
        sv = _snap(v)
        try:
            got = _V_CALLS[name](v)
        except Exception:
            continue          # conversion not applicable to this dtype
        finally:
            run.check([name, vi], _snap(v) == sv, expected=sv, got=_snap(v), clause=f"{name}: receiver unchanged")
        arrs = _arrays_of(got)
        run.check([name, vi], not any(np.shares_memory(a, v) for a in arrs), expected="no shared memory", got="shared", clause=f"{name}: result shares no memory with the receiver")


# ---- C18: GeoJSON read / write faithful to the feature collection (bounded run-time contracts; see contracts/io.py) ----
_GEOMS = [{"type": "Point", "coordinates": [1.5, 2]}, None, {"type": "LineString", "coordinates": [[0, 0], [1, 1.25]]},
          {"type": "GeometryCollection", "geometries": [{"type": "Point", "coordinates": [0, 0]}, {"type": "Polygon", "coordinates": [[[0, 0], [1, 0], [1, 1], [0, 0]]]}]},
          {"type": "MultiPolygon", "coordinates": [[[[0, 0], [2, 0], [2, 2], [0, 0]]]]}]
_PROPSETS = [{}, {"a": 1}, {"a": None, "b": "x"}, {"b": "", "c": 2.5}, {"c": True, "a": 2 ** 53 + 1}, {"b": "ä\"\\n", "d": False},
             {"a": 2.75, "c": 3}]          # a: whole number in one feature, a fraction in another (no truncation to the first value's type)
_METAS = [{}, {"name": "n"}, {"crs": {"type": "name", "properties": {"name": "urn:x"}}, "bbox": [0, 1.5, 2, 3]},
          {"we\"ird \\ key": [1, None, "ü"], "name": ""},
          {"items": [1, 2], "keys": "k", "update": {"x": None}}]       # members named like dict methods


def _feature_collections(nmax):
    """(property-set index per feature, index of the extra members, same_geom): geometries rotate through _GEOMS, or - same_geom,
    only generated when a property set repeats - are all the same Point, so that the collection contains EQUAL features"""
    for n in range(nmax + 1):
        for props in itertools.product(range(len(_PROPSETS)), repeat=n):
            for mi in range(len(_METAS)):
                yield list(props), mi, 0
                if len(set(props)) < len(props) and mi < 2:
                    yield list(props), mi, 1
    if nmax < 3:
        # small scopes too get some collections of THREE features (a key present in the first and last feature but not in the middle one
        # needs three): all triples over the first four property sets
        for props in itertools.product(range(4), repeat=3):
            yield list(props), 0, 0


def _features(props, same_geom, shift=0):
    """geometries rotate through _GEOMS, starting at `shift` (the index of the extra members: every geometry type gets used by short collections too)"""
    return [{"type": "Feature", "properties": dict(_PROPSETS[p]), "geometry": _GEOMS[0 if same_geom else (i + shift) % len(_GEOMS)]} for i, p in enumerate(props)]


def _json_eq(a, b):
    if isinstance(a, float) and isinstance(b, float):
        return a == b or (a != a and b != b)
    if isinstance(a, dict) and isinstance(b, dict):
        return a.keys() == b.keys() and all(_json_eq(a[k], b[k]) for k in a)
    if isinstance(a, list) and isinstance(b, list):
        return len(a) == len(b) and all(_json_eq(x, y) for x, y in zip(a, b))
    if isinstance(a, bool) or isinstance(b, bool):
        return a is b
    return a == b


def _cell_is(v, expected, present):
    """a frame cell against the JSON value of the property (absent or null -> missing)"""
    miss = v is None or (isinstance(v, float) and v != v) or (isinstance(v, str) and v == "")
    if not present or expected is None or expected == "":
        return miss
    if isinstance(expected, bool):
        return bool(v) is expected and not miss
    return (not miss) and (v == expected or (isinstance(expected, int) and float(v) == float(expected)))


@driver("dataiter/geojson.py::GeoJSON.read[faithful]")
def geojson_read_driver(run):
    n = 3 if run.tier == "thorough" else 2
    run.bound = (f"feature collections of <= {n} features over {len(_PROPSETS)} property sets (bool/int/float/str/null, heterogeneous keys, 2**53+1, "
                 f"escapes) x 5 geometries (Point, null, LineString, GeometryCollection, MultiPolygon; also collections with EQUAL features) x {len(_METAS)} sets of extra top-level members (nested values, a key needing escapes)")
    d = tempfile.mkdtemp(prefix="vfgj")
    try:
        for props, mi, sg in run.inputs(_feature_collections(n)):
            feats = _features(props, sg, mi)
            doc = dict({"type": "FeatureCollection"}, **_METAS[mi], features=feats)
            p = os.path.join(d, "r.geojson")
            with open(p, "w", encoding="utf-8") as f:
                json.dump(doc, f, ensure_ascii=False)
            try:
                g = GeoJSON.read(p)
                keys = []
                for ft in feats:
                    for k in ft["properties"]:
                        if k not in keys:
                            keys.append(k)
                ok = g.nrow == len(feats) and g.colnames == keys + ["geometry"]
                if ok:
                    for i, ft in enumerate(feats):
                        ok = ok and _json_eq(g.geometry[i], ft["geometry"])
                        for k in keys:
                            ok = ok and _cell_is(g[k][i], ft["properties"].get(k), k in ft["properties"])
                exp_meta = {k: v for k, v in doc.items() if k != "features"}
                ok = ok and _json_eq(dict(g.metadata), exp_meta)
                obs = {"columns": {c: list(g[c]) for c in g.colnames}, "metadata": dict(g.metadata)}
            except Exception as e:
                ok, obs = False, f"raised {type(e).__name__}: {e}"
            run.check([props, mi, sg], ok, expected=doc, got=obs, clause="read: one row per feature in order, a column per property key (missing where absent), geometry unchanged, other members in metadata")
    finally:
        shutil.rmtree(d, ignore_errors=True)


@driver("dataiter/geojson.py::GeoJSON.write[faithful]")
def geojson_write_driver(run):
    n = 3 if run.tier == "thorough" else 2
    run.bound = f"the same feature collections x indent in (default, 0, 4, None): written file is valid JSON with the same features (absent == null) in order; re-reading gives the same frame and metadata"
    d = tempfile.mkdtemp(prefix="vfgj")
    try:
        gen = ((props, mi, sg, ind) for props, mi, sg in _feature_collections(n) for ind in ("default", 0, 4, None))
        for props, mi, sg, ind in run.inputs(gen):
            feats = _features(props, sg, mi)
            doc = dict({"type": "FeatureCollection"}, **_METAS[mi], features=feats)
            p, q = os.path.join(d, "in.geojson"), os.path.join(d, "out.geojson")
            with open(p, "w", encoding="utf-8") as f:
                json.dump(doc, f, ensure_ascii=False)
            try:
                g = GeoJSON.read(p)
                g.write(q, **({} if ind == "default" else {"indent": ind}))
                with open(q, encoding="utf-8") as f:
                    text = f.read()
                try:
                    back = json.loads(text)
                    valid = True
                except Exception as e:
                    back, valid = f"invalid JSON: {e}", False
                run.check([props, mi, sg, ind], valid, expected="valid JSON", got=text[:300], clause="write: the file is valid JSON")
                if not valid:
                    continue
                okf = isinstance(back.get("features"), list) and len(back["features"]) == len(feats)
                if okf:
                    for bf, ft in zip(back["features"], feats):
                        okf = okf and bf.get("type") == "Feature" and _json_eq(bf.get("geometry"), ft["geometry"])
                        bp, fp = bf.get("properties", {}), ft["properties"]
                        for k in set(bp) | set(fp):
                            bv, fv = bp.get(k), fp.get(k)
                            bv = None if bv == "" or (isinstance(bv, float) and bv != bv) else bv
                            fv = None if fv == "" else fv
                            okf = okf and ((bv is None and fv is None) or (bv is not None and fv is not None and (bv == fv or float(bv) == float(fv))))
                okm = _json_eq({k: v for k, v in back.items() if k != "features"}, {k: v for k, v in doc.items() if k != "features"})
                run.check([props, mi, sg, ind], okf, expected=feats, got=back.get("features"), clause="write: same features (absent == null) in the same order")
                run.check([props, mi, sg, ind], okm, expected={k: v for k, v in doc.items() if k != "features"},
                          got={k: v for k, v in back.items() if k != "features"}, clause="write: other top-level members kept")
                g2 = GeoJSON.read(q)
                same = g2.colnames == g.colnames and g2.nrow == g.nrow and _json_eq(dict(g2.metadata), dict(g.metadata))
                if same:
                    for c in g.colnames:
                        na1, na2 = list(g[c].is_na()), list(g2[c].is_na())
                        same = same and na1 == na2 and all(m or _json_eq(a, b) or a == b for a, b, m in zip(g[c].tolist(), g2[c].tolist(), na1))
                run.check([props, mi, sg, ind], same, expected={c: g[c].tolist() for c in g.colnames}, got={c: g2[c].tolist() for c in g2.colnames},
                          clause="write then read: same columns, values, missing positions and metadata")
            except Exception as e:
                run.check([props, mi, sg, ind], False, expected="written and re-read", got=f"raised {type(e).__name__}: {e}", clause="write answers")
    finally:
        shutil.rmtree(d, ignore_errors=True)


@driver("dataiter/data_frame.py::DataFrame.read_csv[no header: type map by generated names]")
def read_csv_no_header(run):
    run.bound = "one header-less 3-column CSV x type maps over the generated names a, b, c x column subsets"
    d = tempfile.mkdtemp(prefix="vfrd")
    try:
        p = os.path.join(d, "n.csv")
        with open(p, "w") as f:
            f.write("1,x,0.5\n2,y,\n3,z,2.0\n")
        gen = ((tm,) for tm in ({}, {"a": "float"}, {"c": "float", "a": "float"}, {"b": "object"}, {"a": "str"}))
        for (tm,) in run.inputs(gen):
            ty = {k: _TY[v] for k, v in tm.items()}
            try:
                plain_ = DataFrame.read_csv(p, header=False)
                got = DataFrame.read_csv(p, header=False, dtypes=dict(ty))
                ok = got.colnames == plain_.colnames == ["a", "b", "c"]
                for c in got.colnames:
                    want = DataFrameColumn(plain_[c].tolist(), ty[c]) if c in ty else plain_[c]
                    ok = ok and str(got[c].dtype) == str(want.dtype) and got[c].equal(want)
                obs = _frame_cols(got)
            except Exception as e:
                ok, obs = False, f"raised {type(e).__name__}: {e}"
            run.check([tm], ok, expected="the full read cast column by column", got=obs, clause="header-less read: type map applies to the generated names")
    finally:
        shutil.rmtree(d, ignore_errors=True)
