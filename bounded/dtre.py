# -*- coding: utf-8 -*-
"""Bounded run-time contracts for C19: dataiter.dt / dataiter.regex against Python's datetime / re, element by element."""
import datetime
import itertools
import re

import numpy as np
from dataiter import Vector, dt, regex
from .driver import driver

DT = "dataiter/dt.py::"
RX = "dataiter/regex.py::"

_D = ["0001-01-01", "2020-02-29", "2021-12-31", "9999-12-31", "NaT"]
_S = ["2020-02-29T23:59:58", "1999-01-01T00:00:00", "2024-12-30T12:34:56", "NaT"]
_US = ["2020-02-29T23:59:58.000001", "2021-01-03T00:00:00.999999", "NaT"]
UNITS = {"D": _D, "s": _S, "us": _US}


def _missing(x):
    if x is None:
        return True
    if isinstance(x, str):
        return x == ""
    if isinstance(x, (np.datetime64, np.timedelta64)):
        return bool(np.isnat(x))
    try:
        return bool(x != x)
    except Exception:
        return False


def dt_vectors(maxlen, units=("D", "s", "us")):
    for u in units:
        for n in range(maxlen + 1):
            for combo in itertools.product(UNITS[u], repeat=n):
                yield u, list(combo)


def mkdt(u, vals):
    return Vector(np.array(vals, f"datetime64[{u}]"))


PY = {
    "year": lambda o: o.year, "month": lambda o: o.month, "day": lambda o: o.day, "hour": lambda o: o.hour, "minute": lambda o: o.minute,
    "second": lambda o: o.second, "microsecond": lambda o: o.microsecond, "weekday": lambda o: o.weekday(), "isoweekday": lambda o: o.isoweekday(),
    "isoweek": lambda o: o.isocalendar()[1], "quarter": lambda o: (o.month + 2) // 3,
}
TIME_OF_DAY = {"hour", "minute", "second", "microsecond"}


def _elementwise(run, name, inp, x, got, pyf, clause):
    objs = x.astype(object)
    ok = isinstance(got, np.ndarray) and len(got) == len(x)
    exp = []
    if ok:
        for o, xe, g in zip(objs, x, got):
            if np.isnat(xe):
                exp.append(None)
                ok = ok and _missing(g)
            else:
                e = pyf(o)
                exp.append(e)
                ok = ok and not _missing(g) and g == e
        if len(x) and not any(np.isnat(e) for e in x) and name in PY:
            ok = ok and got.dtype.kind == "i"
    run.check(inp, ok, expected=exp, got=list(got) if isinstance(got, np.ndarray) else repr(got), clause=clause)


def extractor_driver(name):
    @driver(DT + name)
    def _d(run):
        n = 3 if run.tier == "thorough" else 2
        units = ("s", "us") if name in TIME_OF_DAY else ("D", "s", "us")
        run.bound = f"all datetime vectors of <= {n} elements over {sum(len(UNITS[u]) for u in units)} values (units {units}, years 1..9999, leap day, NaT); scalar form; .dt proxy"
        f = getattr(dt, name)
        for u, vals in run.inputs(dt_vectors(n, units)):
            x = mkdt(u, vals)
            before = list(x)
            try:
                got = f(x)
                _elementwise(run, name, [u, vals], x, got, PY[name], f"dt.{name}: datetime's value at non-missing positions, missing at NaT")
                prox = getattr(x.dt, name)()
                run.check([u, vals], len(prox) == len(got) and all((_missing(a) and _missing(b)) or a == b for a, b in zip(prox, got)),
                          expected=list(got), got=list(prox), clause=f"Vector.dt.{name}() == dt.{name}(vector)")
                for i, xe in enumerate(x):
                    sc = f(xe)
                    run.check([u, vals], (_missing(sc) and _missing(got[i])) or sc == got[i], expected=got[i], got=sc,
                              clause=f"dt.{name}(scalar) behaves like a one-element vector")
            except Exception as e:
                run.check([u, vals], False, expected="a vector", got=f"raised {type(e).__name__}: {e}", clause=f"dt.{name} answers")
            run.check([u, vals], all((np.isnat(a) and np.isnat(b)) or a == b for a, b in zip(x, before)), expected=before, got=list(x), clause="input unchanged")
    return _d


for _n in PY:
    extractor_driver(_n)

FORMATS = ["%Y-%m-%d", "%d.%m.%Y", "%Y%m%dT%H%M%S", "%Y-%m-%d %H:%M:%S.%f"]


@driver(DT + "to_string")
def to_string_driver(run):
    n = 3 if run.tier == "thorough" else 2
    run.bound = f"datetime vectors of <= {n} elements (units D, s, us; NaT) x {len(FORMATS)} strftime formats; from_string inverts to_string for formats that keep the whole value"
    for (u, vals), fmt in run.inputs(itertools.product(dt_vectors(n), FORMATS)):
        x = mkdt(u, [v for v in vals if not v.startswith("0001")])
        try:
            got = dt.to_string(x, fmt)
            ok = isinstance(got, Vector) and got.is_string() and len(got) == len(x)
            exp = [None if np.isnat(xe) else o.strftime(fmt) for o, xe in zip(x.astype(object), x)]
            ok = ok and all((e is None and g == "") or g == e for e, g in zip(exp, got)) and list(got.is_na()) == [e is None for e in exp]
            run.check([[u, vals], fmt], ok, expected=exp, got=list(got), clause="dt.to_string: strftime at non-missing positions, missing at NaT, string vector")
            keeps = (u == "D" and "%d" in fmt) or (u == "s" and "%S" in fmt) or (u == "us" and "%f" in fmt)
            if keeps and ok:
                back = dt.from_string(got, fmt)
                okb = len(back) == len(x) and all((np.isnat(a) and np.isnat(b)) or a == b for a, b in zip(back, x))
                run.check([[u, vals], fmt], okb, expected=list(x), got=list(back), clause="dt.from_string inverts dt.to_string")
        except Exception as e:
            run.check([[u, vals], fmt], False, expected="a vector", got=f"raised {type(e).__name__}: {e}", clause="dt.to_string answers")


@driver(DT + "replace")
def replace_driver(run):
    n = 3 if run.tier == "thorough" else 2
    run.bound = f"datetime vectors of <= {n} elements (units D, s; NaT) x scalar, vector and mixed scalar + vector replacements of year / month / day (+ hour for unit s)"
    for u, vals in run.inputs(dt_vectors(n, ("D", "s"))):
        vals = [v for v in vals if not v.startswith(("0001", "9999", "2020-02-29"))]
        x = mkdt(u, vals)
        objs = x.astype(object)
        kws = [{"year": 2000}, {"month": 1, "day": 2}, {"day": [1 + i for i in range(len(x))]}, {"year": 2001, "month": [2] * len(x)},
               # scalar and vector components together: only the COMBINATION has to be a valid date (31 December -> 1 February)
               {"month": 2, "day": [1 + i for i in range(len(x))]}, {"day": 30, "month": [4 + i for i in range(len(x))]}]
        if u == "s":
            kws.append({"hour": 5})
        for kw in kws:
            try:
                exp = []
                for i, (o, xe) in enumerate(zip(objs, x)):
                    exp.append(None if np.isnat(xe) else np.datetime64(o.replace(**{k: (v[i] if isinstance(v, list) else v) for k, v in kw.items()})))
            except ValueError:
                continue            # Python's datetime rejects the replacement (e.g. 31 February): nothing to compare with
            try:
                got = dt.replace(x, **kw)
                ok = len(got) == len(x) and got.is_datetime() and all((e is None and np.isnat(g)) or (e is not None and g == e) for e, g in zip(exp, got))
                run.check([u, vals, kw], ok, expected=exp, got=list(got), clause="dt.replace: datetime.replace at non-missing positions, NaT stays NaT")
            except Exception as e:
                run.check([u, vals, kw], False, expected="a vector", got=f"raised {type(e).__name__}: {e}", clause="dt.replace answers")


STRINGS = ["", "a", "ab12", "a-b-c", "  x ", "A1b2", " ", "\t\n"]      # whitespace-only strings are NOT missing
PATTERNS = ["a", r"\d+", "", "b*", "^a", "(a)(b)?", "-"]
RXF = {
    "findall": lambda p, s: re.findall(p, s), "fullmatch": lambda p, s: re.fullmatch(p, s), "match": lambda p, s: re.match(p, s),
    "search": lambda p, s: re.search(p, s), "split": lambda p, s: re.split(p, s), "sub": lambda p, s: re.sub(p, "X", s),
    "subn": lambda p, s: re.subn(p, "X", s),
}


def _same_re(a, b):
    if isinstance(a, re.Match) or isinstance(b, re.Match):
        return isinstance(a, re.Match) and isinstance(b, re.Match) and a.span() == b.span() and a.groups() == b.groups()
    return a == b and type(a) is type(b)


def regex_driver(name):
    @driver(RX + name)
    def _d(run):
        n = 3 if run.tier == "thorough" else 2
        run.bound = f"string vectors of <= {n} elements over {len(STRINGS)} strings (incl. the missing '') x {len(PATTERNS)} patterns (incl. empty-matching); scalar form; .re proxy; flags"
        f = getattr(regex, name)
        call = (lambda p, v, **kw: f(p, "X", v, **kw)) if name in ("sub", "subn") else (lambda p, v, **kw: f(p, v, **kw))
        vecs = [list(c) for k in range(n + 1) for c in itertools.product(STRINGS, repeat=k)]
        for vals, pat in run.inputs(itertools.product(vecs, PATTERNS)):
            x = Vector(vals, str)
            try:
                got = call(pat, x)
                ok = isinstance(got, Vector) and len(got) == len(x)
                exp = [None if s == "" else RXF[name](pat, s) for s in vals]
                for e, g, s in zip(exp, got, vals):
                    if s == "":
                        ok = ok and _missing(g)
                    else:
                        ok = ok and _same_re(g, e)
                run.check([vals, pat], ok, expected=[repr(e) for e in exp], got=[repr(g) for g in got],
                          clause=f"regex.{name}: re.{name} at non-missing positions, missing elsewhere")
                prox = getattr(x.re, name)(pat, "X") if name in ("sub", "subn") else getattr(x.re, name)(pat)
                run.check([vals, pat], len(prox) == len(got) and all(_same_re(a, b) or (_missing(a) and _missing(b)) for a, b in zip(prox, got)),
                          expected=[repr(g) for g in got], got=[repr(g) for g in prox], clause=f"Vector.re.{name} == regex.{name}")
                for s, g in zip(vals, got):
                    if s != "":
                        sc = call(pat, s)
                        run.check([vals, pat], _same_re(sc, g), expected=repr(g), got=repr(sc), clause=f"regex.{name}(scalar) behaves like a one-element vector")
                if vals and pat == "a":
                    gi = call("A", x, flags=re.IGNORECASE)
                    ei = [None if s == "" else (re.sub("A", "X", s, flags=re.I) if name == "sub" else re.subn("A", "X", s, flags=re.I) if name == "subn"
                                                else getattr(re, name)("A", s, flags=re.I)) for s in vals]
                    run.check([vals, pat], all((_missing(g) and e is None) or _same_re(g, e) for g, e in zip(gi, ei)), expected=[repr(e) for e in ei],
                              got=[repr(g) for g in gi], clause=f"regex.{name}: flags are passed on")
                    # ... and only to that call: the same pattern without flags afterwards is case-sensitive again
                    g0 = call("A", x)
                    e0 = [None if s == "" else (re.sub("A", "X", s) if name == "sub" else re.subn("A", "X", s) if name == "subn" else getattr(re, name)("A", s)) for s in vals]
                    run.check([vals, pat], all((_missing(g) and e is None) or _same_re(g, e) for g, e in zip(g0, e0)), expected=[repr(e) for e in e0],
                              got=[repr(g) for g in g0], clause=f"regex.{name}: flags of an earlier call with the same pattern do not stick")
            except Exception as e:
                run.check([vals, pat], False, expected="a vector", got=f"raised {type(e).__name__}: {e}", clause=f"regex.{name} answers")
    return _d


for _n in RXF:
    regex_driver(_n)


@driver("dataiter/vector.py::DtProxy.__init__")
def dt_proxy_driver(run):
    """every x.dt.<f>(...) equals dt.<f>(x, ...) in values, missing positions AND dtype - also after x was edited in place"""
    n = 2
    run.bound = "datetime vectors of <= 2 elements (units D, s, us; NaT) x every dt function reachable through the proxy; repeated after an in-place edit"
    calls = {nm: (lambda v, nm=nm: getattr(v.dt, nm)(), lambda v, nm=nm: getattr(dt, nm)(v)) for nm in PY}
    calls["replace"] = (lambda v: v.dt.replace(year=2001), lambda v: dt.replace(v, year=2001))
    calls["to_string"] = (lambda v: v.dt.to_string("%Y-%m-%d"), lambda v: dt.to_string(v, "%Y-%m-%d"))
    for u, vals in run.inputs(dt_vectors(n)):
        vals = [v for v in vals if not v.startswith(("0001", "9999", "2020-02-29"))]
        x = mkdt(u, vals)
        for nm, (via_proxy, direct) in calls.items():
            if nm in TIME_OF_DAY and u == "D":
                continue
            try:
                for phase in ("fresh", "after an in-place edit"):
                    a, b = via_proxy(x), direct(x)
                    ok = str(a.dtype) == str(b.dtype) and len(a) == len(b) and all((_missing(p) and _missing(q)) or p == q for p, q in zip(a, b))
                    run.check([u, vals], ok, expected=[str(b.dtype), list(b)], got=[str(a.dtype), list(a)], clause=f"Vector.dt.{nm} == dt.{nm} ({phase})")
                    if len(x) and phase == "fresh":
                        x = x.copy()
                        x.dt                     # make sure the proxy exists before the edit
                        x[0] = np.datetime64("2011-11-11") if not np.isnat(x[0]) else np.datetime64("2012-12-12")
            except Exception as e:
                run.check([u, vals], False, expected="same result through the proxy", got=f"raised {type(e).__name__}: {e}", clause=f"Vector.dt.{nm} answers")
