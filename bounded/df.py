# -*- coding: utf-8 -*-
"""Bounded run-time contracts for DataFrame / Vector (real code, exhaustive small scope)."""
import itertools
import math

import numpy as np
import dataiter as di
from dataiter import DataFrame, Vector, DataFrameColumn
from .driver import driver

NAN = float("nan")
POOLS = {
    "int": [0, -1, -2, 2 ** 53],
    "obj": [None, True, "x"],
    "float": [0.5, NAN, float("-inf")],
    "str": ["", "a", "b" * 50],
    "bool": [True, False],
    "date": [np.datetime64("2020-01-02"), np.datetime64("NaT", "D")],
    "fix": ["", "a", "bc"],
    "imin": [0, 1, -2 ** 63],          # the smallest int64 (negation wraps)
    "u8": [0, 1, 2],                   # unsigned (negation wraps)
    "td": [np.timedelta64(1, "D"), np.timedelta64("NaT", "D")],
    "f4": [0.5, NAN, 2.0],             # float32 (and float16): every float width is a float kind with NaN as the missing value
    "objn": [None, 9, 10, 9.0],        # object vector of mutually comparable values: str() order differs from their own, 9 == 9.0 but str differs
}


def columns(kind, nrow):
    for combo in itertools.product(POOLS[kind], repeat=nrow):
        yield list(combo)


def mkcol(kind, values):
    if kind == "fix":          # old-style fixed-width strings (what np.array gives for a list of str)
        return Vector(np.array(list(values), "<U3"))
    if kind == "td":
        return Vector(np.array(list(values), "timedelta64[D]"))
    if kind == "imin":
        return Vector(values, int)
    if kind == "u8":
        return Vector(values, np.uint8)
    if kind == "objn":
        return Vector.fast(list(values), object)
    if kind == "f4":
        return Vector(np.array(list(values), np.float32))
    dt = {"int": int, "float": float, "str": str, "bool": bool, "date": "datetime64[D]", "obj": object}[kind]
    return Vector(values, dt)


def frames(maxrow, kinds=("int", "float", "str"), ncols=(1, 2)):
    """yields (spec, ) where spec = [(name, kind, values), ...] - JSON-friendly"""
    for nrow in range(maxrow + 1):
        for nc in ncols:
            for ks in itertools.product(kinds, repeat=nc):
                pools = [list(columns(k, nrow)) for k in ks]
                for combo in itertools.product(*pools):
                    yield [(f"c{i}", k, enc(v)) for i, (k, v) in enumerate(zip(ks, combo))]


def enc(values):
    out = []
    for v in values:
        if isinstance(v, float) and math.isnan(v):
            out.append("nan")
        elif isinstance(v, float) and math.isinf(v):
            out.append("-inf" if v < 0 else "inf")
        elif isinstance(v, np.datetime64):
            out.append("D:" + str(v))
        elif isinstance(v, np.timedelta64):
            out.append("TD:" + ("NaT" if np.isnat(v) else str(int(v / np.timedelta64(1, "D")))))
        else:
            out.append(v)
    return out


def dec(values):
    out = []
    for v in values:
        if v == "nan" and isinstance(v, str):
            out.append(NAN)
        elif v in ("-inf", "inf") and isinstance(v, str):
            out.append(float(v))
        elif isinstance(v, str) and v.startswith("D:"):
            out.append(np.datetime64(v[2:], "D"))
        elif isinstance(v, str) and v.startswith("TD:"):
            out.append(np.timedelta64("NaT", "D") if v[3:] == "NaT" else np.timedelta64(int(v[3:]), "D"))
        else:
            out.append(v)
    return out


def build(spec):
    return DataFrame(**{name: mkcol(kind, dec(values)) for name, kind, values in spec})


def cell_eq(a, b):
    try:
        if a != a and b != b:
            return True
    except Exception:
        pass
    if isinstance(a, (np.datetime64,)) and isinstance(b, np.datetime64) and np.isnat(a) and np.isnat(b):
        return True
    return a == b and type(a) is type(b)


def col_eq(a, b):
    return len(a) == len(b) and str(a.dtype) == str(b.dtype) and all(cell_eq(x, y) for x, y in zip(list(a), list(b)))


def frame_rows_are(got, src, r):
    """got consists of rows r of src: same names/order/dtypes, got[c][j] == src[c][r[j]]"""
    if not isinstance(got, DataFrame) or got.colnames != src.colnames:
        return False
    for c in src.colnames:
        exp = src[c][np.array(r, dtype=int)] if len(r) else src[c][:0]
        if not col_eq(got[c], exp):
            return False
        if not isinstance(got[c], DataFrameColumn) or np.shares_memory(got[c], src[c]):
            return False
    return True


def snapshot(df):
    return {c: (str(df[c].dtype), [repr(x) for x in df[c]]) for c in df.colnames}, tuple(df._group_colnames)


def maxrow(run):
    return 3 if run.tier == "thorough" else 2


def B(run):
    return f"frames of 1-2 columns over int/float/str (values incl. NaN, -inf, 2**53, '', 50-char string), <= {maxrow(run)} rows"


def rows_driver(name, gen_args, call, expect_rows, kinds=("int", "float", "str")):
    """generic driver: result must consist of rows expect_rows(...) of the receiver; receiver unchanged"""
    @driver(name)
    def _d(run):
        run.bound = B(run)
        gen = ((spec,) + tuple(a) for spec in frames(maxrow(run), kinds) for a in gen_args(spec, run))
        for inp in run.inputs(gen):
            spec = [tuple(x) for x in inp[0]]
            args = inp[1:]
            df = build(spec)
            before = snapshot(df)
            try:
                got = call(df, *args)
                r = expect_rows(df, *args)
                ok = frame_rows_are(got, df, r) and snapshot(df) == before
                obs = {c: list(got[c]) for c in got.colnames} if isinstance(got, DataFrame) else got
            except Exception as e:
                ok, obs, r = False, f"raised {type(e).__name__}: {e}", None
            run.check(list(inp), ok, expected=f"rows {r}", got=obs, clause="whole rows, receiver unchanged, no shared memory")
    return _d


def nrow_of(spec):
    return len(spec[0][2])


def masks(spec, run):
    return [(list(m),) for m in itertools.product([True, False], repeat=nrow_of(spec))]


P = "dataiter/data_frame.py::DataFrame."
rows_driver(P + "filter[boolean mask]", masks, lambda d, m: d.filter(np.array(m, dtype=bool)),
            lambda d, m: [i for i, x in enumerate(m) if x])
rows_driver(P + "filter_out[boolean mask]", masks, lambda d, m: d.filter_out(np.array(m, dtype=bool)),
            lambda d, m: [i for i, x in enumerate(m) if not x])
rows_driver(P + "filter[callable]", masks, lambda d, m: d.filter(lambda x: np.array(m, dtype=bool)),
            lambda d, m: [i for i, x in enumerate(m) if x])


def kv_args(spec, run):
    name, kind, values = spec[0]
    return [(name, v) for v in enc(POOLS[kind])]


def veq(x, v):
    """element == scalar as the property states it (missing values equal nothing)"""
    try:
        return bool(x == v)
    except Exception:
        return False


def _v(v):
    return dec([v])[0]


rows_driver(P + "filter[column=value]", kv_args, lambda d, k, v: d.filter(**{k: _v(v)}),
            lambda d, k, v: [i for i, x in enumerate(d[k]) if veq(x, _v(v))])
rows_driver(P + "filter_out[column=value]", kv_args, lambda d, k, v: d.filter_out(**{k: _v(v)}),
            lambda d, k, v: [i for i, x in enumerate(d[k]) if not veq(x, _v(v))])


def kv2_args(spec, run):
    if len(spec) < 2:
        return []
    return [(spec[0][0], enc(POOLS[spec[0][1]])[0], spec[1][0], v2) for v2 in enc(POOLS[spec[1][1]])]


rows_driver(P + "filter[two column=value pairs]", kv2_args, lambda d, k1, v1, k2, v2: d.filter(**{k1: _v(v1), k2: _v(v2)}),
            lambda d, k1, v1, k2, v2: [i for i in range(d.nrow) if veq(d[k1][i], _v(v1)) and veq(d[k2][i], _v(v2))])
rows_driver(P + "filter_out[two column=value pairs]", kv2_args, lambda d, k1, v1, k2, v2: d.filter_out(**{k1: _v(v1), k2: _v(v2)}),
            lambda d, k1, v1, k2, v2: [i for i in range(d.nrow) if not (veq(d[k1][i], _v(v1)) and veq(d[k2][i], _v(v2)))])


def index_args(spec, run):
    n = nrow_of(spec)
    out = []
    for m in range(0, 3):
        for combo in itertools.product(range(-n, n), repeat=m):
            out.append((list(combo),))
    return out


rows_driver(P + "slice[rows]", index_args, lambda d, r: d.slice(r), lambda d, r: [i % d.nrow for i in r], kinds=("int", "float"))
rows_driver(P + "slice_off[rows]", index_args, lambda d, r: d.slice_off(r),
            lambda d, r: [i for i in range(d.nrow) if i not in [x % d.nrow for x in r]], kinds=("int", "float"))


@driver(P + "slice[rows: longer index vectors with repeats and disorder]")
def slice_long(run):
    """index vectors of 3-4 positions on a 4-row frame: repeats, disorder, negative positions (a shortcut valid for strictly
    increasing vectors only - e.g. 'last - first == len - 1 means contiguous' - shows from three positions on)"""
    run.bound = "one 4-row frame (int + str column) x all index vectors of 3 positions over -4..3 and of 4 positions over 0..3; slice and slice_off"
    spec = [("c0", "int", enc([0, -1, -2, 2 ** 53])), ("c1", "str", enc(["", "a", "b" * 50, "a"]))]
    gen = [(list(c),) for c in itertools.product(range(-4, 4), repeat=3)] + [(list(c),) for c in itertools.product(range(4), repeat=4)]
    for (r,) in run.inputs(gen):
        df = build(spec)
        before = snapshot(df)
        try:
            got = df.slice(r)
            ok = frame_rows_are(got, df, [i % 4 for i in r]) and snapshot(df) == before
            got2 = df.slice_off(r)
            ok = ok and frame_rows_are(got2, df, [i for i in range(4) if i not in [x % 4 for x in r]]) and snapshot(df) == before
            obs = {c: list(got[c]) for c in got.colnames}
        except Exception as e:
            ok, obs = False, f"raised {type(e).__name__}: {e}"
        run.check([r], ok, expected=f"rows {[i % 4 for i in r]} (slice) / the others in order (slice_off)", got=obs, clause="slice / slice_off with a longer index vector")


@driver(P + "unique[one key column: longer frames with many duplicates]")
def unique_long(run):
    """the FIRST row of every key value is kept, whatever the length: a sort-based shortcut that is not stable only shows from about four
    rows on (and an unstable argsort only beyond ~16), so all key vectors of 4-5 rows over three values and 40-row tie-heavy frames"""
    import random
    run.bound = "int / float / str key vectors: all of 4-5 rows over 3 values, plus 6 pseudo-random ones of 40 rows; unique on that column and left_join against it"
    pools = {"int": [2, 1, 0], "float": [0.5, NAN, -1.5], "str": ["b", "", "a"]}
    def gen():
        for kind in pools:
            for n in (4, 5):
                for combo in itertools.product(range(3), repeat=n):
                    if kind == "int" or n == 4:
                        yield kind, list(combo)
            for seed_ in range(2):
                rnd = random.Random(77 + seed_)
                yield kind, [rnd.randrange(3) for _ in range(40)]
    for kind, idx in run.inputs(gen()):
        vals = [pools[kind][i] for i in idx]
        d = DataFrame(k=mkcol(kind, vals), i=Vector(list(range(len(vals))), int))
        first = []
        for t, v in enumerate(idx):
            if v not in [idx[u] for u in first]:
                first.append(t)
        try:
            got = d.unique("k")
            ok = list(got.i) == first
            # a join finds the FIRST right row with the key (non-missing keys only)
            left = DataFrame(k=mkcol(kind, pools[kind]), j=Vector([0, 1, 2], int))
            lj = left.left_join(d, "k")
            for t in range(3):
                exp = None if is_missing(pools[kind][t]) else next((u for u, v in enumerate(idx) if v == t), None)
                ok = ok and ((exp is None and is_missing(lj.i[t])) or (exp is not None and lj.i[t] == exp))
            obs = list(got.i)
        except Exception as e:
            ok, obs = False, f"raised {type(e).__name__}: {e}"
        run.check([kind, idx], ok, expected=first, got=obs, clause="unique keeps the first row of every key value; left_join takes the first right row with the key")


@driver(P + "modify[grouped: per-group results of a wrong length are rejected]")
def grouped_modify_lengths(run):
    """a group-wise function must return one value, or one value per row of ITS group; anything else is rejected, never stored"""
    run.bound = "frames of 2-4 rows, one group column with group sizes (1,1) .. (3,1) / (2,2); functions returning k values as list / array / column for k in 0..4, or the whole column"
    gen = ((g, k, how) for g in ([0, 1], [0, 0, 1], [0, 0, 0, 1], [0, 0, 1, 1], [1, 0, 0]) for k in (0, 1, 2, 3, 4, "all") for how in ("list", "array", "column"))
    for g, k, how in run.inputs(gen):
        d = DataFrame(g=Vector(g, int), i=Vector(list(range(len(g))), int))
        before = snapshot(d)
        whole = d.i

        def f(x):
            vals = list(whole) if k == "all" else list(range(100, 100 + k))
            return {"list": lambda: vals, "array": lambda: np.array(vals), "column": lambda: DataFrameColumn(vals) if vals else DataFrameColumn([], int)}[how]()
        sizes = {v: g.count(v) for v in set(g)}
        nvals = len(g) if k == "all" else k
        fits = all(nvals == 1 or nvals == sz for sz in sizes.values())
        try:
            got = d.copy().group_by("g").modify(z=f)
            ok = fits and got.nrow == d.nrow and len(got.z) == d.nrow and got.colnames == ["g", "i", "z"]
            obs = list(got.z)
        except ValueError as e:
            ok, obs = not fits, f"raised ValueError: {e}"
        except Exception as e:
            ok, obs = False, f"raised {type(e).__name__}: {e}"
        ok = ok and snapshot(d) == before
        run.check([g, k, how], ok, expected="one value per row of the frame" if fits else "ValueError", got=obs, clause="grouped modify: per-group results of a wrong length are rejected")


NS = [0, 1, 2, 5]
rows_driver(P + "head", lambda s, run: [(n,) for n in NS], lambda d, n: d.head(n), lambda d, n: list(range(min(n, d.nrow))))
rows_driver(P + "tail", lambda s, run: [(n,) for n in NS], lambda d, n: d.tail(n),
            lambda d, n: list(range(d.nrow - min(n, d.nrow), d.nrow)))


def is_missing(x):
    if x is None:
        return True
    if isinstance(x, str):
        return x == ""
    if isinstance(x, (np.datetime64, np.timedelta64)):
        return bool(np.isnat(x))
    try:
        return bool(x != x)
    except Exception:
        return False


KALL = ("int", "float", "str", "date", "obj")
rows_driver(P + "drop_na[one column]", lambda s, run: [(s[0][0],)], lambda d, k: d.drop_na(k),
            lambda d, k: [i for i in range(d.nrow) if not is_missing(d[k][i])], kinds=KALL + ("td", "f4", "u8", "bool"))
rows_driver(P + "drop_na[two columns]", lambda s, run: [(s[0][0], s[1][0])] if len(s) > 1 else [],
            lambda d, k1, k2: d.drop_na(k1, k2),
            lambda d, k1, k2: [i for i in range(d.nrow) if not (is_missing(d[k1][i]) or is_missing(d[k2][i]))], kinds=KALL)


@driver(P + "sample")
def sample_driver(run):
    run.bound = "frames with one int column 0..n-1, n <= 4; sample sizes 0..5; 5 seeds"
    gen = ((n, k, seed) for n in range(5) for k in range(6) for seed in range(5))
    for n, k, seed in run.inputs(gen):
        df = DataFrame(i=list(range(n)), s=[str(x) for x in range(n)])
        np.random.seed(seed + run.seed)
        got = df.sample(k)
        idx = list(got.i) if isinstance(got, DataFrame) else None
        ok = isinstance(got, DataFrame) and len(idx) == min(k, n) and idx == sorted(set(idx)) and all(0 <= x < n for x in idx) \
            and list(got.s) == [str(x) for x in idx] and not np.shares_memory(got.i, df.i)
        run.check([n, k, seed], ok, expected=f"{min(k, n)} distinct rows in order", got=idx, clause="sample")


def key_of(d, ks, i):
    return tuple(None if is_missing(d[k][i]) else d[k][i].item() if hasattr(d[k][i], "item") else d[k][i] for k in ks)


def first_rows(d, ks):
    seen, out = [], []
    for i in range(d.nrow):
        key = key_of(d, ks, i)
        if not any(key == s for s in seen):
            seen.append(key)
            out.append(i)
    return out


rows_driver(P + "unique[one key column]", lambda s, run: [(s[0][0],)], lambda d, k: d.unique(k),
            lambda d, k: first_rows(d, [k]), kinds=KALL)
rows_driver(P + "unique[two key columns]", lambda s, run: [(s[0][0], s[1][0])] if len(s) > 1 else [],
            lambda d, k1, k2: d.unique(k1, k2), lambda d, k1, k2: first_rows(d, [k1, k2]), kinds=KALL)


# ---- C09 ------------------------------------------------------------------------------------------
def frame_equals(got, exp_cols):
    """exp_cols: list of (name, Vector)"""
    if not isinstance(got, DataFrame) or got.colnames != [n for n, _ in exp_cols]:
        return False
    return all(col_eq(got[n], v) and isinstance(got[n], DataFrameColumn) for n, v in exp_cols)


def no_shared(got, *inputs):
    for c in got.colnames:
        for inp in inputs:
            cols = inp.columns if isinstance(inp, DataFrame) else [inp]
            if any(np.shares_memory(got[c], x) for x in cols):
                return False
    return True


def frame_driver(name, gen, call, expect, kinds=("int", "float", "str"), ncols=(1, 2)):
    @driver(name)
    def _d(run):
        run.bound = B(run)
        g = ((spec,) + tuple(a) for spec in frames(maxrow(run), kinds, ncols) for a in gen(spec, run))
        for inp in run.inputs(g):
            spec = [tuple(x) for x in inp[0]]
            args = inp[1:]
            df = build(spec)
            before = snapshot(df)
            try:
                got, others = call(df, *args)
                exp = expect(df, *args)
                ok = frame_equals(got, exp) and snapshot(df) == before and no_shared(got, df, *others)
                obs = {c: list(got[c]) for c in got.colnames} if isinstance(got, DataFrame) else got
            except Exception as e:
                ok, obs, exp = False, f"raised {type(e).__name__}: {e}", None
            run.check(list(inp), ok, expected=[(n, list(v)) for n, v in exp] if exp else None, got=obs,
                      clause="expected columns/order/values, inputs unchanged, no shared memory")
    return _d


frame_driver(P + "select[two columns]", lambda s, run: [()] if len(s) > 1 else [],
             lambda d: (d.select("c1", "c0"), []), lambda d: [("c1", d.c1), ("c0", d.c0)])
frame_driver(P + "unselect[two columns]", lambda s, run: [("c0", "zz"), ("c1", "c0")],
             lambda d, a, b: (d.unselect(*[x for x in (a, b) if x in d]), []),
             lambda d, a, b: [(n, d[n]) for n in d.colnames if n not in (a, b)])


def other_frames(spec, run):
    n = nrow_of(spec)
    vals = enc(POOLS["float"])[:1] * n
    return [([("c0", "float", vals)],), ([("z", "float", vals), ("c1", "float", vals)],)]


frame_driver(P + "update", other_frames, lambda d, o: (lambda od: (d.update(od), [od]))(build([tuple(x) for x in o])),
             lambda d, o: (lambda od: [(n, d[n]) for n in d.colnames if n not in od] + [(n, od[n]) for n in od.colnames])(build([tuple(x) for x in o])))


def modify_expect(d, name, vec):
    cols = [(n, d[n]) for n in d.colnames]
    if name in d:
        return [(n, vec if n == name else v) for n, v in cols]
    return cols + [(name, vec)]


def mvals(spec, run):
    n = nrow_of(spec)
    return [(nm, enc([0.5] * n)) for nm in ("c0", "new")]


frame_driver(P + "modify[vector value]", mvals,
             lambda d, nm, v: (lambda vec: (d.modify(**{nm: vec}), [vec]))(Vector(dec(v), float)),
             lambda d, nm, v: modify_expect(d, nm, Vector(dec(v), float)))
frame_driver(P + "modify[value is a column of another frame]", mvals,
             lambda d, nm, v: (lambda od: (d.modify(**{nm: od.x}), [od]))(DataFrame(x=Vector(dec(v), float))),
             lambda d, nm, v: modify_expect(d, nm, Vector(dec(v), float)))
frame_driver(P + "modify[callable value]", mvals,
             lambda d, nm, v: (lambda od: (d.modify(**{nm: lambda x: od.x}), [od]))(DataFrame(x=Vector(dec(v), float))),
             lambda d, nm, v: modify_expect(d, nm, Vector(dec(v), float)))


frame_driver(P + "rename[one column]", lambda s, run: [("new1", "c0")],
             lambda d, new, old: (d.rename(**{new: old}), []),
             lambda d, new, old: [(new if n == old else n, d[n]) for n in d.colnames])
frame_driver(P + "cbind", other_frames,
             lambda d, o: (lambda od: (d.cbind(od), [od]))(build([tuple(x) for x in o])),
             lambda d, o: (lambda od: [(n, d[n]) for n in d.colnames] + [(n, od[n]) for n in od.colnames if n not in d])(build([tuple(x) for x in o])))


def rbind_others(spec, run):
    out = []
    k0 = spec[0][1]
    v0 = enc(POOLS[k0])[:1]
    for n2 in (0, 1, 2):
        out.append(([("c0", k0, v0 * n2)],))                 # same name, same dtype
        out.append(([("z", "str", ["a"] * n2), ("q", "int", [1] * n2)],))   # disjoint names
        if len(spec) > 1 and spec[1][1] in ("int", "float"):
            out.append(([("z", "str", ["a"] * n2), ("c1", "float", enc([0.5]) * n2)],))    # promotable numeric pair
    return out


def rbind_expect(d, od):
    names = list(dict.fromkeys(d.colnames + od.colnames))
    out = []
    for n in names:
        parts = []
        for fr in (d, od):
            if n in fr:
                parts.append(fr[n])
            else:
                ref = d[n] if n in d else od[n]
                parts.append(Vector.fast([ref.na_value], ref.na_dtype).repeat(fr.nrow))
        out.append((n, DataFrameColumn(np.concatenate(parts))))
    return out


@driver(P + "rbind")
def rbind_driver(run):
    run.bound = B(run) + "; second frame: one or two columns (overlapping / disjoint names), 0-2 rows"
    g = ((spec, o) for spec in frames(maxrow(run)) for (o,) in rbind_others(spec, run))
    for spec, o in run.inputs(g):
        spec, o = [tuple(x) for x in spec], [tuple(x) for x in o]
        d, od = build(spec), build(o)
        b1, b2 = snapshot(d), snapshot(od)
        try:
            got = d.rbind(od)
            names = list(dict.fromkeys(d.colnames + od.colnames))
            ok = isinstance(got, DataFrame) and got.colnames == names and got.nrow == d.nrow + od.nrow
            for n in names if ok else []:
                col = got[n]
                for fr, off in ((d, 0), (od, d.nrow)):
                    for i in range(fr.nrow):
                        x = col[off + i]
                        if n in fr:
                            ok = ok and (cell_eq(x, fr[n][i]) or (x == fr[n][i]) or (is_missing(x) and is_missing(fr[n][i])))
                        else:
                            ok = ok and is_missing(x)
            ok = ok and snapshot(d) == b1 and snapshot(od) == b2 and no_shared(got, d, od)
            obs = {c: list(got[c]) for c in got.colnames}
        except Exception as e:
            ok, obs = False, f"raised {type(e).__name__}: {e}"
        run.check([spec, o], ok, expected="union of columns, stacked rows, missing where absent", got=obs, clause="rbind")


@driver(P + "colnames[setter, ncol<=3 enumerated]")
def colnames_driver(run):
    import itertools as it_
    run.bound = "frames of 0-3 columns x 0-2 rows; every permutation of the names, fresh names, mixtures"
    def gen():
        for n in range(4):
            old = [f"c{i}" for i in range(n)]
            news = set(it_.permutations(old)) | {tuple(f"x{i}" for i in range(n))}
            if n >= 2:
                news |= {tuple(["c1", "x0"] + old[2:]), tuple(["x0", "c0"] + old[2:])}
            for new in sorted(news):
                for nrow in range(3):
                    yield old, list(new), nrow
    for old, new, nrow in run.inputs(gen()):
        d = DataFrame(**{c: [10 * i + r for r in range(nrow)] for i, c in enumerate(old)})
        vals = [list(d[c]) for c in old]
        d.colnames = new
        ok = d.colnames == new and [list(d[c]) for c in new] == vals
        ok = ok and all(getattr(d, c) is d[c] for c in new) and all((c in new) or not hasattr(d, c) for c in old)
        run.check([old, new, nrow], ok, expected=list(zip(new, vals)), got={c: list(d[c]) for c in d.colnames}, clause="positional rename in place")


# ---- C01: histories of in-place operations ----------------------------------------------------------
def wf_ok(d):
    cols = list(d.values())
    if not all(isinstance(c, DataFrameColumn) and c.ndim == 1 for c in cols):
        return "not all columns are 1-D DataFrameColumns"
    if len({len(c) for c in cols}) > 1:
        return "column lengths differ"
    if list(d.keys()) != list(dict.fromkeys(d.keys())):
        return "duplicate names"
    for k in d:
        if k.isidentifier() and k not in dir(DataFrame()) and getattr(d, k) is not d[k]:
            return f"attribute {k} is not the column"
    for k in ("a", "b", "x1", "zz"):
        if k not in d and hasattr(d, k):
            return f"removed/absent name {k} still reachable by attribute"
    return None


C01_OPS = {
    "set_a_vec": lambda d: d.__setitem__("a", list(range(d.nrow)) if d.nrow else [1, 2]),
    "set_b_scalar": lambda d: d.__setitem__("b", 7),
    "setattr_x1": lambda d: setattr(d, "x1", 0.5),
    "set_items": lambda d: d.__setitem__("items", 1),
    "set_bad_len": lambda d: d.__setitem__("zz", list(range(d.nrow + 2))),
    "del_a": lambda d: d.__delitem__("a"),
    "delattr_b": lambda d: delattr(d, "b"),
    "pop_x1": lambda d: d.pop("x1"),
    "popitem": lambda d: d.popitem(),
    "colnames_rev": lambda d: setattr(d, "colnames", list(reversed(d.colnames))),
    "colnames_fresh": lambda d: setattr(d, "colnames", [f"n{i}" for i in range(d.ncol)]),
}


@driver(P + "__init__[0 columns: ]")
def c01_history_driver(run):
    import itertools as it_
    depth = 4 if run.tier == "thorough" else 3
    run.bound = f"all sequences of <= {depth} in-place operations ({len(C01_OPS)} kinds) from DataFrame() and DataFrame(a=[1,2], b=[3,4])"
    starts = {"empty": lambda: DataFrame(), "ab": lambda: DataFrame(a=[1, 2], b=["x", ""])}
    gen = ((s, list(seq)) for s in starts for n in range(depth + 1) for seq in it_.product(C01_OPS, repeat=n))
    for s, seq in run.inputs(gen):
        d = starts[s]()
        bad = None
        for op in seq:
            try:
                C01_OPS[op](d)
            except (KeyError, AttributeError, ValueError):
                pass            # rejected operation: the frame must still be well-formed
            bad = wf_ok(d)
            if bad:
                break
        run.check([s, seq], bad is None, expected="well-formed and coherent after every step", got=bad, clause="wf/coh invariant")


@driver(P + "__init__[2 columns: column,vector]")
def c01_ctor_driver(run):
    run.bound = "constructor with 2 values of shapes scalar / list of length 0-3 / Vector / DataFrameColumn"
    shapes = {"scalar": lambda n: 5, "list": lambda n: list(range(n)), "vec": lambda n: Vector(list(range(n)), float),
              "col": lambda n: DataFrameColumn(list(range(n)), float)}
    gen = ((s1, n1, s2, n2) for s1 in shapes for n1 in range(4) for s2 in shapes for n2 in range(4))
    for s1, n1, s2, n2 in run.inputs(gen):
        l1 = 1 if s1 == "scalar" else n1
        l2 = 1 if s2 == "scalar" else n2
        nrow = max(l1, l2)
        should = all(l == nrow or (l == 1 and nrow >= 1) for l in (l1, l2))
        try:
            d = DataFrame(a=shapes[s1](n1), b=shapes[s2](n2))
            ok = should and d.nrow == nrow and wf_ok(d) is None and d.colnames == ["a", "b"]
            obs = {c: list(d[c]) for c in d.colnames}
        except ValueError as e:
            ok, obs = not should, f"ValueError {e}"
        run.check([s1, n1, s2, n2], ok, expected="accepted with broadcast" if should else "rejected", got=obs, clause="constructor")


frame_driver(P + "rename[swap of two names]", lambda s, run: [()] if len(s) > 1 else [],
             lambda d: (d.rename(c0="c1", c1="c0"), []), lambda d: [("c1", d.c0), ("c0", d.c1)])


def two_others(spec, run):
    n = nrow_of(spec)
    f = lambda v: enc([v] * n)
    return [([("z", "float", f(0.5)), ("c0", "float", f(1.5))], [("z", "float", f(2.5)), ("w", "float", f(3.5))])]


def _cbind2(d, o1, o2):
    a, b = build([tuple(x) for x in o1]), build([tuple(x) for x in o2])
    return d.cbind(a, b), [a, b]


def _cbind2_expect(d, o1, o2):
    a, b = build([tuple(x) for x in o1]), build([tuple(x) for x in o2])
    out, seen = [], set()
    for fr in (d, a, b):
        for n in fr.colnames:
            if n not in seen:
                seen.add(n)
                out.append((n, fr[n]))
    return out


frame_driver(P + "cbind[two other frames]", two_others, _cbind2, _cbind2_expect, kinds=("int", "float"))


# ---- C05: joins against the relational definition ---------------------------------------------------
def join_inputs(run):
    """pairs of small frames: key column k (kind int/float/str incl. missing + duplicates), payload columns"""
    mr = 3 if run.tier == "thorough" else 2
    pools = {"float": [0.5, NAN, 1.5], "str": ["", "a", "b"], "int": [0, 1]}
    for kind, pool in pools.items():
        for n1 in range(mr + 1):
            for n2 in range(mr + 1):
                for ka in itertools.product(pool, repeat=n1):
                    for kb in itertools.product(pool, repeat=n2):
                        yield kind, enc(list(ka)), enc(list(kb))


def mk_join_frames(kind, ka, kb, renamed=False):
    ka, kb = dec(ka), dec(kb)
    a = DataFrame(k=mkcol(kind, ka), x=Vector([10 * i for i in range(len(ka))], int))
    b = DataFrame(**{("k2" if renamed else "k"): mkcol(kind, kb), "y": Vector([100 + i for i in range(len(kb))], int),
                     "x": Vector([-1] * len(kb), int)})
    return a, b


def add_payload(b):
    """right-hand payload columns of the other dtype kinds (their missing value needs bool -> object, int -> float, ...)"""
    n = b.nrow
    b = b.copy()
    b["pb"] = Vector([i % 2 == 0 for i in range(n)], bool)
    b["ps"] = Vector(["s%d" % i for i in range(n)], str)
    b["pd"] = Vector([np.datetime64("2020-01-01") + i for i in range(n)], "datetime64[D]")
    b["pf"] = Vector([i + 0.5 for i in range(n)], float)
    return b


def first_match(a, b, i, rk="k"):
    x = a.k[i]
    for j in range(b.nrow):
        y = b[rk][j]
        if not is_missing(y) and bool(x == y):
            return j
    return None


def join_driver(name, kindj, renamed=False):
    @driver(name)
    def _d(run):
        run.bound = "pairs of frames with 0-2 (thorough: 0-3) rows, key column over {value, value, missing} for float/str/int, duplicate keys on both sides"
        rk = "k2" if renamed else "k"
        by = ("k", "k2") if renamed else "k"
        for kind, ka, kb in run.inputs(join_inputs(run)):
            a, b = mk_join_frames(kind, ka, kb, renamed)
            sa, sb = snapshot(a), snapshot(b)
            m = [first_match(a, b, i, rk) for i in range(a.nrow)]
            try:
                if kindj == "left":
                    got = a.left_join(b, by)
                    ok = got.colnames == ["k", "x", "y"] and list(got.x) == list(a.x) and col_eq(got.k, a.k) and got.nrow == a.nrow
                    for i in range(a.nrow):
                        ok = ok and ((m[i] is None and is_missing(got.y[i])) or (m[i] is not None and got.y[i] == b.y[m[i]]))
                    # payload columns of every dtype kind: partner's value, or a missing value the column can hold
                    b2 = add_payload(b)
                    got2 = a.left_join(b2, by)
                    for c in ("pb", "ps", "pd", "pf"):
                        na2 = list(got2[c].is_na())
                        for i in range(a.nrow):
                            ok = ok and ((m[i] is None and bool(na2[i]) and is_missing(got2[c][i]))
                                         or (m[i] is not None and not bool(na2[i]) and got2[c][i] == b2[c][m[i]]))
                elif kindj == "inner":
                    got = a.inner_join(b, by)
                    keep = [i for i in range(a.nrow) if m[i] is not None]
                    ok = got.colnames == ["k", "x", "y"] and list(got.x) == [a.x[i] for i in keep] and list(got.y) == [b.y[m[i]] for i in keep]
                elif kindj in ("semi", "anti"):
                    got = a.semi_join(b, by) if kindj == "semi" else a.anti_join(b, by)
                    keep = [i for i in range(a.nrow) if (m[i] is not None) == (kindj == "semi")]
                    ok = frame_rows_are(got, a, keep)
                else:
                    got = a.full_join(b, by)
                    ok = isinstance(got, DataFrame)
                    gx = list(got.x) if "x" in got else []
                    # every left row at least once
                    ok = ok and all(any(cell_eq(got.x[t], a.x[i]) or got.x[t] == a.x[i] for t in range(got.nrow)) for i in range(a.nrow))
                    # every right row at least once
                    ok = ok and all(any((not is_missing(got.y[t])) and got.y[t] == b.y[j] for t in range(got.nrow)) for j in range(b.nrow))
                    # never pairs rows with unequal keys: a row carrying a left x and a right y has equal keys
                    for t in range(got.nrow):
                        if not is_missing(got.y[t]) and got.x[t] in list(a.x):
                            i, j = list(a.x).index(got.x[t]), list(b.y).index(got.y[t])
                            if got.x[t] >= 0 and not is_missing(got.x[t]):
                                ok = ok and (not is_missing(b[rk][j])) and bool(a.k[i] == b[rk][j])
                ok = ok and snapshot(a) == sa and snapshot(b) == sb and no_shared(got, a, b)
                obs = {c: list(got[c]) for c in got.colnames}
            except Exception as e:
                ok, obs = False, f"raised {type(e).__name__}: {e}"
            run.check([kind, ka, kb], ok, expected=f"first matches {m}", got=obs, clause=f"{kindj}_join")
    return _d


join_driver(P + "left_join[one same-named key]", "left")
join_driver(P + "left_join[one key named differently on the two sides]", "left", renamed=True)
join_driver(P + "inner_join[one same-named key]", "inner")
join_driver(P + "inner_join[key named differently]", "inner", renamed=True)
join_driver(P + "semi_join[one same-named key]", "semi")
join_driver(P + "anti_join[one same-named key]", "anti")
join_driver(P + "semi_join[key named differently]", "semi", renamed=True)
join_driver(P + "full_join[bounded only]", "full")


@driver(P + "full_join[mixed key list: a plain name before a (left, right) pair]")
def full_join_mixed_keys(run):
    """by = ("y", ("k", "k2")): every left and right row once, right-only rows keep their key under the LEFT name, no stray right key column"""
    run.bound = "frames of <= 2 (thorough 3) rows, keys y in {0,1} x k in {0,1}, right key named k2"
    mr = 3 if run.tier == "thorough" else 2
    vals = [(0, 0), (0, 1), (1, 0)]
    gen = ((list(a), list(b)) for n1 in range(mr + 1) for n2 in range(mr + 1) for a in itertools.product(range(3), repeat=n1) for b in itertools.product(range(3), repeat=n2))
    for ia, ib in run.inputs(gen):
        a = DataFrame(y=Vector([vals[i][0] for i in ia], int), k=Vector([vals[i][1] for i in ia], int), x=Vector([10 + t for t in range(len(ia))], int))
        b = DataFrame(y=Vector([vals[i][0] for i in ib], int), k2=Vector([vals[i][1] for i in ib], int), z=Vector([100 + t for t in range(len(ib))], int))
        try:
            got = a.full_join(b, "y", ("k", "k2"))
            ok = "k2" not in got.colnames and {"y", "k", "x", "z"} <= set(got.colnames)
            rows = [tuple(got[c][t] for c in ("y", "k", "x", "z")) for t in range(got.nrow)] if ok else []
            for t in range(len(ia)):      # every left row, with its own key
                ok = ok and any(r[2] == 10 + t and (r[0], r[1]) == vals[ia[t]] for r in rows)
            for t in range(len(ib)):      # every right row, with its key under the left names
                ok = ok and any((not is_missing(r[3])) and r[3] == 100 + t and (r[0], r[1]) == vals[ib[t]] for r in rows)
            obs = {c: list(got[c]) for c in got.colnames}
        except Exception as e:
            ok, obs = False, f"raised {type(e).__name__}: {e}"
        run.check([ia, ib], ok, expected="every row of both sides with its key under the left names", got=obs, clause="full_join with mixed keys")


# ---- C03: sort ---------------------------------------------------------------------------------------
SORT_POOLS = {"int": [0, 1, -2 ** 63], "float": [0.5, NAN, -0.5], "str": ["", "a", "b" * 50, "\U0001F600"], "bool": [True, False],
              "date": POOLS["date"] + [np.datetime64("2021-05-05")], "obj": [None, 9, 10], "fix": ["", "a", "b"],
              "td": [np.timedelta64(1, "D"), np.timedelta64("NaT", "D"), np.timedelta64(-2, "D")], "u8": [0, 1, 255]}


def sort_frames(maxrow):
    for k1 in SORT_POOLS:
        for k2 in ("int", "float", "str"):
            for n in range(maxrow + 1):
                for c1 in itertools.product(SORT_POOLS[k1], repeat=n):
                    for c2 in itertools.product(SORT_POOLS[k2][:2], repeat=n):
                        yield [("a", k1, enc(list(c1))), ("b", k2, enc(list(c2)))]
    # larger tie-heavy frames: an unstable sorting algorithm only shows beyond ~16 rows
    import random
    for k1 in ("int", "float", "str", "bool"):
        for seed_ in range(2):
            rnd = random.Random(500 + seed_)
            pool = SORT_POOLS[k1][:2]
            yield [("a", k1, enc([pool[rnd.randrange(2)] for _ in range(40)])), ("b", "int", enc([rnd.randrange(2) for _ in range(40)]))]


def build_sort(spec):
    cols = {}
    for name, kind, values in spec:
        if kind == "fix":
            cols[name] = DataFrameColumn(np.array(dec(values), dtype="<U1")) if values else DataFrameColumn(np.array([], dtype="<U1"))
        else:
            cols[name] = mkcol(kind, dec(values))
    cols["i"] = Vector(list(range(len(spec[0][2]))), int)
    return DataFrame(**cols)


def sort_ok(d, got, keydirs):
    """got is a stable key-ordered permutation of the rows of d (missing grouped at one end, last when ascending)"""
    if not isinstance(got, DataFrame) or got.colnames != d.colnames or got.nrow != d.nrow:
        return False
    perm = list(got.i)
    if sorted(perm) != list(range(d.nrow)):
        return False
    for c in d.colnames:
        if not all(cell_eq(got[c][t], d[c][perm[t]]) or got[c][t] == d[c][perm[t]] for t in range(d.nrow)):
            return False
        if np.shares_memory(got[c], d[c]):
            return False
    def cmp_key(k, dr, x, y):          # -1 before, 0 tie, 1 after; None = missing-vs-value (side decided per key)
        mx, my = is_missing(x), is_missing(y)
        if mx and my:
            return 0
        if mx or my:
            return None
        if x == y:
            return 0
        return -1 if ((x < y) == (dr > 0)) else 1
    for k, dr in keydirs:                     # missing side must be consistent per key and "last" when ascending
        pass
    sides = {}
    for t in range(d.nrow - 1):
        x_, y_ = perm[t], perm[t + 1]
        decided = False
        for k, dr in keydirs:
            c = cmp_key(k, dr, d[k][x_], d[k][y_])
            if c is None:
                side = "last" if is_missing(d[k][y_]) else "first"
                if dr > 0 and side != "last":
                    return False
                if sides.setdefault(k, side) != side:
                    return False
                decided = True
                break
            if c < 0:
                decided = True
                break
            if c > 0:
                return False
        if not decided and not x_ < y_:
            return False                      # full tie: original order kept
    return True


def sort_driver(name, keydirs):
    @driver(P + name)
    def _d(run):
        mr = 3 if run.tier == "thorough" else 2
        run.bound = f"frames with key column a over 7 dtypes (int, float+NaN, str incl. 50-char and astral, bool, date+NaT, object+None, fixed-width <U1) and key b, <= {mr} rows"
        for (spec,) in run.inputs(((s,) for s in sort_frames(mr))):
            spec = [tuple(x) for x in spec]
            d = build_sort(spec)
            before_ = snapshot(d)
            try:
                got = d.sort(**dict(keydirs))
                ok = sort_ok(d, got, keydirs) and snapshot(d) == before_
                obs = {c: list(got[c]) for c in got.colnames}
            except Exception as e:
                ok, obs = False, f"raised {type(e).__name__}: {e}"
            run.check([spec], ok, expected="stable key-ordered permutation, receiver unchanged", got=obs, clause="sort")
    return _d


sort_driver("sort[one key ascending]", [("a", 1)])
sort_driver("sort[one key descending]", [("a", -1)])
sort_driver("sort[two keys asc,asc]", [("a", 1), ("b", 1)])
sort_driver("sort[two keys asc,desc]", [("a", 1), ("b", -1)])
sort_driver("sort[two keys desc,asc]", [("a", -1), ("b", 1)])
sort_driver("sort[two keys desc,desc]", [("a", -1), ("b", -1)])


# ---- update with plain mappings / unselect with overlapping names (C09, C01) -------------------------------------------------
@driver(P + "update[mappings with scalars, lists and columns of any length]")
def update_mappings(run):
    run.bound = "receivers of 0-3 rows x 2 columns; mappings replacing one or all columns by a scalar, a length-1 list, a list of the right or of a wrong length"
    for n, which, shape in run.inputs((n, w, sh) for n in range(4) for w in ("one", "all", "new") for sh in ("scalar", "len1", "right", "wrong", "empty")):
        d = DataFrame(a=Vector(list(range(n)), int), b=Vector([float(i) for i in range(n)], float))
        val = {"scalar": 7, "len1": [7], "right": [7] * n, "wrong": [7] * (n + 2), "empty": []}[shape]
        names = {"one": ["a"], "all": ["a", "b"], "new": ["c"]}[which]
        ok_shape = shape in ("scalar", "len1", "right") or (shape == "empty" and n == 0) or (shape == "len1" and True)
        if shape == "wrong" and n + 2 == 1:
            ok_shape = True
        before = snapshot(d)
        try:
            got = d.update({k: val for k in names})
            ok = ok_shape and got.nrow == n and all(len(got[c]) == n for c in got.colnames) and set(got.colnames) == {"a", "b"} | set(names)
            ok = ok and all(list(got[k]) == [7] * n for k in names) and all(list(got[c]) == list(d[c]) for c in ("a", "b") if c not in names)
            obs = {c: list(got[c]) for c in got.colnames}
        except ValueError as e:
            # a receiver without rows: dataiter refuses to broadcast to zero rows (ValueError) - accepted, nothing is stored
            ok, obs = (not ok_shape) or (n == 0 and shape in ("scalar", "len1")), f"raised ValueError: {e}"
        except Exception as e:
            ok, obs = False, f"raised {type(e).__name__}: {e}"
        run.check([n, which, shape], ok and snapshot(d) == before, expected="broadcast to the receiver's row count, or ValueError for any other length",
                  got=obs, clause="update: values are reconciled with the RECEIVER's row count")


@driver(P + "unselect[names containing one another]")
def unselect_overlapping(run):
    run.bound = "frame with columns a, b, ab, abc, x; unselect of every single name and of every pair"
    names = ["a", "b", "ab", "abc", "x"]
    gen = [[n] for n in names] + [[m, n] for m in names for n in names if m < n]
    for (drop,) in run.inputs((g,) for g in gen):
        d = DataFrame(**{n: Vector([i], int) for i, n in enumerate(names)})
        try:
            got = d.unselect(*drop)
            ok = got.colnames == [n for n in names if n not in drop]
            obs = got.colnames
        except Exception as e:
            ok, obs = False, f"raised {type(e).__name__}: {e}"
        run.check([drop], ok, expected=[n for n in names if n not in drop], got=obs, clause="unselect drops exactly the named columns")


@driver(P + "left_join[two keys]")
def join_two_keys(run):
    """left / inner / semi / anti join on ("k", ("h", "h2")): relational definition on pairs; a missing component never matches"""
    run.bound = "pairs of frames of <= 2 (thorough 3) rows; k in {0, 1} (int) x h in {'', 'a'} (str; '' is missing); right key columns k, h2"
    mr = 3 if run.tier == "thorough" else 2
    vals = [(0, "a"), (1, "a"), (0, "")]
    gen = ((list(a), list(b)) for n1 in range(mr + 1) for n2 in range(mr + 1) for a in itertools.product(range(3), repeat=n1) for b in itertools.product(range(3), repeat=n2))
    for ia, ib in run.inputs(gen):
        a = DataFrame(k=Vector([vals[i][0] for i in ia], int), h=Vector([vals[i][1] for i in ia], str), x=Vector([10 + t for t in range(len(ia))], int))
        b = DataFrame(k=Vector([vals[i][0] for i in ib], int), h2=Vector([vals[i][1] for i in ib], str), y=Vector([100 + t for t in range(len(ib))], int))
        sa, sb = snapshot(a), snapshot(b)

        def first(i):
            if vals[ia[i]][1] == "":
                return None
            for j in range(len(ib)):
                if vals[ib[j]] == vals[ia[i]]:
                    return j
            return None
        m = [first(i) for i in range(len(ia))]
        try:
            left = a.left_join(b, "k", ("h", "h2"))
            ok = left.nrow == a.nrow and list(left.x) == list(a.x) and "h2" not in left.colnames
            for i in range(a.nrow):
                ok = ok and ((m[i] is None and is_missing(left.y[i])) or (m[i] is not None and left.y[i] == b.y[m[i]]))
            inner = a.inner_join(b, "k", ("h", "h2"))
            keep = [i for i in range(a.nrow) if m[i] is not None]
            ok = ok and list(inner.x) == [a.x[i] for i in keep] and list(inner.y) == [b.y[m[i]] for i in keep]
            ok = ok and inner.colnames == left.colnames        # the matched subset of the left_join result: same columns
            ok = ok and frame_rows_are(a.semi_join(b, "k", ("h", "h2")), a, keep)
            ok = ok and frame_rows_are(a.anti_join(b, "k", ("h", "h2")), a, [i for i in range(a.nrow) if m[i] is None])
            ok = ok and snapshot(a) == sa and snapshot(b) == sb
            obs = {c: list(left[c]) for c in left.colnames}
        except Exception as e:
            ok, obs = False, f"raised {type(e).__name__}: {e}"
        run.check([ia, ib], ok, expected=f"first matches {m}", got=obs, clause="joins on two keys follow the relational definition")
