# -*- coding: utf-8 -*-
"""Bounded run-time contracts for ListOfDicts (C15-C17): real code, exhaustive small scope."""
import copy
import itertools

from dataiter import ListOfDicts
from .driver import driver

VALUES = [None, 0, 1]
KEYS = ["a", "b"]


def dicts():
    opts = [[("__missing__",)] + [(v,) for v in VALUES] for _ in KEYS]
    for combo in itertools.product(*opts):
        yield {k: c[0] for k, c in zip(KEYS, combo) if c[0] != "__missing__"}


def lists(maxlen):
    ds = list(dicts())
    for n in range(maxlen + 1):
        for combo in itertools.product(ds, repeat=n):
            yield [dict(d) for d in combo]


def maxlen(run):
    return 3 if run.tier == "thorough" else 2


PREDICATES = {
    "a_truthy": lambda x: x.get("a"),
    "a_is_none": lambda x: x.get("a") is None,
    "has_b": lambda x: "b" in x,
    "always": lambda x: True,
    "never": lambda x: 0,
}


def plain(lod):
    return [dict(x) for x in lod]


def same_objects(result, expected_objs):
    return len(result) == len(expected_objs) and all(a is b for a, b in zip(result, expected_objs))


@driver("dataiter/list_of_dicts.py::ListOfDicts.filter[callable]")
def filter_callable(run):
    run.bound = f"lists of <= {maxlen(run)} dicts over keys a,b in {{missing,None,0,1}}; 5 predicates"
    gen = ((l, p) for l in lists(maxlen(run)) for p in PREDICATES)
    for l, p in run.inputs(gen):
        data = ListOfDicts(copy.deepcopy(l))
        before = plain(data)
        got = data.filter(PREDICATES[p])
        exp = [x for x in data if PREDICATES[p](x)]
        run.check([l, p], isinstance(got, ListOfDicts) and same_objects(got, exp) and plain(data) == before,
                  expected=exp, got=got, clause="seq=select_by(self,function)")


def mk(l):
    return ListOfDicts(copy.deepcopy(l))


def simple(name, gen, call, expect, bound, clause="seq"):
    """Driver: result must be a ListOfDicts whose plain contents equal expect(...) and the
    receiver's contents must be unchanged (unless the method is an editing one)."""
    @driver(name)
    def _d(run):
        run.bound = bound(run)
        for inp in run.inputs(gen(run)):
            l = inp[0]
            data = mk(l)
            before = plain(data)
            try:
                got = call(data, *inp[1:])
                gotp = plain(got) if isinstance(got, ListOfDicts) else ("not a ListOfDicts", got)
            except Exception as e:      # totality
                gotp = f"raised {type(e).__name__}: {e}"
            exp = expect(copy.deepcopy(l), *inp[1:])
            run.check(list(inp), gotp == exp and plain(data) == before, expected=exp, got=gotp, clause=clause)
    return _d


def B(run):
    return f"all lists of <= {maxlen(run)} dicts over keys a,b with values in {{missing,None,0,1}}"


KV1 = [("a", v) for v in VALUES] + [("b", 1)]


def full_lists(maxlen_):
    """lists whose dicts all have both keys (precondition of key-based methods)"""
    ds = [{"a": x, "b": y} for x in VALUES for y in VALUES]
    for n in range(maxlen_ + 1):
        for combo in itertools.product(ds, repeat=n):
            yield [dict(d) for d in combo]


simple("dataiter/list_of_dicts.py::ListOfDicts.filter[key=value x1]",
       lambda run: ((l, k, v) for l in full_lists(maxlen(run)) for k, v in KV1),
       lambda d, k, v: d.filter(**{k: v}), lambda l, k, v: [x for x in l if x[k] == v], B)
simple("dataiter/list_of_dicts.py::ListOfDicts.filter[key=value x2]",
       lambda run: ((l, va, vb) for l in full_lists(maxlen(run)) for va in VALUES for vb in VALUES),
       lambda d, va, vb: d.filter(a=va, b=vb), lambda l, va, vb: [x for x in l if x["a"] == va and x["b"] == vb], B)
simple("dataiter/list_of_dicts.py::ListOfDicts.filter_out[key=value x1]",
       lambda run: ((l, k, v) for l in full_lists(maxlen(run)) for k, v in KV1),
       lambda d, k, v: d.filter_out(**{k: v}), lambda l, k, v: [x for x in l if not x[k] == v], B)
simple("dataiter/list_of_dicts.py::ListOfDicts.filter_out[key=value x2]",
       lambda run: ((l, va, vb) for l in full_lists(maxlen(run)) for va in VALUES for vb in VALUES),
       lambda d, va, vb: d.filter_out(a=va, b=vb),
       lambda l, va, vb: [x for x in l if not (x["a"] == va and x["b"] == vb)], B)
simple("dataiter/list_of_dicts.py::ListOfDicts.filter_out[callable]",
       lambda run: ((l, p) for l in lists(maxlen(run)) for p in PREDICATES),
       lambda d, p: d.filter_out(PREDICATES[p]), lambda l, p: [x for x in l if not PREDICATES[p](x)], B)

NS = [0, 1, 2, 3, 5]
simple("dataiter/list_of_dicts.py::ListOfDicts.head", lambda run: ((l, n) for l in lists(maxlen(run)) for n in NS),
       lambda d, n: d.head(n), lambda l, n: l[:min(n, len(l))], B)
simple("dataiter/list_of_dicts.py::ListOfDicts.tail", lambda run: ((l, n) for l in lists(maxlen(run)) for n in NS),
       lambda d, n: d.tail(n), lambda l, n: l[len(l) - min(n, len(l)):], B)
simple("dataiter/list_of_dicts.py::ListOfDicts.head[n=None]", lambda run: ((l,) for l in lists(maxlen(run))),
       lambda d: d.head(), lambda l: l[:3], B)
simple("dataiter/list_of_dicts.py::ListOfDicts.append",
       lambda run: ((l, x) for l in lists(maxlen(run)) for x in dicts()),
       lambda d, x: d.append(x), lambda l, x: l + [x], B)
simple("dataiter/list_of_dicts.py::ListOfDicts.__add__",
       lambda run: ((l, m) for l in lists(maxlen(run) - 1) for m in lists(maxlen(run) - 1)),
       lambda d, m: d + mk(m), lambda l, m: l + m, B)
simple("dataiter/list_of_dicts.py::ListOfDicts.extend[ListOfDicts argument]",
       lambda run: ((l, m) for l in lists(maxlen(run) - 1) for m in lists(maxlen(run) - 1)),
       lambda d, m: d.extend(mk(m)), lambda l, m: l + m, B)
simple("dataiter/list_of_dicts.py::ListOfDicts.reverse", lambda run: ((l,) for l in lists(maxlen(run))),
       lambda d: d.reverse(), lambda l: l[::-1], B)
IDX = [None, -4, -2, -1, 0, 1, 2, 4]
simple("dataiter/list_of_dicts.py::ListOfDicts.__getitem__[slice lo:hi]",
       lambda run: ((l, a, b) for l in lists(maxlen(run)) for a in IDX for b in IDX),
       lambda d, a, b: d[a:b], lambda l, a, b: l[a:b], B)
simple("dataiter/list_of_dicts.py::ListOfDicts.insert",
       lambda run: ((l, i, x) for l in lists(maxlen(run)) for i in IDX[1:] for x in [{"a": 1}, {}]),
       lambda d, i, x: d.insert(i, x), lambda l, i, x: (l.insert(i, x), l)[1], B)


def none_last_sorted(l, keydirs):
    data = list(l)
    for k, d in reversed(keydirs):
        nn = [x for x in data if x[k] is not None]
        nones = [x for x in data if x[k] is None]
        nn = sorted(nn, key=lambda x: x[k], reverse=d < 0) if d > 0 else \
            [x for _, x in sorted(enumerate(nn), key=lambda ix: (-_rank(ix[1][k]), ix[0]))]
        data = nn + nones
    return data


def _rank(v):
    return v


def sort_oracle(l, keydirs):
    """Stable lexicographic order, None last in both directions (definition, not the algorithm):
    position p precedes q iff key-wise before, ties by original index."""
    idx = list(range(len(l)))

    def before(x, y, k, d):
        vx, vy = x[k], y[k]
        if vx is None or vy is None:
            return vx is not None and vy is None
        return vx < vy if d > 0 else vy < vx

    def lex(i, j):
        for k, d in keydirs:
            if before(l[i], l[j], k, d):
                return True
            if before(l[j], l[i], k, d):
                return False
        return i < j
    import functools
    idx.sort(key=functools.cmp_to_key(lambda i, j: -1 if lex(i, j) else (1 if lex(j, i) else 0)))
    return [l[i] for i in idx]


for _name, _kd in [("one key ascending", [("a", 1)]), ("one key descending", [("a", -1)]),
                   ("two keys asc,asc", [("a", 1), ("b", 1)]), ("two keys asc,desc", [("a", 1), ("b", -1)]),
                   ("two keys desc,asc", [("a", -1), ("b", 1)]), ("two keys desc,desc", [("a", -1), ("b", -1)])]:
    simple(f"dataiter/list_of_dicts.py::ListOfDicts.sort[{_name}]",
           lambda run: ((l,) for l in full_lists(3 if run.tier == "thorough" else 3)),
           (lambda kd: lambda d: d.sort(**dict(kd)))(_kd), (lambda kd: lambda l: sort_oracle(l, kd))(_kd), B)

def _hash_colliding_lists():
    """keys whose hashes collide in CPython although the values differ: -1 / -2, 0 / 2**61 - 1, 1.0 == 1 == True (equal, same hash)"""
    pool = [-1, -2, 0, 2 ** 61 - 1, True, 1.0]
    for n in range(1, 4):
        for combo in itertools.product(pool, repeat=n):
            yield [{"a": v, "b": i} for i, v in enumerate(combo)]


simple("dataiter/list_of_dicts.py::ListOfDicts.unique[one key]",
       lambda run: itertools.chain(((l,) for l in full_lists(3)), ((l,) for l in _hash_colliding_lists())),
       lambda d: d.unique("a"),
       lambda l: [x for i, x in enumerate(l) if not any(y["a"] == x["a"] for y in l[:i])], B)


def inplace(name, gen, call, expect, bound):
    """Driver for editing methods: result items must BE the receiver's item objects (same identity,
    same order) and their contents must equal the plain-dict reference semantics."""
    @driver(name)
    def _d(run):
        run.bound = bound(run)
        for inp in run.inputs(gen(run)):
            l = inp[0]
            data = mk(l)
            objs = list(data)
            try:
                got = call(data, *inp[1:])
                ok_ident = isinstance(got, ListOfDicts) and same_objects(got, objs)
                gotp = plain(got)
            except Exception as e:
                ok_ident, gotp = False, f"raised {type(e).__name__}: {e}"
            exp = expect(copy.deepcopy(l), *inp[1:])
            run.check(list(inp), ok_ident and gotp == exp, expected=exp, got=gotp, clause="in-place edit")
    return _d


FUNCS = {"a_plus": lambda x: (x.get("a") or 0) + 1, "const7": lambda x: 7, "b_val": lambda x: x.get("b")}


def _modify(l, *fs):
    for x in l:
        for k, f in fs:
            x[k] = FUNCS[f](x)
    return l


inplace("dataiter/list_of_dicts.py::ListOfDicts.modify[one key]",
        lambda run: ((l, k, f) for l in lists(maxlen(run)) for k in ["a", "c"] for f in FUNCS),
        lambda d, k, f: d.modify(**{k: FUNCS[f]}), lambda l, k, f: _modify(l, (k, f)), B)
inplace("dataiter/list_of_dicts.py::ListOfDicts.modify[two keys]",
        lambda run: ((l, f, g) for l in lists(maxlen(run)) for f in FUNCS for g in FUNCS),
        lambda d, f, g: d.modify(a=FUNCS[f], c=FUNCS[g]), lambda l, f, g: _modify(l, ("a", f), ("c", g)), B)


def _modify_if(l, p, k, f):
    for x in l:
        if PREDICATES[p](x):
            x[k] = FUNCS[f](x)
    return l


inplace("dataiter/list_of_dicts.py::ListOfDicts.modify_if[one key]",
        lambda run: ((l, p, k, f) for l in lists(maxlen(run)) for p in PREDICATES for k in ["a", "c"] for f in ["a_plus", "const7"]),
        lambda d, p, k, f: d.modify_if(PREDICATES[p], **{k: FUNCS[f]}), _modify_if, B)
def _modify_if2(l, p, f, g):
    for x in l:
        if PREDICATES[p](x):          # evaluated once, on the untouched item
            x["a"] = FUNCS[f](x)
            x["c"] = FUNCS[g](x)
    return l


inplace("dataiter/list_of_dicts.py::ListOfDicts.modify[two keys: values]",
        lambda run: ((l, f, g) for l in lists(maxlen(run)) for f in FUNCS for g in FUNCS),
        lambda d, f, g: d.modify(a=FUNCS[f], c=FUNCS[g]), lambda l, f, g: _modify(l, ("a", f), ("c", g)), B)
inplace("dataiter/list_of_dicts.py::ListOfDicts.modify_if[two keys: values]",
        lambda run: ((l, p, f, g) for l in lists(maxlen(run)) for p in PREDICATES for f in FUNCS for g in FUNCS),
        lambda d, p, f, g: d.modify_if(PREDICATES[p], a=FUNCS[f], c=FUNCS[g]), _modify_if2, B)
inplace("dataiter/list_of_dicts.py::ListOfDicts.unselect[one key]",
        lambda run: ((l, k) for l in lists(maxlen(run)) for k in ["a", "b", "c"]),
        lambda d, k: d.unselect(k), lambda l, k: [{kk: v for kk, v in x.items() if kk != k} for x in l], B)
inplace("dataiter/list_of_dicts.py::ListOfDicts.fill_missing_keys[one key=value]",
        lambda run: ((l, k, v) for l in lists(maxlen(run)) for k in ["a", "c"] for v in [None, 5]),
        lambda d, k, v: d.fill_missing_keys(**{k: v}), lambda l, k, v: [{**x, **({} if k in x else {k: v})} for x in l], B)


def select_driver(name, keys):
    @driver(name)
    def _d(run):
        run.bound = B(run)
        for (l,) in run.inputs(((l,) for l in lists(maxlen(run)))):
            data = mk(l)
            before = plain(data)
            objs = list(data)
            got = data.select(*keys)
            exp = [{k: x[k] for k in keys if k in x} for x in l]
            fresh = all(not any(g is o for o in objs) for g in got)
            run.check([l], isinstance(got, ListOfDicts) and plain(got) == exp and plain(data) == before and fresh
                      and all(hasattr(g, "items") and type(g).__name__ == "AttributeDict" for g in got),
                      expected=exp, got=plain(got), clause="select")
    return _d


select_driver("dataiter/list_of_dicts.py::ListOfDicts.select[one key]", ["a"])
select_driver("dataiter/list_of_dicts.py::ListOfDicts.select[two keys]", ["b", "a"])


# ---- C17: histories ---------------------------------------------------------------------------
import contextlib
import io

SHARE_OPS = {
    "filter": lambda x: x.filter(lambda i: True), "sort": lambda x: x.sort(a=1), "head": lambda x: x.head(2),
    "copy": lambda x: x.copy(), "reverse": lambda x: x.reverse(), "slice": lambda x: x[:], "tail": lambda x: x.tail(1),
    "unique": lambda x: x.unique("a"), "filter_out": lambda x: x.filter_out(a=99),
    "filter_none": lambda x: x.filter(lambda i: False), "append": lambda x: x.append({"a": 5, "b": 5}),
}
EDIT_OPS = {
    "modify": lambda x: x.modify(c=lambda i: 7), "unselect": lambda x: x.unselect("b"),
    "fill": lambda x: x.fill_missing_keys(z=0), "modify_if": lambda x: x.modify_if(lambda i: True, c=lambda i: 8),
    "select": lambda x: x.select("a", "b"),
}


def histories(maxlen_, ops):
    """sequences of (list index, op name): the op is applied to an earlier list and appends a new one"""
    def rec(prefix, nlists):
        yield prefix
        if len(prefix) == maxlen_:
            return
        for i in range(nlists):
            for op in ops:
                yield from rec(prefix + [(i, op)], nlists + 1)
    return rec([], 1)


def run_history(h, aggregate_links=False):
    """aggregate_links: model of the code as it is (known finding): the result of aggregate is linked to the aggregated list like a
    list that hands on its items, although it shares none"""
    root = ListOfDicts([{"a": 1, "b": 2}, {"a": 0, "b": 3}])
    lists, parent, model_obs = [root], [None], [False]
    warned = [False]
    out = io.StringIO()
    with contextlib.redirect_stdout(out):
        for i, op in h:
            recv = lists[i]
            if model_obs[i]:
                warned[i] = True        # this use of an obsolete list prints its one warning
            if op == "deepcopy":
                new = recv.deepcopy()
                parent.append(None)
            elif op == "aggregate":
                # grouping and summarising neither edits the receiver's items nor hands them on: the result is a new, independent list
                new = recv.group_by("a").aggregate(n=len, bs=lambda x: x.pluck("b"))
                parent.append(i if aggregate_links else None)
            elif op in SHARE_OPS:
                new = SHARE_OPS[op](recv)
                parent.append(i)
            else:
                new = EDIT_OPS[op](recv)
                parent.append(i)
                j = i
                while j is not None:
                    model_obs[j] = True
                    j = parent[j]
            lists.append(new)
            model_obs.append(False)
            warned.append(False)
    run_history.warned = warned
    run_history.printed = out.getvalue().count("Warning")
    return lists, parent, model_obs


@driver("dataiter/list_of_dicts.py::ListOfDicts._mark_obsolete")
def history_driver(run):
    depth = 4 if run.tier == "thorough" else 3
    ops = ["filter", "sort", "copy", "deepcopy", "modify", "unselect", "select", "filter_none", "append", "aggregate", "head"]
    if run.tier == "thorough":
        ops += ["reverse", "fill", "modify_if", "slice"]
    run.bound = f"all derivation histories of <= {depth} calls over {len(ops)} methods from one 2-item list"
    for (h,) in run.inputs(((h,) for h in histories(depth, ops))):
        h = [tuple(x) for x in h]
        lists, parent, model = run_history(h)
        got = [bool(object.__getattribute__(x, "_obsolete")) for x in lists]
        if got != model and any(op == "aggregate" for _, op in h):
            # does the history behave like the KNOWN finding (an edit of an aggregate result also marks the aggregated list and its
            # ancestors)?  then it is reported under its own clause - any other discrepancy stays under the general clause
            lists, parent, linked = run_history(h, aggregate_links=True)
            got2 = [bool(object.__getattribute__(x, "_obsolete")) for x in lists]
            if got2 == linked:
                run.check([h], False, expected=model, got=got2, clause="an edit of an aggregate result marks the aggregated list (which shares no item with it) and its ancestors obsolete")
                continue
            lists, parent, model = run_history(h)
            got = [bool(object.__getattribute__(x, "_obsolete")) for x in lists]
        run.check([h], got == model, expected=model, got=got, clause="obsolete exactly for receiver+ancestors of an edit")
        run.check([h], run_history.printed == sum(run_history.warned), expected=sum(run_history.warned),
                  got=run_history.printed, clause="one warning per obsolete list used during the history")
        # warn-once on next use
        for x, m in zip(lists, [m and not w for m, w in zip(model, run_history.warned)]):
            out = io.StringIO()
            with contextlib.redirect_stdout(out):
                x.head
                x.head
            n = out.getvalue().count("Warning")
            if n != (1 if m else 0):
                run.check([h], False, expected=(1 if m else 0), got=n, clause="warning printed exactly once iff obsolete")
                break


@driver("dataiter/list_of_dicts.py::ListOfDicts.deepcopy")
def deepcopy_driver(run):
    run.bound = "all lists of <= 2 dicts; every editing method applied to the deep copy"
    for (l, op) in run.inputs(((l, op) for l in lists(2) for op in EDIT_OPS)):
        data = mk(l)
        before = plain(data)
        cp = data.deepcopy()
        ok = plain(cp) == before and all(not any(a is b for b in data) for a in cp) and \
            object.__getattribute__(cp, "_predecessor") is None
        EDIT_OPS[op](cp)
        ok = ok and plain(data) == before and not object.__getattribute__(data, "_obsolete")
        run.check([l, op], ok, expected=before, got=plain(data), clause="edits through a deep copy are invisible in the original")
        # values nested inside an item (JSON-like data) are copied too: an edit of a nested dict / list of the copy stays in the copy
        nested = mk([dict(x, n={"u": [1, 2]}, m=[{"v": 0}], t=({"w": 0}, [1], bytearray(b"ab"))) for x in l])
        nb = copy.deepcopy(plain(nested))
        c2 = nested.deepcopy()
        for item in c2:
            item["n"]["u"].append(3)
            item["n"]["w"] = 1
            item["m"][0]["v"] = 9
            item["t"][0]["w"] = 5              # mutable values inside a tuple
            item["t"][1].append(2)
            item["t"][2].extend(b"c")
        run.check([l, op], plain(nested) == nb, expected=nb, got=plain(nested), clause="nested values of a deep copy are not shared with the original")


@driver("dataiter/list_of_dicts.py::ListOfDicts.__getattribute__[a public method]")
def getattribute_driver(run):
    run.bound = "obsolete x warned in {False,True}; attributes filter/_group_keys/_mark_obsolete/sort"
    gen = ((o, w, a) for o in (False, True) for w in (False, True) for a in ("filter", "_group_keys", "_mark_obsolete", "sort"))
    for o, w, a in run.inputs(gen):
        x = ListOfDicts([{"a": 1}])
        x._obsolete, x._obsolete_warned = o, w
        out = io.StringIO()
        with contextlib.redirect_stdout(out):
            v1 = getattr(x, a)
            v2 = getattr(x, a)
        exp = 1 if (o and not w and a in ("filter", "sort")) else 0
        run.check([o, w, a], out.getvalue().count("Warning") == exp and (callable(v1) == (a != "_group_keys")),
                  expected=exp, got=out.getvalue(), clause="warn once")


_OP_USES = {
    "slice": lambda x: x[0:1], "full slice": lambda x: x[:], "reversed slice": lambda x: x[::-1], "+": lambda x: x + ListOfDicts([{"a": 2}]),
    "*": lambda x: x * 2, "copy.copy": lambda x: copy.copy(x), "head": lambda x: x.head(1), "pluck": lambda x: x.pluck("a"),
    "len then filter": lambda x: (len(x), x.filter(lambda i: True)),
}


def operator_use_driver(name, uses):
    @driver(name)
    def _d(run):
        run.bound = f"obsolete x warned in {{False,True}} x uses {sorted(uses)}: the next use of an obsolete list prints the warning exactly once"
        for o, w, u in run.inputs((o, w, u) for o in (False, True) for w in (False, True) for u in uses):
            x = ListOfDicts([{"a": 1}, {"a": 3}])
            x._obsolete, x._obsolete_warned = o, w
            out = io.StringIO()
            with contextlib.redirect_stdout(out):
                _OP_USES[u](x)
                _OP_USES[u](x)
            exp = 1 if (o and not w) else 0
            run.check([o, w, u], out.getvalue().count("Warning") == exp, expected=exp, got=out.getvalue(), clause=f"use through {u}: warn exactly once")
    return _d


operator_use_driver("dataiter/list_of_dicts.py::ListOfDicts.__getattribute__[the private helper _new (used by slicing, + and *)]", list(_OP_USES))
operator_use_driver("dataiter/list_of_dicts.py::ListOfDicts.__getitem__[obsolete receiver: slicing is a use]", ["slice", "full slice", "reversed slice"])
operator_use_driver("dataiter/list_of_dicts.py::ListOfDicts.__add__[obsolete receiver: + is a use]", ["+", "*", "copy.copy"])


# ---- plain dicts handed to the constructor / extend / append / insert: every item of the result supports attribute access ----
@driver("dataiter/list_of_dicts.py::ListOfDicts.extend[plain list / tuple / generator of plain dicts]")
def plain_dict_arguments(run):
    run.bound = "lists of <= 2 dicts; extend with a plain list / tuple / generator / ListOfDicts of <= 2 dicts, append / insert of a plain dict, the constructor from plain dicts"
    from attd import AttributeDict
    small = [l for l in lists(2)]
    gen = ((a, b, how) for a in small for b in small for how in ("list", "tuple", "generator", "ListOfDicts"))
    for a, b, how in run.inputs(gen):
        try:
            arg = {"list": lambda: copy.deepcopy(b), "tuple": lambda: tuple(copy.deepcopy(b)), "generator": lambda: (dict(x) for x in b),
                   "ListOfDicts": lambda: mk(b)}[how]()
            got = mk(a).extend(arg)
            ok = isinstance(got, ListOfDicts) and plain(got) == a + b and all(isinstance(x, AttributeDict) for x in got)
            for x in got:                          # attribute access on every item, as in chained lambdas
                for k in x:
                    ok = ok and getattr(x, k) == x[k]
            if b:
                g2 = mk(a).append(dict(b[0]))
                g3 = mk(a).insert(0, dict(b[0]))
                ok = ok and all(isinstance(x, AttributeDict) for x in g2) and all(isinstance(x, AttributeDict) for x in g3)
                ok = ok and plain(g2) == a + [b[0]] and plain(g3) == [b[0]] + a
            ok = ok and all(isinstance(x, AttributeDict) for x in ListOfDicts(copy.deepcopy(a)))
            obs = [type(x).__name__ for x in got]
        except Exception as e:
            ok, obs = False, f"raised {type(e).__name__}: {e}"
        run.check([a, b, how], ok, expected="items of self then other, every item an AttributeDict", got=obs, clause="plain dicts become attribute-access items")


# ---- methods without a deductive contract (C15): rename, *, unique() without keys, three keys ------------------------------
_RENAMES = [{"c": "a"}, {"a": "b", "b": "a"}, {"c": "a", "a": "b"}, {"z": "q"}, {"b": "a", "c": "b"}]


def _rename(l, r):
    """all renames applied at once to a NEW dict per item (r maps new name -> old name); keys keep their position"""
    inv = {old: new for new, old in r.items()}
    return [{inv.get(k, k): v for k, v in x.items()} for x in l]


simple(LP_ := "dataiter/list_of_dicts.py::ListOfDicts.rename[new=old pairs, also swaps and shifts]",
       lambda run: ((l, i) for l in lists(maxlen(run)) for i in range(len(_RENAMES))),
       lambda d, i: d.rename(**_RENAMES[i]), lambda l, i: _rename(l, _RENAMES[i]), B)
simple("dataiter/list_of_dicts.py::ListOfDicts.__mul__",
       lambda run: ((l, n) for l in lists(maxlen(run)) for n in (0, 1, 2, 3, -1, -2, -3)),
       lambda d, n: d * n if n >= 0 else (-n) * d, lambda l, n: l * abs(n), B)          # negative n encodes the reflected form  n * d
simple("dataiter/list_of_dicts.py::ListOfDicts.unique[no keys: whole items]",
       lambda run: ((l,) for l in full_lists(maxlen(run))),
       lambda d: d.unique(), lambda l: [x for i, x in enumerate(l) if x not in l[:i]], B)
simple("dataiter/list_of_dicts.py::ListOfDicts.fill_missing_keys[key=value, None values are present values]",
       lambda run: ((l, v) for l in lists(maxlen(run)) for v in (None, 7)),
       lambda d, v: d.deepcopy().fill_missing_keys(a=v, c=v), lambda l, v: [{**{"a": v, "c": v}, **x} if False else dict(x, **{k: v for k in ("a", "c") if k not in x}) for x in l], B)


def second_operand_driver(name, op):
    @driver(name)
    def _d(run):
        run.bound = "a, b one-item lists; c = a (+|extend) b; every editing method on c"
        for (e,) in run.inputs(((e,) for e in EDIT_OPS)):
            a, b = ListOfDicts([{"a": 1, "b": 1}]), ListOfDicts([{"a": 2, "b": 2}])
            before = plain(b)
            c = op(a, b)
            EDIT_OPS[e](c)
            changed = plain(b) != before
            flagged = bool(object.__getattribute__(b, "_obsolete"))
            run.check([e], (not changed) or flagged, expected="b obsolete (its dicts were edited through c)",
                      got=f"b._obsolete={flagged}, b={plain(b)}", clause="right operand marked obsolete")
    return _d


if __import__("os").environ.get("PYVC_PROP") == "C17":
    second_operand_driver("dataiter/list_of_dicts.py::ListOfDicts.__add__", lambda a, b: a + b)
    second_operand_driver("dataiter/list_of_dicts.py::ListOfDicts.extend[ListOfDicts argument]", lambda a, b: a.extend(b))


# ---- C15: chains of methods against a plain list-of-dicts model ---------------------------------------
def _m_sort(l, **kd):
    return sort_oracle(l, list(kd.items()))


CHAIN_OPS = {
    "sort_a": (lambda x: x.sort(a=1), lambda l: _m_sort(l, a=1)),
    "sort_a_desc": (lambda x: x.sort(a=-1), lambda l: _m_sort(l, a=-1)),
    "sort_ab": (lambda x: x.sort(a=1, b=-1), lambda l: _m_sort(l, a=1, b=-1)),
    "reverse": (lambda x: x.reverse(), lambda l: l[::-1]),
    "append": (lambda x: x.append({"a": 0, "b": None}), lambda l: l + [{"a": 0, "b": None}]),
    "insert_neg": (lambda x: x.insert(-2, {"a": 1, "b": 1}), lambda l: (l.insert(-2, {"a": 1, "b": 1}), l)[1]),
    "head2": (lambda x: x.head(2), lambda l: l[:2]),
    "tail1": (lambda x: x.tail(1), lambda l: l[len(l) - min(1, len(l)):]),
    "filter_a": (lambda x: x.filter(a=1), lambda l: [i for i in l if i["a"] == 1]),
    "filter_out_ab": (lambda x: x.filter_out(a=1, b=0), lambda l: [i for i in l if not (i["a"] == 1 and i["b"] == 0)]),
    "unique_a": (lambda x: x.unique("a"), lambda l: [x for i, x in enumerate(l) if not any(y["a"] == x["a"] for y in l[:i])]),
    "add_copy": (lambda x: x + x.deepcopy(), lambda l: l + copy.deepcopy(l)),
    "modify_a": (lambda x: x.modify(a=lambda i: 1 if i.a is None else None), lambda l: [{**i, "a": (1 if i["a"] is None else None)} for i in l]),
    "slice": (lambda x: x[1:], lambda l: l[1:]),
}


@driver("dataiter/list_of_dicts.py::ListOfDicts.sort[one key ascending]")
def chain_driver(run):
    import itertools as it_
    depth = 3
    starts = [[], [{"a": 1, "b": 0}], [{"a": 1, "b": 0}, {"a": None, "b": 1}, {"a": 0, "b": 0}], [{"a": 0, "b": 1}, {"a": 0, "b": 0}, {"a": 1, "b": 0}]]
    ops = list(CHAIN_OPS) if run.tier == "thorough" else [o for o in CHAIN_OPS if o not in ("add_copy", "slice", "tail1")]
    run.bound = f"all chains of <= {depth} methods ({len(ops)} kinds) from {len(starts)} start lists; also every single sort on full lists of <= 3 items"
    for (l,) in run.inputs(((l,) for l in full_lists(3))):
        if run.replay is not None and not (isinstance(l, list) and all(isinstance(x, dict) for x in l)):
            break
        data = mk(l)
        run.check([l], plain(data.sort(a=1)) == sort_oracle(l, [("a", 1)]), expected=sort_oracle(l, [("a", 1)]), got=plain(data.sort(a=1)), clause="sort")
    gen = ((s, list(seq)) for s in range(len(starts)) for n in range(1, depth + 1) for seq in it_.product(ops, repeat=n))
    for inp in run.inputs(gen):
        if not (isinstance(inp, (list, tuple)) and len(inp) == 2 and isinstance(inp[0], int)):
            continue
        s, seq = inp
        x, model = mk(starts[s]), copy.deepcopy(starts[s])
        import contextlib, io
        try:
            with contextlib.redirect_stdout(io.StringIO()):
                for op in seq:
                    x = CHAIN_OPS[op][0](x)
                    model = CHAIN_OPS[op][1](model)
            ok, got = plain(x) == model and isinstance(x, ListOfDicts), plain(x)
        except Exception as e:
            ok, got = False, f"raised {type(e).__name__}: {e}"
        run.check([s, seq], ok, expected=model, got=got, clause="chain of methods == plain list semantics")


@driver("dataiter/list_of_dicts.py::ListOfDicts.sort[ragged items: KeyError or sorted, never modified]")
def ragged_sort_driver(run):
    run.bound = B(run) + " (ragged: keys may be missing) - sort either raises KeyError or is correct; items never change"
    for (l,) in run.inputs(((l,) for l in lists(maxlen(run)))):
        data = mk(l)
        before = plain(data)
        try:
            got = plain(data.sort(a=-1))
            ok = all("a" in x for x in l) and got == sort_oracle(l, [("a", -1)])
        except KeyError:
            ok, got = not all("a" in x for x in l), "KeyError"
        except TypeError:
            ok, got = True, "TypeError (incomparable)"
        run.check([l], ok and plain(data) == before, expected="sorted or KeyError; items unchanged", got=[got, plain(data)], clause="sort is non-modifying")


# ---- C16 ---------------------------------------------------------------------------------------------
KEYV = [None, 0, 1]


def keyed_lists(maxlen_, key="k"):
    ds = [{key: v} for v in KEYV]
    for n in range(maxlen_ + 1):
        for combo in itertools.product(range(len(ds)), repeat=n):
            yield [dict(ds[c], p=i) for i, c in enumerate(combo)]


def lod_join_driver(name, kind, renamed=False):
    @driver(name)
    def _d(run):
        ml_ = 3 if run.tier == "thorough" else 2
        run.bound = f"pairs of lists of <= {ml_} items, key in {{None,0,1}} with duplicates, payload entries on both sides"
        rk = "k2" if renamed else "k"
        by = ("k", "k2") if renamed else "k"
        gen = ((a, b) for a in keyed_lists(ml_) for b in keyed_lists(ml_, rk))
        for a, b in run.inputs(gen):
            b = [dict(x, q=100 + x["p"]) for x in b]
            for x in b:
                del x["p"]
            A, Bl = mk(a), mk(b)
            b_before = plain(Bl)
            objs = list(A)

            def first(i):
                for j, y in enumerate(b):
                    if y[rk] == a[i]["k"]:
                        return j
                return None
            m = [first(i) for i in range(len(a))]
            try:
                import contextlib, io
                with contextlib.redirect_stdout(io.StringIO()):
                    if kind in ("left", "inner"):
                        got = A.left_join(Bl, by) if kind == "left" else A.inner_join(Bl, by)
                        keep = [i for i in range(len(a)) if kind == "left" or m[i] is not None]
                        exp = [dict(a[i], **({k: v for k, v in b[m[i]].items() if k != rk} if m[i] is not None else {})) for i in keep]
                        ok = plain(got) == exp and same_objects(got, [objs[i] for i in keep])
                    elif kind in ("semi", "anti"):
                        got = A.semi_join(Bl, by) if kind == "semi" else A.anti_join(Bl, by)
                        keep = [i for i in range(len(a)) if (m[i] is not None) == (kind == "semi")]
                        exp = [a[i] for i in keep]
                        ok = plain(got) == exp and same_objects(got, [objs[i] for i in keep]) and plain(A) == a
                    else:
                        got = A.full_join(Bl, by)
                        exp = "every left and right item present; merged pairs have equal keys"
                        gp = plain(got)
                        ok = all(any(g.get("p") == x["p"] and g.get("k") == x["k"] for g in gp) for x in a)
                        ok = ok and all(any(g.get("q") == y["q"] for g in gp) for y in b)
                        for g in gp:
                            if "p" in g and "q" in g and g["p"] is not None and g["q"] is not None:
                                x = [x for x in a if x["p"] == g["p"]][0]
                                y = [y for y in b if y["q"] == g["q"]][0]
                                ok = ok and x["k"] == y[rk]
                        ok = ok and plain(A) == a
                ok = ok and plain(Bl) == b_before
                obs = plain(got)
            except Exception as e:
                ok, obs, exp = False, f"raised {type(e).__name__}: {e}", None
            run.check([a, b], ok, expected=exp, got=obs, clause=f"{kind}_join")
    return _d


LP = "dataiter/list_of_dicts.py::ListOfDicts."
lod_join_driver(LP + "left_join[same-named key]", "left")
lod_join_driver(LP + "left_join[key named differently]", "left", renamed=True)
lod_join_driver(LP + "inner_join[same-named key]", "inner")
lod_join_driver(LP + "inner_join[key named differently]", "inner", renamed=True)
lod_join_driver(LP + "semi_join", "semi")
lod_join_driver(LP + "anti_join", "anti")
lod_join_driver(LP + "anti_join[key named differently]", "anti", renamed=True)
lod_join_driver(LP + "semi_join[lemma:semi/anti partition]", "full")
lod_join_driver(LP + "full_join[every left and right item at least once, merged pairs have equal keys]", "full")
lod_join_driver(LP + "full_join[renamed key]", "full", renamed=True)


@driver(LP + "full_join[full_join + aggregate: bounded only]")
def lod_aggregate_driver(run):
    ml_ = 4 if run.tier == "thorough" else 3
    run.bound = f"lists of <= {ml_} items with group keys g in {{None,0,1}} x h in {{0,1}}; group by g, by (g,h) and by (h,g); summaries n, list of p, first p"
    vals = [{"g": g, "h": h} for g in KEYV for h in (0, 1)]
    def gen():
        for n in range(ml_ + 1):
            for combo in itertools.product(range(len(vals)), repeat=n):
                for by in (("g",), ("g", "h"), ("h", "g")):
                    yield [dict(vals[c], p=i) for i, c in enumerate(combo)], list(by)
    for l, by in run.inputs(gen()):
        data = mk(l)
        before = plain(data)
        got = data.group_by(*by).aggregate(n=len, ps=lambda x: [i.p for i in x], first=lambda x: x[0].p)
        keys = []
        for x in l:
            k = tuple(x[b] for b in by)
            if k not in keys:
                keys.append(k)
        keys.sort(key=lambda k: tuple((v is None, v) for v in k))
        exp = [dict(zip(by, k), n=len([x for x in l if tuple(x[b] for b in by) == k]),
                    ps=[x["p"] for x in l if tuple(x[b] for b in by) == k],
                    first=[x["p"] for x in l if tuple(x[b] for b in by) == k][0]) for k in keys]
        run.check([l, by], plain(got) == exp and plain(data) == before, expected=exp, got=plain(got), clause="aggregate")


# ---- joins whose right-hand items carry NOTHING but the key (a whitelist): a match that adds no entry is still a match -----------
@driver(LP + "inner_join[right items hold only the key]")
def lod_join_key_only(run):
    ml_ = 3 if run.tier == "thorough" else 2
    run.bound = f"pairs of lists of <= {ml_} items, key in {{None,0,1}}; right items are key-only, carry one payload entry, or one that collides with a left entry; left / inner / semi / anti / full join; same-named key, renamed key as tuple and as list"
    def rights(rk):
        opts = [{rk: v} for v in (None, 0, 1)] + [{rk: 0, "q": 7}, {rk: 1, "p": 99}]     # "p" collides with a non-key entry of the left items
        for n in range(ml_ + 1):
            for combo in itertools.product(range(len(opts)), repeat=n):
                yield [dict(opts[c]) for c in combo]
    gen = ((a, b, rk) for rk in ("k", "k2", "k2 as list") for a in keyed_lists(ml_) for b in rights(rk.split()[0]))
    for a, b, rk in run.inputs(gen):
        by = "k" if rk == "k" else ("k", "k2") if rk == "k2" else ["k", "k2"]       # a (left, right) pair may be given as a list
        if rk == "k2 as list":
            a = [dict(x, k2=70 + i) for i, x in enumerate(a)]      # the left items have an entry of their own named like the right key: it stays
        rk = rk.split()[0]

        def first(i):
            for j, y in enumerate(b):
                if y[rk] == a[i]["k"]:
                    return j
            return None
        m = [first(i) for i in range(len(a))]
        merged = [dict(a[i], **({k: v for k, v in b[m[i]].items() if k != rk} if m[i] is not None else {})) for i in range(len(a))]
        try:
            import contextlib, io
            with contextlib.redirect_stdout(io.StringIO()):
                Bl = mk(b)
                ok = plain(mk(a).left_join(Bl, by)) == merged
                ok = ok and plain(mk(a).inner_join(Bl, by)) == [merged[i] for i in range(len(a)) if m[i] is not None]
                ok = ok and plain(mk(a).semi_join(Bl, by)) == [a[i] for i in range(len(a)) if m[i] is not None]
                ok = ok and plain(mk(a).anti_join(Bl, by)) == [a[i] for i in range(len(a)) if m[i] is None]
                ok = ok and plain(Bl) == b
                full = plain(mk(a).full_join(mk(b), by))       # must answer for every form of the key pair
                if not any("p" in y for y in b) and not any(rk != "k" and rk in x for x in a):
                    # (which side wins a colliding name in a full join - a payload name on both sides, a left entry named like the right key -
                    # is not specified: only the one-directional joins are checked on those inputs)
                    ok = ok and all(any(g.get("p") == x["p"] and g.get("k") == x["k"] for g in full) for x in a)
                    for y in b:      # every right item at least once (its key value under the left or the right name)
                        ok = ok and any((g.get("k", g.get(rk)) == y[rk] or g.get(rk) == y[rk]) and all(g.get(kk) == vv for kk, vv in y.items() if kk != rk)
                                        for g in full)
                obs = plain(mk(a).inner_join(mk(b), by))
        except Exception as e:
            ok, obs = False, f"raised {type(e).__name__}: {e}"
        run.check([a, b, rk], ok, expected=[merged[i] for i in range(len(a)) if m[i] is not None], got=obs, clause="joins with key-only right items follow the relational definition")


# ---- joins on TWO keys (one same-named, one renamed): relational definition on (k, h) pairs -------------------------------
@driver(LP + "left_join[two keys, the second named differently]")
def lod_join_two_keys(run):
    run.bound = "pairs of lists of <= 2 items, keys k in {None, 0} x h in {0, 1} (right: k, h2); left / inner / semi / anti / full join"
    vals = [(None, 0), (0, 0), (0, 1)]
    gen = ((list(a), list(b)) for n1 in range(3) for n2 in range(3) for a in itertools.product(range(3), repeat=n1) for b in itertools.product(range(3), repeat=n2))
    for ia, ib in run.inputs(gen):
        a = [{"k": vals[i][0], "h": vals[i][1], "p": t} for t, i in enumerate(ia)]
        b = [{"k": vals[i][0], "h2": vals[i][1], "q": 100 + t} for t, i in enumerate(ib)]
        by = ("k", ("h", "h2"))

        def first(x):
            for j, y in enumerate(b):
                if y["k"] == x["k"] and y["h2"] == x["h"]:
                    return j
            return None
        m = [first(x) for x in a]
        try:
            import contextlib
            with contextlib.redirect_stdout(io.StringIO()):
                A, Bl = mk(a), mk(b)
                left = plain(A.left_join(Bl, *by))
                exp_left = [dict(x, **({"q": b[m[i]]["q"]} if m[i] is not None else {})) for i, x in enumerate(a)]
                ok = left == exp_left and plain(Bl) == b
                A, Bl = mk(a), mk(b)
                ok = ok and plain(A.inner_join(Bl, *by)) == [e for e, mm in zip(exp_left, m) if mm is not None]
                A, Bl = mk(a), mk(b)
                ok = ok and plain(A.semi_join(Bl, *by)) == [x for x, mm in zip(a, m) if mm is not None] and plain(A) == a
                ok = ok and plain(A.anti_join(Bl, *by)) == [x for x, mm in zip(a, m) if mm is None] and plain(A) == a
                full = plain(mk(a).full_join(mk(b), *by))
                ok = ok and all(any(g.get("p") == x["p"] for g in full) for x in a) and all(any(g.get("q") == y["q"] for g in full) for y in b)
                for g in full:
                    if g.get("p") is not None and g.get("q") is not None and "p" in g and "q" in g:
                        x = [x for x in a if x["p"] == g["p"]]
                        y = [y for y in b if y["q"] == g["q"]]
                        if x and y and isinstance(g["p"], int) and g["p"] < 100 and g["q"] >= 100:
                            ok = ok and x[0]["k"] == y[0]["k"] and x[0]["h"] == y[0]["h2"]
            obs = left
        except Exception as e:
            ok, obs = False, f"raised {type(e).__name__}: {e}"
        run.check([ia, ib], ok, expected=f"first matches {m}", got=obs, clause="joins on two keys follow the relational definition")
