# -*- coding: utf-8 -*-
"""Bounded run-time contracts for ListOfDicts (C15-C17): real code, exhaustive small scope."""
import copy
import itertools

from dataiter import ListOfDicts
from .driver import driver

VALUES = [None, 0, 1]
KEYS = ["a", "b"]


def dicts():
    opts = [[("__missing__",)] + [(v,) for v in VALUES] for _ in KEYS]
    for combo in itertools.product(*opts):
        yield {k: c[0] for k, c in zip(KEYS, combo) if c[0] != "__missing__"}


def lists(maxlen):
    ds = list(dicts())
    for n in range(maxlen + 1):
        for combo in itertools.product(ds, repeat=n):
            yield [dict(d) for d in combo]


def maxlen(run):
    return 3 if run.tier == "thorough" else 2


PREDICATES = {
    "a_truthy": lambda x: x.get("a"),
    "a_is_none": lambda x: x.get("a") is None,
    "has_b": lambda x: "b" in x,
    "always": lambda x: True,
    "never": lambda x: 0,
}


def plain(lod):
    return [dict(x) for x in lod]


def same_objects(result, expected_objs):
    return len(result) == len(expected_objs) and all(a is b for a, b in zip(result, expected_objs))


@driver("dataiter/list_of_dicts.py::ListOfDicts.filter[callable]")
def filter_callable(run):
    run.bound = f"lists of <= {maxlen(run)} dicts over keys a,b in {{missing,None,0,1}}; 5 predicates"
    gen = ((l, p) for l in lists(maxlen(run)) for p in PREDICATES)
    for l, p in run.inputs(gen):
        data = ListOfDicts(copy.deepcopy(l))
        before = plain(data)
        got = data.filter(PREDICATES[p])
        exp = [x for x in data if PREDICATES[p](x)]
        run.check([l, p], isinstance(got, ListOfDicts) and same_objects(got, exp) and plain(data) == before,
                  expected=exp, got=got, clause="seq=select_by(self,function)")
