# -*- coding: utf-8 -*-
"""Contracts for dataiter/vector.py (C10, C11 and callee contracts used by the DataFrame proofs)."""
import z3
from pyvc.contract import Contract, register, LoopSpec
from pyvc.core import (INT, BOOL, V, NONE, ABSENT, Seq, seq_eq, filter_seq, Enum, zint, zbool, in_range, conc,
                       Unsupported)
from pyvc import models as M
from pyvc.models_np import NDArr, KINDS, KCODE, kind_is, kind_term, ghost, is_nan, is_nat

F = "dataiter/vector.py"


def vector_cls(it):
    return it.class_obj(it.repo_module(F).classes["Vector"])


def sym_vector(cx, name, kind=None):
    """An arbitrary Vector: symbolic length, dtype kind and elements (typed: NaN only if float, ...)."""
    ctx = cx.ctx
    n = ctx.fresh(name + "_len", INT)
    ctx.assume(n >= 0)
    elem = ctx.fresh_fn(name + "_elem", INT, V)
    if kind is None:
        kind = ctx.fresh(name + "_kind", INT)
        ctx.assume(z3.And(kind >= 0, kind < len(KINDS)))
    kt = kind_term(kind)
    j = z3.Int("j!ty")
    e = elem(j)
    ctx.assumptions.append(z3.ForAll([j], z3.And(
        z3.Implies(is_nan(e), kt == KCODE["float"]),
        z3.Implies(is_nat(e), z3.Or(kt == KCODE["datetime"], kt == KCODE["timedelta"])),
        z3.Implies(e == NONE, kt == KCODE["object"]), e != ABSENT), patterns=[e]))
    v = NDArr(ctx, Seq(n, lambda jj: elem(jj), V), kind, owner=name, cls=vector_cls(cx.it))
    v.sym = {"len": n, "elem": elem, "kind": kt}
    return v


@register
class IsNa(Contract):
    """Vector.is_na flags exactly the missing elements: NaT / NaN / "" / None by dtype kind."""
    file, qualname, prop = F, "Vector.is_na", "C10"
    also = ("C02", "C05")

    def setup(self, cx):
        return {"self": sym_vector(cx, "self"), "args": []}

    def ensures(self, cx, result):
        from contracts.data_frame import na_formula
        v = cx.inputs["self"]
        cx.prove("result-is-boolean-vector", isinstance(result, NDArr) and result.seq.sort == BOOL)
        if not isinstance(result, NDArr):
            return
        j = cx.ctx.fresh("j", INT)
        cx.prove("same-length", zint(result.len) == v.sym["len"])
        cx.prove("flags-exactly-the-missing-elements",
                 z3.Implies(in_range(j, v.sym["len"]), result.seq.at(j) == na_formula(cx.it, v.sym["kind"], v.sym["elem"](j))))
        cx.prove("fresh:new-buffer", result.freshness())
        cx.prove("frame:no-write-into-input-buffers", not ghost(cx.ctx)["input_writes"])
