# -*- coding: utf-8 -*-
"""Contracts for dataiter/vector.py (C10, C11 and callee contracts used by the DataFrame proofs)."""
import z3
from pyvc.contract import Contract, register, LoopSpec
from pyvc.core import (INT, BOOL, V, NONE, ABSENT, Seq, seq_eq, filter_seq, Enum, zint, zbool, in_range, conc,
                       Unsupported)
from pyvc import models as M
from pyvc.models_np import NDArr, KINDS, KCODE, kind_is, kind_term, ghost, is_nan, is_nat

F = "dataiter/vector.py"


def vector_cls(it):
    return it.class_obj(it.repo_module(F).classes["Vector"])


def sym_vector(cx, name, kind=None):
    """An arbitrary Vector: symbolic length, dtype kind and elements (typed: NaN only if float, ...)."""
    ctx = cx.ctx
    n = ctx.fresh(name + "_len", INT)
    ctx.assume(n >= 0)
    elem = ctx.fresh_fn(name + "_elem", INT, V)
    if kind is None:
        kind = ctx.fresh(name + "_kind", INT)
        ctx.assume(z3.And(kind >= 0, kind < len(KINDS)))
    kt = kind_term(kind)
    j = z3.Int("j!ty")
    e = elem(j)
    ctx.assumptions.append(z3.ForAll([j], z3.And(
        z3.Implies(is_nan(e), kt == KCODE["float"]),
        z3.Implies(is_nat(e), z3.Or(kt == KCODE["datetime"], kt == KCODE["timedelta"])),
        z3.Implies(e == NONE, kt == KCODE["object"]), e != ABSENT), patterns=[e]))
    v = NDArr(ctx, Seq(n, lambda jj: elem(jj), V), kind, owner=name, cls=vector_cls(cx.it))
    v.sym = {"len": n, "elem": elem, "kind": kt}
    return v


@register
class IsNa(Contract):
    """Vector.is_na flags exactly the missing elements: NaT / NaN / "" / None by dtype kind."""
    file, qualname, prop = F, "Vector.is_na", "C10"
    also = ("C02", "C05")

    def setup(self, cx):
        return {"self": sym_vector(cx, "self"), "args": []}

    def ensures(self, cx, result):
        from contracts.data_frame import na_formula
        v = cx.inputs["self"]
        cx.prove("result-is-boolean-vector", isinstance(result, NDArr) and result.seq.sort == BOOL)
        if not isinstance(result, NDArr):
            return
        j = cx.ctx.fresh("j", INT)
        cx.prove("same-length", zint(result.len) == v.sym["len"])
        cx.prove("flags-exactly-the-missing-elements",
                 z3.Implies(in_range(j, v.sym["len"]), result.seq.at(j) == na_formula(cx.it, v.sym["kind"], v.sym["elem"](j))))
        cx.prove("fresh:new-buffer", result.freshness())
        cx.prove("frame:no-write-into-input-buffers", not ghost(cx.ctx)["input_writes"])


# =========================================================================================
# Vector methods: values + C06 (new buffer, receiver untouched)
# =========================================================================================
from contracts.data_frame import na_formula, vector_is_na_contract, DF_CALLEES, na_value_term, na_kind_term

V_CALLEES = {"Vector.is_na": vector_is_na_contract}


def vec_common(cx, result, v, what="result"):
    ok = isinstance(result, NDArr)
    cx.prove(f"{what}-is-an-array", ok)
    if ok:
        cx.prove("fresh:new-buffer", result.freshness())
    cx.prove("frame:no-write-into-input-buffers", not ghost(cx.ctx)["input_writes"])
    return ok


class _Vec(Contract):
    file = F
    callees = V_CALLEES
    prop = "C06"


@register
class VecDropNa(_Vec):
    """drop_na: exactly the non-missing elements, in order, in a new buffer"""
    qualname, also = "Vector.drop_na", ("C10",)

    def setup(self, cx):
        return {"self": sym_vector(cx, "self"), "args": []}

    def ensures(self, cx, result):
        v = cx.inputs["self"]
        if not vec_common(cx, result, v):
            return
        keep = lambda i: z3.Not(na_formula(cx.it, v.sym["kind"], v.sym["elem"](i)))
        e = Enum.of(cx.ctx, v.sym["len"], keep)
        j = cx.ctx.fresh("j", INT)
        cx.prove("length = number of non-missing elements", zint(result.len) == e.cnt)
        cx.prove("elements = the non-missing ones in order", z3.Implies(in_range(j, e.cnt), M.to_v(cx.it, result.seq.at(j)) == v.sym["elem"](e.idx(j))))
        cx.prove("dtype-kind-kept", kind_term(result.kind) == v.sym["kind"])


@register
class VecReplaceNa(_Vec):
    """replace_na(value): missing positions get the value, all others keep theirs; receiver untouched"""
    qualname, also = "Vector.replace_na", ("C10",)

    def setup(self, cx):
        return {"self": sym_vector(cx, "self"), "args": [cx.val("value")]}

    def ensures(self, cx, result):
        v = cx.inputs["self"]
        if not vec_common(cx, result, v):
            return
        j = cx.ctx.fresh("j", INT)
        val = cx.inputs["args"][0]
        cx.prove("same-length", zint(result.len) == v.sym["len"])
        cx.prove("exactly the missing positions are replaced",
                 z3.Implies(in_range(j, v.sym["len"]), M.to_v(cx.it, result.seq.at(j)) ==
                            z3.If(na_formula(cx.it, v.sym["kind"], v.sym["elem"](j)), val, v.sym["elem"](j))))


class _VecHeadTail(_Vec):
    tail = False

    def setup(self, cx):
        n = cx.int("n")
        cx.assume(n >= 0)
        return {"self": sym_vector(cx, "self"), "args": [n], "n": n}

    def ensures(self, cx, result):
        v, n = cx.inputs["self"], cx.inputs["n"]
        if not vec_common(cx, result, v):
            return
        L = v.sym["len"]
        m = z3.If(n <= L, n, L)
        j = cx.ctx.fresh("j", INT)
        cx.prove("length = min(n, len)", zint(result.len) == m)
        src = (lambda jj: L - m + jj) if self.tail else (lambda jj: jj)
        cx.prove("elements", z3.Implies(in_range(j, m), M.to_v(cx.it, result.seq.at(j)) == v.sym["elem"](src(j))))


@register
class VecHead(_VecHeadTail):
    qualname = "Vector.head"


@register
class VecTail(_VecHeadTail):
    qualname, tail = "Vector.tail", True


@register
class VecSample(_Vec):
    qualname = "Vector.sample"

    def setup(self, cx):
        n = cx.int("n")
        cx.assume(n >= 0)
        return {"self": sym_vector(cx, "self"), "args": [n], "n": n}

    def ensures(self, cx, result):
        v, n = cx.inputs["self"], cx.inputs["n"]
        if not vec_common(cx, result, v):
            return
        r = cx.it.__dict__.get("last_sorted_choice")
        cx.prove("witness-available", r is not None)
        if r is None:
            return
        L = v.sym["len"]
        j, j2 = cx.ctx.fresh("j", INT), cx.ctx.fresh("j2", INT)
        cx.prove("size = min(n, len)", zint(result.len) == z3.If(n <= L, n, L))
        cx.prove("elements of distinct positions in original order",
                 z3.And(zint(r.len) == zint(result.len),
                        z3.Implies(in_range(j, r.len), z3.And(in_range(r.at(j), L), M.to_v(cx.it, result.seq.at(j)) == v.sym["elem"](r.at(j)))),
                        z3.Implies(z3.And(in_range(j, r.len), in_range(j2, r.len), j < j2), r.at(j) < r.at(j2))))


@register
class VecConcat(_Vec):
    qualname = "Vector.concat"

    def setup(self, cx):
        a, b = sym_vector(cx, "self"), sym_vector(cx, "other")
        from pyvc.models_np import promotable
        cx.assume(promotable(a.sym["kind"], b.sym["kind"]))
        return {"self": a, "args": [b], "b": b}

    def ensures(self, cx, result):
        a, b = cx.inputs["self"], cx.inputs["b"]
        if not vec_common(cx, result, a):
            return
        j = cx.ctx.fresh("j", INT)
        cx.prove("length", zint(result.len) == a.sym["len"] + b.sym["len"])
        cx.prove("first block", z3.Implies(in_range(j, a.sym["len"]), M.to_v(cx.it, result.seq.at(j)) == a.sym["elem"](j)))
        cx.prove("second block", z3.Implies(in_range(j, b.sym["len"]), M.to_v(cx.it, result.seq.at(a.sym["len"] + j)) == b.sym["elem"](j)))
        cx.prove("result-is-a-Vector", result.cls is not None and result.cls.name == "Vector")


def _mk_as(method, kind):
    class A(_Vec):
        qualname = f"Vector.{method}"

        def setup(self, cx):
            return {"self": sym_vector(cx, "self"), "args": []}

        def ensures(self, cx, result):
            v = cx.inputs["self"]
            if not vec_common(cx, result, v):
                return
            cx.prove("same-length", zint(result.len) == v.sym["len"])
            cx.prove("dtype-kind", kind_term(result.kind) == KCODE[kind])
    A.__name__ = "As_" + method
    return register(A)


for _m, _k in (("as_boolean", "bool"), ("as_float", "float"), ("as_integer", "int"), ("as_string", "string")):
    _mk_as(_m, _k)


@register
class VecToList(_Vec):
    """tolist: the original values with None exactly at the missing positions (a new list)"""
    qualname, also = "Vector.tolist", ("C10",)

    def setup(self, cx):
        return {"self": sym_vector(cx, "self"), "args": []}

    def ensures(self, cx, result):
        from pyvc.core import MList
        v = cx.inputs["self"]
        cx.prove("result-is-a-list", isinstance(result, MList))
        if not isinstance(result, MList):
            return
        s = M.unstructure(result.seq)
        j = cx.ctx.fresh("j", INT)
        cx.prove("same-length", zint(s.len) == v.sym["len"])
        cx.prove("None exactly at the missing positions, values elsewhere",
                 z3.Implies(in_range(j, v.sym["len"]), s.at(j) == z3.If(na_formula(cx.it, v.sym["kind"], v.sym["elem"](j)), NONE, v.sym["elem"](j))))
        cx.prove("frame:no-write-into-input-buffers", not ghost(cx.ctx)["input_writes"])
