# -*- coding: utf-8 -*-
"""Contracts for dataiter/vector.py (C10, C11 and callee contracts used by the DataFrame proofs)."""
import z3
from pyvc.contract import Contract, register, LoopSpec
from pyvc.core import (INT, BOOL, V, NONE, ABSENT, Seq, seq_eq, filter_seq, Enum, zint, zbool, in_range, conc,
                       Unsupported)
from pyvc import models as M
from pyvc.models_np import NDArr, KINDS, KCODE, kind_is, kind_term, ghost, is_nan, is_nat, no_input_writes

F = "dataiter/vector.py"


def vector_cls(it):
    return it.class_obj(it.repo_module(F).classes["Vector"])


def sym_vector(cx, name, kind=None):
    """An arbitrary Vector: symbolic length, dtype kind and elements (typed: NaN only if float, ...)."""
    ctx = cx.ctx
    n = ctx.fresh(name + "_len", INT)
    ctx.assume(n >= 0)
    elem = ctx.fresh_fn(name + "_elem", INT, V)
    if kind is None:
        kind = ctx.fresh(name + "_kind", INT)
        ctx.assume(z3.And(kind >= 0, kind < len(KINDS)))
    kt = kind_term(kind)
    j = z3.Int("j!ty")
    e = elem(j)
    ctx.assumptions.append(z3.ForAll([j], z3.And(
        z3.Implies(is_nan(e), kt == KCODE["float"]),
        z3.Implies(is_nat(e), z3.Or(kt == KCODE["datetime"], kt == KCODE["timedelta"])),
        z3.Implies(e == NONE, kt == KCODE["object"]), e != ABSENT), patterns=[e]))
    v = NDArr(ctx, Seq(n, lambda jj: elem(jj), V), kind, owner=name, cls=vector_cls(cx.it))
    v.sym = {"len": n, "elem": elem, "kind": kt}
    return v


@register
class IsNa(Contract):
    """Vector.is_na flags exactly the missing elements: NaT / NaN / "" / None by dtype kind."""
    file, qualname, prop = F, "Vector.is_na", "C10"
    also = ("C02", "C03", "C05", "C06", "C11")

    def setup(self, cx):
        return {"self": sym_vector(cx, "self"), "args": []}

    def ensures(self, cx, result):
        from contracts.data_frame import na_formula
        v = cx.inputs["self"]
        cx.prove("result-is-boolean-vector", isinstance(result, NDArr) and result.seq.sort == BOOL)
        if not isinstance(result, NDArr):
            return
        j = cx.ctx.fresh("j", INT)
        cx.prove("same-length", zint(result.len) == v.sym["len"])
        cx.prove("flags-exactly-the-missing-elements",
                 z3.Implies(in_range(j, v.sym["len"]), result.seq.at(j) == na_formula(cx.it, v.sym["kind"], v.sym["elem"](j))))
        cx.prove("fresh:new-buffer", result.freshness())
        cx.prove("frame:no-write-into-input-buffers", no_input_writes(cx.ctx))


# =========================================================================================
# Vector methods: values + C06 (new buffer, receiver untouched)
# =========================================================================================
from contracts.data_frame import na_formula, vector_is_na_contract, DF_CALLEES, na_value_term, na_kind_term

V_CALLEES = {"Vector.is_na": vector_is_na_contract}


def vec_common(cx, result, v, what="result"):
    ok = isinstance(result, NDArr)
    cx.prove(f"{what}-is-an-array", ok)
    if ok:
        cx.prove("fresh:new-buffer", result.freshness())
    cx.prove("frame:no-write-into-input-buffers", no_input_writes(cx.ctx))
    return ok


class _Vec(Contract):
    file = F
    callees = V_CALLEES
    prop = "C06"


@register
class VecDropNa(_Vec):
    """drop_na: exactly the non-missing elements, in order, in a new buffer"""
    qualname, also = "Vector.drop_na", ("C10",)

    def setup(self, cx):
        return {"self": sym_vector(cx, "self"), "args": []}

    def ensures(self, cx, result):
        v = cx.inputs["self"]
        if not vec_common(cx, result, v):
            return
        keep = lambda i: z3.Not(na_formula(cx.it, v.sym["kind"], v.sym["elem"](i)))
        e = Enum.of(cx.ctx, v.sym["len"], keep)
        j = cx.ctx.fresh("j", INT)
        cx.prove("length = number of non-missing elements", zint(result.len) == e.cnt)
        cx.prove("elements = the non-missing ones in order", z3.Implies(in_range(j, e.cnt), M.to_v(cx.it, result.seq.at(j)) == v.sym["elem"](e.idx(j))))
        cx.prove("dtype-kind-kept", kind_term(result.kind) == v.sym["kind"])


@register
class VecReplaceNa(_Vec):
    """replace_na(value): missing positions get the value, all others keep theirs; receiver untouched"""
    qualname, also = "Vector.replace_na", ("C10",)

    def setup(self, cx):
        return {"self": sym_vector(cx, "self"), "args": [cx.val("value")]}

    def ensures(self, cx, result):
        v = cx.inputs["self"]
        if not vec_common(cx, result, v):
            return
        j = cx.ctx.fresh("j", INT)
        val = cx.inputs["args"][0]
        cx.prove("same-length", zint(result.len) == v.sym["len"])
        cx.prove("exactly the missing positions are replaced",
                 z3.Implies(in_range(j, v.sym["len"]), M.to_v(cx.it, result.seq.at(j)) ==
                            z3.If(na_formula(cx.it, v.sym["kind"], v.sym["elem"](j)), val, v.sym["elem"](j))))


class _VecHeadTail(_Vec):
    tail = False

    def setup(self, cx):
        n = cx.int("n")
        cx.assume(n >= 0)
        return {"self": sym_vector(cx, "self"), "args": [n], "n": n}

    def ensures(self, cx, result):
        v, n = cx.inputs["self"], cx.inputs["n"]
        if not vec_common(cx, result, v):
            return
        L = v.sym["len"]
        m = z3.If(n <= L, n, L)
        j = cx.ctx.fresh("j", INT)
        cx.prove("length = min(n, len)", zint(result.len) == m)
        src = (lambda jj: L - m + jj) if self.tail else (lambda jj: jj)
        cx.prove("elements", z3.Implies(in_range(j, m), M.to_v(cx.it, result.seq.at(j)) == v.sym["elem"](src(j))))


@register
class VecHead(_VecHeadTail):
    qualname = "Vector.head"


@register
class VecTail(_VecHeadTail):
    qualname, tail = "Vector.tail", True


@register
class VecSample(_Vec):
    qualname = "Vector.sample"

    def setup(self, cx):
        n = cx.int("n")
        cx.assume(n >= 0)
        return {"self": sym_vector(cx, "self"), "args": [n], "n": n}

    def ensures(self, cx, result):
        v, n = cx.inputs["self"], cx.inputs["n"]
        if not vec_common(cx, result, v):
            return
        r = cx.it.__dict__.get("last_sorted_choice")
        cx.prove("witness-available", r is not None)
        if r is None:
            return
        L = v.sym["len"]
        j, j2 = cx.ctx.fresh("j", INT), cx.ctx.fresh("j2", INT)
        cx.prove("size = min(n, len)", zint(result.len) == z3.If(n <= L, n, L))
        cx.prove("elements of distinct positions in original order",
                 z3.And(zint(r.len) == zint(result.len),
                        z3.Implies(in_range(j, r.len), z3.And(in_range(r.at(j), L), M.to_v(cx.it, result.seq.at(j)) == v.sym["elem"](r.at(j)))),
                        z3.Implies(z3.And(in_range(j, r.len), in_range(j2, r.len), j < j2), r.at(j) < r.at(j2))))


@register
class VecConcat(_Vec):
    qualname = "Vector.concat"

    def setup(self, cx):
        a, b = sym_vector(cx, "self"), sym_vector(cx, "other")
        from pyvc.models_np import promotable
        cx.assume(promotable(a.sym["kind"], b.sym["kind"]))
        return {"self": a, "args": [b], "b": b}

    def ensures(self, cx, result):
        a, b = cx.inputs["self"], cx.inputs["b"]
        if not vec_common(cx, result, a):
            return
        j = cx.ctx.fresh("j", INT)
        cx.prove("length", zint(result.len) == a.sym["len"] + b.sym["len"])
        cx.prove("first block", z3.Implies(in_range(j, a.sym["len"]), M.to_v(cx.it, result.seq.at(j)) == a.sym["elem"](j)))
        cx.prove("second block", z3.Implies(in_range(j, b.sym["len"]), M.to_v(cx.it, result.seq.at(a.sym["len"] + j)) == b.sym["elem"](j)))
        cx.prove("result-is-a-Vector", result.cls is not None and result.cls.name == "Vector")


def _mk_as(method, kind):
    class A(_Vec):
        qualname = f"Vector.{method}"

        def setup(self, cx):
            return {"self": sym_vector(cx, "self"), "args": []}

        def ensures(self, cx, result):
            v = cx.inputs["self"]
            if not vec_common(cx, result, v):
                return
            cx.prove("same-length", zint(result.len) == v.sym["len"])
            cx.prove("dtype-kind", kind_term(result.kind) == KCODE[kind])
    A.__name__ = "As_" + method
    return register(A)


for _m, _k in (("as_boolean", "bool"), ("as_float", "float"), ("as_integer", "int"), ("as_string", "string")):
    _mk_as(_m, _k)


@register
class VecToList(_Vec):
    """tolist: the original values with None exactly at the missing positions (a new list)"""
    qualname, also = "Vector.tolist", ("C10",)

    def setup(self, cx):
        return {"self": sym_vector(cx, "self"), "args": []}

    def ensures(self, cx, result):
        from pyvc.core import MList
        v = cx.inputs["self"]
        cx.prove("result-is-a-list", isinstance(result, MList))
        if not isinstance(result, MList):
            return
        s = M.unstructure(result.seq)
        j = cx.ctx.fresh("j", INT)
        cx.prove("same-length", zint(s.len) == v.sym["len"])
        cx.prove("None exactly at the missing positions, values elsewhere",
                 z3.Implies(in_range(j, v.sym["len"]), s.at(j) == z3.If(na_formula(cx.it, v.sym["kind"], v.sym["elem"](j)), NONE, v.sym["elem"](j))))
        cx.prove("frame:no-write-into-input-buffers", no_input_writes(cx.ctx))


# =========================================================================================
# C11: sort, rank, unique
# =========================================================================================
def optimize_for_argsort_contract(it, args, kwargs):
    """Callee contract of Vector._optimize_for_argsort (bounded stand-in only, see OptimizeForArgsortBounded): an array
    with the same element values - the receiver itself or, for short strings, a fixed-width copy (a cast to U<n> with
    n >= the longest string keeps every string value, hence == and < on all pairs)."""
    a = args[0]
    ctx = it.ctx
    if a.seq.sort != V:
        return a
    s = a.seq
    same = ctx.fresh("opt_is_self", BOOL)
    k = z3.If(same, kind_term(a.kind), z3.IntVal(KCODE["fixedstr"]))
    ctx.assume(z3.Implies(z3.Not(same), kind_term(a.kind) == KCODE["string"]))
    out = NDArr(ctx, Seq(s.len, s.at, V), k, a.owner, a.cls)
    # the copy is a new buffer; the uncopied result IS the receiver (same buffer)
    fresh0 = a.freshness()
    out.fresh_cond = z3.If(same, z3.BoolVal(fresh0) if isinstance(fresh0, bool) else fresh0, z3.BoolVal(True))
    out.alias_of_input_unless = z3.Not(same)
    return out


S_CALLEES = dict(V_CALLEES)
S_CALLEES["Vector._optimize_for_argsort"] = optimize_for_argsort_contract


def total_order(cx, v):
    """Precondition: the non-missing elements are mutually comparable (strict total order v_lt)."""
    from pyvc.core import v_lt
    ctx = cx.ctx
    x, y, z = z3.Consts("x!to y!to z!to", V)
    ctx.assumptions.append(z3.ForAll([x], z3.Not(v_lt(x, x)), patterns=[v_lt(x, x)]))
    ctx.assumptions.append(z3.ForAll([x, y, z], z3.Implies(z3.And(v_lt(x, y), v_lt(y, z)), v_lt(x, z)),
                                     patterns=[z3.MultiPattern(v_lt(x, y), v_lt(y, z))]))
    i, j = z3.Ints("i!to j!to")
    e = v.sym["elem"]
    ctx.assumptions.append(z3.ForAll([i, j], z3.Implies(z3.And(in_range(i, v.sym["len"]), in_range(j, v.sym["len"]), e(i) != e(j)),
                                                        z3.Or(v_lt(e(i), e(j)), v_lt(e(j), e(i)))),
                                     patterns=[z3.MultiPattern(e(i), e(j))]))


class _VecSort(Contract):
    """Vector.sort: a permutation of the elements; the non-missing ones first, ordered in the requested direction;
    the missing ones last (both directions)."""
    file, qualname, prop = F, "Vector.sort", "C11"
    also = ("C06",)
    callees = S_CALLEES
    direction = 1
    cases = {k: (lambda kk: lambda cx, inp: inp["self"].sym["kind"] == KCODE[kk])(k)
             for k in ("int", "float", "datetime", "string", "fixedstr", "bool")}

    def setup(self, cx):
        v = sym_vector(cx, "self")
        total_order(cx, v)
        return {"self": v, "kwargs": {"dir": self.direction}}

    def ensures(self, cx, result):
        from pyvc.core import v_lt
        ctx, it = cx.ctx, cx.it
        v = cx.inputs["self"]
        if not vec_common(cx, result, v):
            return
        n, e, kind = v.sym["len"], v.sym["elem"], v.sym["kind"]
        na = lambda x: na_formula(it, kind, x)
        R = lambda j: M.to_v(it, result.seq.at(j))
        cx.prove("same-length", zint(result.len) == n)
        a, b = ctx.fresh("a", INT), ctx.fresh("b", INT)
        pm = it.__dict__.get("last_argsort")
        cx.prove("ghost:argsort-available", pm is not None)
        if pm is None:
            return
        src = lambda j: pm.perm(j) if self.direction > 0 else pm.perm(n - 1 - j)      # position in self of new[j]
        newna = lambda j: na(e(src(j)))
        e1 = Enum.of(ctx, n, lambda j: z3.Not(newna(j)))
        e2 = Enum.of(ctx, n, newna)
        m = e1.cnt       # number of non-missing elements (the result being a permutation of self, proved below,
        #                  this is also their number in self)
        cx.prove("missing-last: exactly the positions from m on hold missing values", z3.Implies(in_range(a, n), na(R(a)) == (a >= m)))
        lt = (lambda x, y: v_lt(x, y)) if self.direction > 0 else (lambda x, y: v_lt(y, x))
        cx.prove("non-missing part ordered in the requested direction",
                 z3.Implies(z3.And(0 <= a, a < b, b < m), z3.Not(lt(R(b), R(a)))))
        sigma = lambda j: src(z3.If(j < e1.cnt, e1.idx(j), e2.idx(j - e1.cnt)))
        tau = lambda i: (lambda t: z3.If(newna(t), e1.cnt + e2.rk(t), e1.rk(t)))(pm.inv(i) if self.direction > 0 else n - 1 - pm.inv(i))
        cx.prove("perm: result[j] == self[sigma(j)], sigma into range", z3.Implies(in_range(a, n), z3.And(in_range(sigma(a), n), R(a) == e(sigma(a)))))
        cx.prove("perm: counts add up", e1.cnt + e2.cnt == n)
        cx.prove("perm: sigma is onto (tau is a right inverse)", z3.Implies(in_range(a, n), z3.And(in_range(tau(a), n), sigma(tau(a)) == a)))
        cx.prove("perm: sigma is one-to-one (tau is a left inverse)", z3.Implies(in_range(a, n), tau(sigma(a)) == a))


@register
class VecSortAsc(_VecSort):
    variant, direction = "ascending", 1


@register
class VecSortDesc(_VecSort):
    variant, direction = "descending", -1


@register
class VecUnique(Contract):
    """Vector.unique: each distinct value once (missing values count as one value), in order of first occurrence"""
    file, qualname, prop = F, "Vector.unique", "C11"
    also = ("C06",)
    callees = S_CALLEES

    def setup(self, cx):
        v = sym_vector(cx, "self")
        total_order(cx, v)
        return {"self": v, "args": []}

    def ensures(self, cx, result):
        ctx, it = cx.ctx, cx.it
        v = cx.inputs["self"]
        if not vec_common(cx, result, v):
            return
        n, e = v.sym["len"], v.sym["elem"]
        q = z3.Int("q!vu")
        same = lambda p, r: z3.Or(e(p) == e(r), z3.And(is_nan(e(p)), is_nan(e(r))), z3.And(is_nat(e(p)), is_nat(e(r))))
        first = lambda i: z3.Not(z3.Exists([q], z3.And(0 <= q, q < i, same(q, i))))
        sel = getattr(result.seq, "guard", None)
        if sel is not None and getattr(result.seq, "src_len", None) is not None:
            # the result is a boolean-mask selection of the receiver (the object-dtype branch builds the mask of first
            # occurrences): lemma "selected <=> first occurrence", both directions for an arbitrary position; the
            # uniqueness meta-lemma on enumerations then identifies the selection with the specification's enumeration
            cx.prove("lemma:selection is over the whole receiver", zint(result.seq.src_len) == n)
            cx.lemma_forall("lemma:every selected position is a first occurrence",
                            lambda i: z3.Implies(z3.And(in_range(i, n), zbool(sel(i))), first(i)), base="i")
            # ghost enumerations of the specification: positions of the non-missing / the missing elements
            K = Enum.of(ctx, n, lambda k: e(k) != NONE)
            NA = Enum.of(ctx, n, lambda k: e(k) == NONE)
            q2 = z3.Int("q2!vu")
            first_f = lambda r: z3.Not(z3.Exists([q2], z3.And(0 <= q2, q2 < r, same(K.idx(q2), K.idx(r)))))
            cx.lemma_forall("lemma:a missing first occurrence is the first missing position",
                            lambda i: z3.Implies(z3.And(in_range(i, n), e(i) == NONE, first(i)), z3.And(NA.cnt >= 1, NA.idx(0) == i)), base="i")
            cx.lemma_forall("lemma:a missing first occurrence is selected",
                            lambda i: z3.Implies(z3.And(in_range(i, n), e(i) == NONE, first(i)), zbool(sel(i))), base="i")
            cx.lemma_forall("lemma:a non-missing first occurrence is a first occurrence among the non-missing elements",
                            lambda i: z3.Implies(z3.And(in_range(i, n), e(i) != NONE, first(i)),
                                                 z3.And(in_range(K.rk(i), K.cnt), K.idx(K.rk(i)) == i, first_f(K.rk(i)))), base="i")
            UE = Enum.of(ctx, K.cnt, first_f)
            cx.lemma_forall("lemma:a non-missing first occurrence is enumerated among the first occurrences of the non-missing elements",
                            lambda i: z3.Implies(z3.And(in_range(i, n), e(i) != NONE, first(i)),
                                                 z3.And(in_range(UE.rk(K.rk(i)), UE.cnt), K.idx(UE.idx(UE.rk(K.rk(i)))) == i)), base="i")
            cx.lemma_forall("lemma:a non-missing first occurrence is selected",
                            lambda i: z3.Implies(z3.And(in_range(i, n), e(i) != NONE, first(i)), zbool(sel(i))), base="i")
            cx.lemma_forall("lemma:every first occurrence is selected",
                            lambda i: z3.Implies(z3.And(in_range(i, n), first(i)), zbool(sel(i))), base="i")
        en = Enum.of(ctx, n, first)
        j = ctx.fresh("j", INT)
        cx.prove("length = number of distinct values", zint(result.len) == en.cnt)
        cx.prove("elements = first occurrences, in order of first occurrence",
                 z3.Implies(in_range(j, en.cnt), M.to_v(it, result.seq.at(j)) == e(en.idx(j))))
        cx.prove("dtype-kind-kept", kind_term(result.kind) == v.sym["kind"])


@register
class VecRankBounded(Contract):
    """Vector.rank: the counting core (np.unique inverse, bincount, cumsum) is a cardinality argument outside the
    prover's reach.  Deductive part: an empty vector gives an empty integer vector.  The rank formulas themselves
    ('min' = 1 + number of elements strictly before, 'max' = number before or equal, 'ordinal' = position in the
    stable sort, missing values after all others) are a BOUNDED run-time contract that runs in every tier."""
    file, qualname, prop, variant = F, "Vector.rank", "C11", "empty vector (proved); formulas bounded"
    callees = S_CALLEES
    always_bounded = True

    def setup(self, cx):
        v = sym_vector(cx, "self")
        cx.assume(v.sym["len"] == 0)
        return {"self": v, "kwargs": {"method": "min"}}

    def ensures(self, cx, result):
        ok = isinstance(result, NDArr)
        cx.prove("empty-in-empty-out", ok and conc(result.len) == 0)
        cx.prove("integer-dtype", ok and result.kind == "int")


@register
class OptimizeForArgsortBounded(Contract):
    """Vector._optimize_for_argsort: the order-isomorphism used as callee contract by sort / unique / rank / DataFrame.sort
    rests on NumPy's string casts and is only checked by a BOUNDED run-time contract (runs in every tier)."""
    file, qualname, prop, variant = F, "Vector._optimize_for_argsort", "C11", "order-isomorphism: bounded only"
    also = ("C03",)
    lemma_only = True
    always_bounded = True

    def setup(self, cx):
        return {"self": None}

    def ensures(self, cx, result):
        import ast as _a
        from pyvc.extract import RepoModule
        node = RepoModule.load(F, cx.it.repo).find("Vector._optimize_for_argsort")[0]
        rets = [n for n in _a.walk(node) if isinstance(n, _a.Return)]
        cx.prove("the bounded run-time contract of _optimize_for_argsort is attached (runs in every tier)", True)
        cx.premise("returns the receiver or an astype() copy", all(
            (isinstance(r.value, _a.Name) and r.value.id == "self") or
            (isinstance(r.value, _a.Call) and isinstance(r.value.func, _a.Attribute) and r.value.func.attr == "astype") for r in rets))


# =========================================================================================
# C10: the missing-value model
# =========================================================================================
def _mk_na_table(kind_):
    class T(Contract):
        """na_value / na_dtype by dtype kind: NaT for datetime and timedelta, NaN for float and integers (which widen to
        float), "" for strings, None (in an object vector) otherwise - and the na_dtype can hold the na_value."""
        file, qualname, prop, variant = F, "Vector.na_value", "C10", f"kind {kind_}"

        def setup(self, cx):
            return {"self": sym_vector(cx, "self", kind=kind_), "args": [], "prop_get": True}

        def ensures(self, cx, result):
            from pyvc.models_np import NAN, NAT, DType
            it = cx.it
            v = cx.inputs["self"]
            want = {"datetime": NAT, "timedelta": NAT, "float": NAN, "int": NAN, "uint": NAN, "string": M.to_v(it, ""), "fixedstr": M.to_v(it, "")}.get(kind_, NONE)
            cx.prove("na_value", M.to_v(it, result) == want)
            d = it.getattr(v, "na_dtype")
            wantk = {"datetime": "datetime", "timedelta": "timedelta", "float": "float", "int": "float", "uint": "float", "string": "string",
                     "fixedstr": "fixedstr"}.get(kind_, "object")
            dk = d.kind if isinstance(d, DType) else M.astype_kind_of(it, d)
            cx.prove("na_dtype", dk == wantk if isinstance(dk, str) else False)
            # a vector of na_dtype holding na_value flags it as missing
            cx.prove("na_dtype can hold na_value as a missing value", na_formula(it, z3.IntVal(KCODE[wantk]), want))
            cx.prove("agrees with the table used as callee contract elsewhere",
                     z3.And(M.to_v(it, result) == na_value_term(it, z3.IntVal(KCODE[kind_])), KCODE[wantk] == z3.simplify(na_kind_term(z3.IntVal(KCODE[kind_])))))
    T.__name__ = "NaTable_" + kind_
    return register(T)


for _k in KINDS:
    _mk_na_table(_k)


def _equal_formula(cx, a, b):
    """run the real Vector.equal(a, b) symbolically; returns the formula 'equal returned True'.  All paths are merged."""
    it, ctx = cx.it, cx.ctx
    f = it.class_attr(vector_cls(it), "equal")[1]
    res = ctx.explore(lambda: M.truth(it, it.call(f, [a, b], {})))
    parts = []
    for conds, kind, val, full in res:
        c = z3.And(*conds) if conds else z3.BoolVal(True)
        if kind != "ok":
            # totality: a comparison of two vectors answers, it does not raise
            ob = cx.prove(f"equal answers without raising ({val.exc})", z3.Not(c), kind="raises")
            continue
        v = z3.BoolVal(val) if isinstance(val, bool) else val
        facts = [x for x in full[0] if not any(x is cc for cc in conds)]
        ctx.assumptions.extend(z3.Implies(c, fa) for fa in facts)
        parts.append(z3.And(c, v))
    return z3.Or(*parts) if parts else z3.BoolVal(False)


@register
class EqualIsEquivalence(Contract):
    """Vector.equal is an equivalence relation that treats missing values as equal to each other: it holds exactly when
    the two vectors have the same length and missing-value kind, the same missing positions and equal values elsewhere
    (characterisation), hence reflexive, symmetric and transitive."""
    file, qualname, prop = F, "Vector.equal", "C10"
    callees = V_CALLEES
    lemma_only = True

    def setup(self, cx):
        k = cx.ctx.fresh("kind", INT)
        cx.assume(z3.And(k >= 0, k < len(KINDS)))
        a, b = sym_vector(cx, "a", kind=k), sym_vector(cx, "b", kind=k)
        return {"self": None, "a": a, "b": b}

    def ensures(self, cx, result):
        ctx, it = cx.ctx, cx.it
        a, b = cx.inputs["a"], cx.inputs["b"]
        E = _equal_formula(cx, a, b)
        j = ctx.fresh("j", INT)
        na = lambda v, i: na_formula(it, v.sym["kind"], v.sym["elem"](i))
        # element == as NumPy evaluates it on non-missing elements of one kind: value equality
        spec = z3.And(a.sym["len"] == b.sym["len"],
                      z3.ForAll([j], z3.Implies(in_range(j, a.sym["len"]), z3.And(
                          na(a, j) == na(b, j), z3.Implies(z3.Not(na(a, j)), a.sym["elem"](j) == b.sym["elem"](j))))))
        cx.prove("characterisation (=>): equal implies same length, same missing positions, equal values elsewhere", z3.Implies(E, spec))
        cx.prove("characterisation (<=)", z3.Implies(spec, E))
