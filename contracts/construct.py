# -*- coding: utf-8 -*-
"""C10: Vector construction from Python values - the pure-Python part (type collection, choice of the missing value,
substitution at exactly the missing positions, dtype upcasts).  NumPy's own inference of a dtype for a Python list is
outside the contracts (assumed through the _np_array callee contract); the end-to-end statement is covered by the bounded
driver of Vector.__new__ (labelled bounded)."""
import z3

from pyvc.contract import Contract, register
from pyvc.core import V, INT, BOOL, NONE, Seq, in_range, Unsupported, zbool
from pyvc import models as M
from pyvc.interp import MList, MSet, SSet
from pyvc.models_np import is_nan

U = "dataiter/util.py"
F = "dataiter/vector.py"


def sym_pylist(cx, name):
    ctx = cx.ctx
    n = ctx.fresh(name + "_len", INT)
    at = ctx.fresh_fn(name + "_at", INT, V)
    cx.assume(n >= 0)
    s = Seq(n, lambda i: at(i), V, note=name)
    return MList(ctx, s), s


def missing_in(it, x):
    """the property's notion of a missing input value: None, or a float that is NaN"""
    isf = M._isinstance(it, [x, it.builtins["float"]], {})
    return z3.Or(x == NONE, z3.And(zbool(isf), is_nan(x)))


@register
class UniqueTypes(Contract):
    """unique_types(seq) is exactly the set of classes of the non-missing values (None and float NaN do not contribute)."""
    file, qualname, prop = U, "unique_types", "C10"

    def setup(self, cx):
        lst, s = sym_pylist(cx, "seq")
        self.s = s
        return {"self": None, "args": [lst]}

    def ensures(self, cx, result):
        it, ctx, s = cx.it, cx.ctx, self.s
        cx.prove("result is a set", isinstance(result, MSet))
        t = ctx.fresh("t", V)
        i = ctx.fresh("i", INT)
        mem = result.set.mem(t)
        cls = M.class_of
        cx.prove("every member is the class of some non-missing value",
                 z3.Implies(mem, z3.Exists([i], z3.And(in_range(i, s.len), cls(s.at(i)) == t, z3.Not(missing_in(it, s.at(i)))))))
        cx.prove("the class of every non-missing value is a member",
                 z3.Implies(z3.And(in_range(i, s.len), z3.Not(missing_in(it, s.at(i)))), result.set.mem(cls(s.at(i)))))


def sym_type_set(cx, name):
    mem = cx.ctx.fresh_fn(name + "_mem", V, BOOL)
    return MSet(cx.ctx, SSet(lambda x: mem(x))), mem


def tag(cx, name):
    return M.type_tag(cx.ctx, name)


def na_choice_spec(cx, mem):
    """The missing value for a set of classes, from the property statement: nothing known -> None; strings -> ''; only
    numbers -> NaN; only dates / datetimes -> NaT; otherwise None.  Returns (is_empty, has_str, all_num, all_date) formulas."""
    ctx = cx.ctx
    t = z3.Const("t!spec", V)
    strp = M._class_pred(ctx, "issubclass_str", {"str", "str_"})
    fl = M._class_pred(ctx, "issubdtype_floating", set(M.SUBDTYPE["floating"]))
    ig = M._class_pred(ctx, "issubdtype_integer", set(M.SUBDTYPE["integer"]))
    empty = z3.ForAll([t], z3.Not(mem(t)))
    has_str = z3.Exists([t], z3.And(mem(t), strp(t)))
    all_num = z3.ForAll([t], z3.Implies(mem(t), z3.Or(t == tag(cx, "float"), t == tag(cx, "int"), fl(t), ig(t))))
    all_date = z3.ForAll([t], z3.Implies(mem(t), z3.Or(t == tag(cx, "date"), t == tag(cx, "datetime"), t == tag(cx, "datetime64"))))
    return empty, has_str, all_num, all_date


def na_choice_term(cx, mem):
    from pyvc.models_np import NAN, NAT
    empty, has_str, all_num, all_date = na_choice_spec(cx, mem)
    return z3.If(empty, NONE, z3.If(has_str, cx.ctx.lit(""), z3.If(all_num, NAN, z3.If(all_date, NAT, NONE))))


@register
class StdToNpNaValue(Contract):
    """_std_to_np_na_value(types) follows the table of the property statement (see na_choice_spec)."""
    file, qualname, prop = F, "Vector._std_to_np_na_value", "C10"

    def setup(self, cx):
        ts, mem = sym_type_set(cx, "types")
        self.mem = mem
        cls = cx.it.class_obj(cx.it.repo_module(F).classes["Vector"])
        return {"self": cls, "args": [ts]}

    def ensures(self, cx, result):
        it = cx.it
        cx.prove("the missing value follows the table: none / strings / numbers / dates / other",
                 M.to_v(it, result) == na_choice_term(cx, self.mem))


# ---------------------------------------------------------------------------------------------------------------------
# Vector._std_to_np: substitution at exactly the missing positions + dtype upcasts
# ---------------------------------------------------------------------------------------------------------------------
from pyvc.models_np import NDArr, DType, KINDS, KCODE, kind_term, kind_is, NAN, NAT, astype_kind
from contracts.data_frame import na_value_term, na_kind_term


class _NpArrayCalls:
    """Callee contract of Vector._np_array (ASSUMED: this is NumPy's conversion of a Python list; nothing is known about the
    elements or - without a dtype - about the inferred dtype kind): one element per list element, kind of the dtype when
    one is given.  Ghost state: the list and dtype of every call."""
    def __init__(self, cx):
        self.cx = cx
        self.calls = []

    def __call__(self, it, args, kwargs):
        ctx = it.ctx
        args = [a for a in args if not (hasattr(a, "info") and getattr(a, "name", None) == "Vector")]   # drop cls
        obj = args[0]
        dtype = args[1] if len(args) > 1 else kwargs.get("dtype")
        s = M.as_seq(it, obj)
        if dtype is None:
            k = ctx.fresh("inferred_kind", INT)
            ctx.assume(z3.And(k >= 0, k < len(KINDS)))
            kind = k
        else:
            kind = astype_kind(it, dtype)
            if isinstance(dtype, str) and dtype.startswith("timedelta64"):
                kind = "timedelta"
            if kind is None:
                raise Unsupported(f"_np_array dtype {dtype!r}")
        elem = ctx.fresh_fn("converted", INT, V)
        out = NDArr(ctx, Seq(s.len, lambda j: elem(j), V), kind, owner="fresh", cls=None)
        self.calls.append((s, dtype, kind, out))
        return out


class _StdToNp(Contract):
    file, qualname, prop = F, "Vector._std_to_np", "C10"
    timeout_ms = 20000

    def common_setup(self, cx):
        it, ctx = cx.it, cx.ctx
        lst, s = sym_pylist(cx, "seq")
        self.s = s
        self.np_calls = _NpArrayCalls(cx)
        isf = z3.Function("isinstance_float", V, BOOL)
        cx.assume(isf(NAN))                    # np.nan is a float
        cx.assume(z3.Not(isf(NONE)))
        cx.assume(z3.Not(M.is_dict(NAN)))
        i = z3.Int("i!ut")
        t = z3.Const("t!ut", V)
        self.mem = lambda tt: z3.Exists([i], z3.And(in_range(i, s.len), M.class_of(s.at(i)) == tt, z3.Not(missing_in(it, s.at(i)))))
        memf = ctx.fresh_fn("types_mem", V, BOOL)
        cx.assume(z3.ForAll([t], memf(t) == self.mem(t), patterns=[memf(t)]))
        self.memf = memf
        self.callees = dict(self.callees)
        self.callees["unique_types"] = lambda it_, a, k: MSet(ctx, SSet(lambda x: memf(x)))        # contract UniqueTypes
        self.callees["Vector._std_to_np_na_value"] = lambda it_, a, k: na_choice_term(cx, a[-1].set.mem)   # contract StdToNpNaValue
        self.callees["Vector._np_array"] = self.np_calls
        cls = it.class_obj(it.repo_module(F).classes["Vector"])
        return cls, lst

    def final_call(self, cx, result):
        calls = self.np_calls.calls
        mine = [c for c in calls if c[3] is result]
        cx.prove("the result is what NumPy's conversion of the substituted list returned", len(mine) == 1)
        return mine[0] if mine else None

    def substitution(self, cx, L, na_at_missing):
        it, s = cx.it, self.s
        j = cx.ctx.fresh("j", INT)
        cx.prove("one list element per input value", M.zint(L.len) == s.len)
        cx.prove("non-missing values are handed to NumPy unchanged",
                 z3.Implies(z3.And(in_range(j, s.len), z3.Not(missing_in(it, s.at(j)))), L.at(j) == s.at(j)))
        cx.prove("None / NaN positions hold the missing value of the resulting type",
                 z3.Implies(z3.And(in_range(j, s.len), missing_in(it, s.at(j))), L.at(j) == na_at_missing))


def _mk_std_to_np_explicit(kind_):
    @register
    class StdToNpExplicit(_StdToNp):
        __doc__ = (f"_std_to_np(seq, dtype of kind {kind_}): the list handed to NumPy has the missing value of the dtype's kind at "
                   "exactly the None/NaN positions and the input values elsewhere; with a missing value present the dtype is upcast to "
                   "the kind that can hold it (na_dtype table: integer -> float, bool / bytes -> object), otherwise it is kept.")
        variant = f"dtype {kind_}"

        def setup(self, cx):
            cls, lst = self.common_setup(cx)
            return {"self": cls, "args": [lst, DType(kind_)]}

        def ensures(self, cx, result):
            it, s = cx.it, self.s
            call = self.final_call(cx, result)
            if call is None:
                return
            L, dtype, kind, out = call
            k0 = kind_term(kind_)
            i = z3.Int("i!e")
            some_missing = z3.Exists([i], z3.And(in_range(i, s.len), missing_in(it, s.at(i))))
            kf = kind_term(kind)
            cx.prove("with a missing value present the dtype can hold it (na_dtype table)",
                     z3.Implies(some_missing, kf == na_kind_term(k0)))
            cx.prove("without missing values the dtype is kept", z3.Implies(z3.Not(some_missing), kf == k0))
            self.substitution(cx, L, na_value_term(it, kf))
    StdToNpExplicit.__name__ = f"StdToNpExplicit_{kind_}"
    return StdToNpExplicit


for _k in KINDS:
    _mk_std_to_np_explicit(_k)


def std_to_np_object_contract(self_contract):
    """callee contract of the recursive call _std_to_np(raw, object) = contract Vector._std_to_np[dtype object]"""
    def cc(it, args, kwargs):
        args = [a for a in args if not (hasattr(a, "info") and getattr(a, "name", None) == "Vector")]
        lst, dtype = args[0], args[1]
        if not (hasattr(dtype, "name") and dtype.name == "object"):
            raise Unsupported("recursive _std_to_np with a dtype other than object")
        s = M.as_seq(it, lst)
        L = Seq(s.len, lambda j: z3.If(missing_in(it, s.at(j)), NONE, s.at(j)), V)
        return self_contract.np_calls(it, [L, dtype], {})
    return cc


@register
class StdToNpInferred(_StdToNp):
    """_std_to_np(seq) without dtype, for lists that are not NumPy scalars of one single type (that branch calls the scalar
    type; bounded only): the list handed to NumPy has, at exactly the None/NaN positions, the missing value chosen by the
    table from the classes of the other values (contract _std_to_np_na_value) - and None whenever NumPy falls back to
    object; the other values are handed over unchanged."""
    variant = "no dtype"

    def setup(self, cx):
        cls, lst = self.common_setup(cx)
        ctx = cx.ctx
        t, u = z3.Const("t!np", V), z3.Const("u!np", V)
        memf = self.memf
        cx.assume(z3.ForAll([t], z3.Not(z3.And(memf(t), M.module_of(t) == ctx.lit("numpy"),
                                               z3.ForAll([u], z3.Implies(memf(u), u == t)))), patterns=[memf(t)]))
        self.callees["Vector._std_to_np"] = std_to_np_object_contract(self)
        return {"self": cls, "args": [lst]}

    def ensures(self, cx, result):
        it = cx.it
        call = self.final_call(cx, result)
        if call is None:
            return
        L, dtype, kind, out = call
        kf = kind_term(kind)
        na = z3.If(kf == KCODE["object"], NONE, na_choice_term(cx, self.memf))
        self.substitution(cx, L, na)
        # dates and datetimes become datetime64 (whose missing value is NaT) - np.datetime64 scalars among them do not matter
        t = z3.Const("t!dd", V)
        memf = self.memf
        for name in ("date", "datetime"):
            only = z3.And(memf(tag(cx, name)), z3.ForAll([t], z3.Implies(memf(t), z3.Or(t == tag(cx, name), t == tag(cx, "datetime64")))))
            cx.prove(f"a list of {name} values (and np.datetime64 scalars) is converted to a datetime64 dtype",
                     z3.Implies(only, kf == KCODE["datetime"]))


@register
class VectorNew(Contract):
    """Vector(list, dtype) is the Vector view of _std_to_np(list, dtype) (whose contracts carry the substitution and upcast
    rules); a NumPy array goes to _np_array unchanged.  The end-to-end statement of C10 (is_na flags exactly the None/NaN
    positions, tolist gives the original values back, Vector(v.tolist(), v.dtype) equals v) depends on NumPy's conversion of the
    list and is covered by the bounded driver of this contract (labelled bounded)."""
    file, qualname, prop = F, "Vector.__new__", "C10"
    always_bounded = True
    cases = {"no dtype": lambda cx, inp: z3.BoolVal(True), "explicit dtype": lambda cx, inp: z3.BoolVal(True)}

    def setup(self, cx):
        it, ctx = cx.it, cx.ctx
        lst, s = sym_pylist(cx, "object")
        self.calls = []

        def std(it_, args, kwargs):
            args = [a for a in args if not (hasattr(a, "info") and getattr(a, "name", None) == "Vector")]
            src = M.as_seq(it_, args[0])
            k = ctx.fresh("result_kind", INT)
            ctx.assume(z3.And(k >= 0, k < len(KINDS)))
            elem = ctx.fresh_fn("converted", INT, V)
            out = NDArr(ctx, Seq(src.len, lambda j: elem(j), V), k, owner="fresh", cls=None)
            self.calls.append((args[0], args[1] if len(args) > 1 else kwargs.get("dtype"), out))
            return out
        self.callees = {"Vector._std_to_np": std}
        cls = it.class_obj(it.repo_module(F).classes["Vector"])
        self.lst = lst
        if cx.case == "no dtype":
            self.dtype = None
            return {"self": None, "args": [cls, lst]}
        k = ctx.fresh("kind", INT)
        cx.assume(z3.And(k >= 0, k < len(KINDS)))
        self.dtype = DType(k)
        return {"self": None, "args": [cls, lst, self.dtype]}

    def ensures(self, cx, result):
        ok = isinstance(result, NDArr) and result.cls is not None and result.cls.name == "Vector"
        cx.prove("the result is a Vector", ok)
        cx.prove("exactly one conversion by _std_to_np", len(self.calls) == 1)
        if not ok or len(self.calls) != 1:
            return
        src, dtype, out = self.calls[0]
        cx.prove("the list is handed to _std_to_np as given", src is self.lst)
        cx.prove("the dtype is handed to _std_to_np as given", dtype is self.dtype)
        j = cx.ctx.fresh("j", INT)
        cx.prove("the result is a view of the converted array: same length", M.zint(result.len) == M.zint(out.len))
        cx.prove("the result is a view of the converted array: same elements",
                 z3.Implies(in_range(j, out.len), result.seq.at(j) == out.seq.at(j)))
        cx.prove("the result is a view of the converted array: same dtype kind", kind_term(result.kind) == kind_term(out.kind))
