# -*- coding: utf-8 -*-
"""Contracts for dataiter/data_frame.py (C01-C06, C09)."""
import z3
from pyvc.contract import Contract, register, LoopSpec
from pyvc.core import (INT, BOOL, V, NONE, ABSENT, Seq, seq_eq, filter_seq, Enum, zint, zbool, in_range, conc,
                       is_str, Unsupported, PyRaise)
from pyvc.interp import Instance, ClassObj
from pyvc import models as M
from pyvc.models_np import NDArr, KINDS, KCODE, kind_is, kind_term, ghost, is_nan, is_nat
from pyvc.models_dict import OMap, Family, Entry
from pyvc.loops import merge

F = "dataiter/data_frame.py"


def df_classes(it):
    mod = it.repo_module(F)
    return it.class_obj(mod.classes["DataFrame"]), it.class_obj(mod.classes["DataFrameColumn"])


def sym_frame(cx, name, nrow=None):
    """An arbitrary well-formed data frame: symbolic number of columns with distinct string names, every
    column a DataFrameColumn of length nrow with arbitrary dtype kind and arbitrary elements; its buffers
    are owned by input `name`."""
    ctx, it = cx.ctx, cx.it
    DF, DFC = df_classes(it)
    ncol = ctx.fresh(name + "_ncol", INT)
    if nrow is None:
        nrow = ctx.fresh(name + "_nrow", INT)
        ctx.assume(nrow >= 0)
    ctx.assume(ncol >= 0)
    ctx.assume(z3.Implies(ncol == 0, zint(nrow) == 0))      # a frame without columns has no rows
    name_at = ctx.fresh_fn(name + "_colname", INT, V)
    elem = ctx.fresh_fn(name + "_elem", INT, INT, V)
    kindf = ctx.fresh_fn(name + "_kind", INT, INT)
    c = z3.Int("c!fr")
    ctx.assumptions.append(z3.ForAll([c], z3.And(is_str(name_at(c)), name_at(c) != NONE, name_at(c) != ABSENT,
                                                 kindf(c) >= 0, kindf(c) < len(KINDS)), patterns=[name_at(c)]))
    ctx.assumptions.append(z3.ForAll([c], z3.And(kindf(c) >= 0, kindf(c) < len(KINDS)), patterns=[kindf(c)]))

    def col(cc):
        return NDArr(ctx, Seq(nrow, lambda j, cc=cc: elem(cc, j), V), kindf(cc), owner=name, cls=DFC)
    fam = Family(ctx, ncol, lambda cc: name_at(cc), col, name=name)
    obj = Instance(ctx, DF, base=OMap([fam]))
    obj.attrs["_group_colnames"] = ()
    obj.sym = {"ncol": ncol, "nrow": nrow, "name_at": name_at, "elem": elem, "kind": kindf, "family": fam, "name": name}
    return obj


def df_init_contract(it, args, kwargs):
    """Callee contract of DataFrame.__init__ (proved for the real constructor under C01): given columns
    with pairwise distinct names and equal lengths, the frame holds exactly those columns in that order;
    a value that already is a DataFrameColumn is stored as is, any other array is copied into a new one."""
    from pyvc.models_dict import _d_init
    ctx = it.ctx
    obj = args[0]
    _d_init(it, list(args), dict(kwargs))
    DF, DFC = df_classes(it)
    om = obj.base

    def conv(v):
        if isinstance(v, NDArr):
            if v.cls is DFC:
                return v
            s = v.seq
            return NDArr(ctx, Seq(s.len, s.at, s.sort), v.kind, "fresh", DFC)
        raise Unsupported(f"DataFrame column value {v!r}")
    # common length
    L = None
    c = z3.Int("c!init")
    for sg in om.segs:
        if isinstance(sg, Entry):
            v = conv(sg.value)
            if L is None:
                L = v.len
            else:
                ctx.prove("pre:DataFrame():columns-have-equal-length", zint(v.len) == zint(L), kind="pre")
        else:
            if L is None:
                probe = conv(sg.val_at(z3.IntVal(0)))
                L = conc(z3.If(zint(sg.n) > 0, zint(probe.len), 0)) if len(om.segs) == 1 else None
                if L is None:
                    L = ctx.fresh("nrow_new", INT)
                    ctx.assumptions.append(z3.Implies(zint(sg.n) > 0, L == zint(probe.len)))
            ctx.prove("pre:DataFrame():columns-have-equal-length",
                      z3.ForAll([c], z3.Implies(in_range(c, sg.n), zint(conv(sg.val_at(c)).len) == zint(L))), kind="pre")
    segs = []
    for sg in om.segs:
        if isinstance(sg, Entry):
            segs.append(Entry(sg.key, conv(sg.value), sg.key_py))
        else:
            nf = Family.__new__(Family)
            nf.n, nf.key_at, nf.pos = sg.n, sg.key_at, sg.pos
            nf.val_at = (lambda s: lambda cc: conv(s.val_at(cc)))(sg)
            segs.append(nf)
    obj.base = OMap(segs)
    obj.attrs["_group_colnames"] = ()
    obj.nrow_term = L if L is not None else 0
    return None


def df_check_dimensions_contract(it, args, kwargs):
    return None


def df_nrow_contract(it, args, kwargs):
    """Callee contract of the DataFrame.nrow property for well-formed frames (C01 invariant)."""
    obj = args[0]
    if hasattr(obj, "sym"):
        om = obj.base
        return conc(z3.If(zint(om.length()) > 0, zint(obj.sym["nrow"]), 0))
    if hasattr(obj, "nrow_term"):
        return obj.nrow_term
    raise Unsupported("nrow of an unknown frame")


DF_CALLEES = {"DataFrame.__init__": df_init_contract, "DataFrame._check_dimensions": df_check_dimensions_contract}


def flat(cx, inst):
    """(ncol, name_at(c), col_at(c)) over all segments of a frame's dict part."""
    om = inst.base
    if not isinstance(om, OMap):
        raise Unsupported("result is not a data frame")
    n = om.length()
    segs = om.segs

    def pick(c, what):
        off = 0
        items = []
        for sg in segs:
            if isinstance(sg, Entry):
                v = sg.key if what == "key" else sg.value
                items.append((zint(c) == zint(off), v))
                off = M.add(off, 1)
            else:
                o = off
                v = sg.key_at(zint(c) - zint(o)) if what == "key" else sg.val_at(zint(c) - zint(o))
                items.append((z3.And(zint(c) >= zint(o), zint(c) < zint(o) + zint(sg.n)), v))
                off = M.add(off, sg.n)
        if not items:
            # frame without columns: never indexed (callers guard with 0 <= c < ncol == 0)
            return NONE if what == "key" else NDArr(cx.ctx, Seq(0, lambda j: NONE, V), "object", "fresh", df_classes(cx.it)[1])
        val = items[-1][1]
        for cnd, v in reversed(items[:-1]):
            val = merge(cnd, v, val)
        return val
    return n, (lambda c: pick(c, "key")), (lambda c: pick(c, "val"))


def is_frame(result):
    return isinstance(result, Instance) and result.cls.name in ("DataFrame", "GeoJSON")


def rows_of(cx, result, self_, r, what="rows"):
    """The result consists of whole input rows: same column names in the same order, and ONE index
    vector r shared by all columns with result[c][j] == self[c][r[j]]; columns are new buffers."""
    ctx = cx.ctx
    cx.prove("result-is-DataFrame", is_frame(result))
    if not is_frame(result):
        return
    sym = self_.sym
    n, name_at, col_at = flat(cx, result)
    cx.prove(f"{what}:same-number-of-columns", zint(n) == sym["ncol"])
    c = ctx.fresh("c", INT)
    j = ctx.fresh("j", INT)
    rng = in_range(c, sym["ncol"])
    cx.prove(f"{what}:same-column-names-in-order", z3.Implies(rng, name_at(c) == sym["name_at"](c)))
    ctx.assume(rng)
    col = col_at(c)
    cx.prove(f"{what}:column-length=len(r)", zint(col.len) == zint(r.len))
    cx.prove(f"{what}:result[c][j]==self[c][r[j]]",
             z3.Implies(in_range(j, r.len), M.to_v(cx.it, col.seq.at(j)) == sym["elem"](c, r.at(j))))
    cx.prove(f"{what}:dtype-kind-kept", kind_term(col.kind) == sym["kind"](c))
    cx.prove("fresh:result-columns-are-new-buffers", col.root().owner == "fresh")
    cx.prove("result-columns-are-DataFrameColumns", col.cls is not None and col.cls.name == "DataFrameColumn")
    cx.prove("frame:no-write-into-input-buffers", not ghost(ctx)["input_writes"])
    cx.prove("frame:receiver-grouping-untouched", self_.attrs.get("_group_colnames") == ())


def enumerates(cx, r, n, pred, what):
    """r is the increasing enumeration of {i in [0,n) | pred(i)}"""
    ctx = cx.ctx
    j, j2, i = ctx.fresh("j", INT), ctx.fresh("j2", INT), ctx.fresh("i", INT)
    cx.prove(f"{what}:only-selected-rows", z3.Implies(in_range(j, r.len), z3.And(in_range(r.at(j), n), pred(r.at(j)))))
    cx.prove(f"{what}:order-kept", z3.Implies(z3.And(in_range(j, r.len), in_range(j2, r.len), j < j2), r.at(j) < r.at(j2)))
    e = Enum.of(ctx, n, pred)
    cx.prove(f"{what}:every-selected-row-kept", z3.Implies(z3.And(in_range(i, n), pred(i)),
                                                           z3.And(in_range(e.rk(i), r.len), r.at(e.rk(i)) == i)))


class _DF(Contract):
    file = F
    callees = DF_CALLEES


def bool_mask(cx, name, n):
    f = cx.ctx.fresh_fn(name, INT, BOOL)
    DF, DFC = df_classes(cx.it)
    vec = cx.it.class_obj(cx.it.repo_module("dataiter/vector.py").classes["Vector"])
    return NDArr(cx.ctx, Seq(n, lambda j: f(j), BOOL), "bool", owner=name, cls=vec), f


class _Filter(_DF):
    prop = "C02"
    negate = False

    def ensures(self, cx, result):
        self_ = cx.inputs["self"]
        pred = cx.inputs["pred"]
        n = self_.sym["nrow"]
        p = (lambda i: z3.Not(pred(i))) if self.negate else pred
        e = Enum.of(cx.ctx, n, p)
        r = Seq(e.cnt, lambda j: e.idx(j), INT)
        rows_of(cx, result, self_, r)
        enumerates(cx, r, n, p, "filter")


@register
class FilterMask(_Filter):
    qualname, variant = "DataFrame.filter", "boolean mask"

    def setup(self, cx):
        self_ = sym_frame(cx, "self")
        mask, f = bool_mask(cx, "rows", self_.sym["nrow"])
        return {"self": self_, "args": [mask], "pred": lambda i: f(i)}


@register
class FilterOutMask(_Filter):
    qualname, variant, negate = "DataFrame.filter_out", "boolean mask", True

    def setup(self, cx):
        self_ = sym_frame(cx, "self")
        mask, f = bool_mask(cx, "rows", self_.sym["nrow"])
        return {"self": self_, "args": [mask], "pred": lambda i: f(i)}


class FrameCallback:
    """callable(frame) -> boolean mask: an arbitrary function of the frame (uninterpreted per row)."""
    def __init__(self, cx, name, n):
        self.mask, self.f = bool_mask(cx, name, n)
        self.calls = []

    def pyvc_call(self, it, args, kwargs):
        self.calls.append(args)
        return self.mask


@register
class FilterCallableDF(_Filter):
    qualname, variant = "DataFrame.filter", "callable"

    def setup(self, cx):
        self_ = sym_frame(cx, "self")
        cb = FrameCallback(cx, "fmask", self_.sym["nrow"])
        cx.cb = cb
        return {"self": self_, "args": [cb], "pred": lambda i: cb.f(i)}

    def ensures(self, cx, result):
        cx.prove("callable-applied-to-receiver", len(cx.cb.calls) == 1 and cx.cb.calls[0][0] is cx.inputs["self"])
        super().ensures(cx, result)


def named_column(cx, self_, name):
    """Precondition: the frame has a column called `name`; returns its position term."""
    fam = self_.sym["family"]
    kv = M.to_v(cx.it, name)
    cx.assume(fam.has(kv))
    return fam.pos(kv)


def elem_equals(self_, p, i, v):
    """self[col p][i] == v as NumPy compares (NaN/NaT unequal to everything)"""
    x = self_.sym["elem"](p, i)
    return z3.And(x == v, z3.Not(is_nan(x)), z3.Not(is_nat(x)))


class _FilterKVDF(_Filter):
    def setup(self, cx):
        self_ = sym_frame(cx, "self")
        p = named_column(cx, self_, "k1")
        v = cx.val("v1")
        return {"self": self_, "kwargs": {"k1": v}, "pred": lambda i: elem_equals(self_, p, i, v)}


@register
class FilterKVDF(_FilterKVDF):
    qualname, variant = "DataFrame.filter", "column=value"


@register
class FilterOutKVDF(_FilterKVDF):
    qualname, variant, negate = "DataFrame.filter_out", "column=value", True


class _FilterKV2DF(_Filter):
    def setup(self, cx):
        self_ = sym_frame(cx, "self")
        p1 = named_column(cx, self_, "k1")
        p2 = named_column(cx, self_, "k2")
        v1, v2 = cx.val("v1"), cx.val("v2")
        return {"self": self_, "kwargs": {"k1": v1, "k2": v2},
                "pred": lambda i: z3.And(elem_equals(self_, p1, i, v1), elem_equals(self_, p2, i, v2))}


@register
class FilterKV2DF(_FilterKV2DF):
    qualname, variant = "DataFrame.filter", "two column=value pairs"


@register
class FilterOutKV2DF(_FilterKV2DF):
    qualname, variant, negate = "DataFrame.filter_out", "two column=value pairs", True


def int_index(cx, name, n_rows):
    """arbitrary integer index vector with entries in [-n_rows, n_rows)"""
    ctx = cx.ctx
    m = ctx.fresh(name + "_len", INT)
    f = ctx.fresh_fn(name + "_at", INT, INT)
    j = z3.Int("j!ii")
    ctx.assume(m >= 0)
    ctx.assumptions.append(z3.ForAll([j], z3.Implies(in_range(j, m), z3.And(f(j) >= -zint(n_rows), f(j) < zint(n_rows))),
                                     patterns=[f(j)]))
    return NDArr(ctx, Seq(m, lambda jj: f(jj), INT), "int", owner=name), f, m


@register
class SliceRows(_DF):
    """slice(rows): exactly the given positions, in the given order (negative positions count from the end)"""
    qualname, prop, variant = "DataFrame.slice", "C02", "rows"

    def setup(self, cx):
        self_ = sym_frame(cx, "self")
        rows, f, m = int_index(cx, "rows", self_.sym["nrow"])
        return {"self": self_, "args": [rows], "f": f, "m": m}

    def ensures(self, cx, result):
        self_ = cx.inputs["self"]
        f, m, n = cx.inputs["f"], cx.inputs["m"], self_.sym["nrow"]
        r = Seq(m, lambda j: z3.If(f(j) < 0, f(j) + zint(n), f(j)), INT)
        rows_of(cx, result, self_, r)


@register
class SliceOffRows(_DF):
    """slice_off(rows): exactly the rows at the given positions are dropped, the others keep their order"""
    qualname, prop, variant = "DataFrame.slice_off", "C02", "rows"

    def setup(self, cx):
        self_ = sym_frame(cx, "self")
        rows, f, m = int_index(cx, "rows", self_.sym["nrow"])
        return {"self": self_, "args": [rows], "f": f, "m": m}

    def ensures(self, cx, result):
        self_ = cx.inputs["self"]
        f, m, n = cx.inputs["f"], cx.inputs["m"], self_.sym["nrow"]
        from pyvc.models_np import dropped_pred
        dropped = dropped_pred(Seq(m, lambda t: f(t), INT), n)      # i is one of the given positions (negatives wrapped)
        keep = lambda i: z3.Not(dropped(i))
        e = Enum.of(cx.ctx, n, keep)
        r = Seq(e.cnt, lambda j: e.idx(j), INT)
        rows_of(cx, result, self_, r)
        enumerates(cx, r, n, keep, "slice_off")


class _HeadTailDF(_DF):
    prop = "C02"
    tail = False

    def setup(self, cx):
        self_ = sym_frame(cx, "self")
        n = cx.int("n")
        cx.assume(n >= 0)
        return {"self": self_, "args": [n], "n": n}

    def ensures(self, cx, result):
        self_ = cx.inputs["self"]
        n, nrow = cx.inputs["n"], self_.sym["nrow"]
        m = z3.If(n <= zint(nrow), n, zint(nrow))
        if self.tail:
            r = Seq(conc(m), lambda j: zint(nrow) - m + j, INT)
        else:
            r = Seq(conc(m), lambda j: j, INT)
        rows_of(cx, result, self_, r)


@register
class HeadDF(_HeadTailDF):
    qualname = "DataFrame.head"


@register
class TailDF(_HeadTailDF):
    qualname, tail = "DataFrame.tail", True
