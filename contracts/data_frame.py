# -*- coding: utf-8 -*-
"""Contracts for dataiter/data_frame.py (C01-C06, C09)."""
import z3
from pyvc.contract import Contract, register, LoopSpec
from pyvc.core import (INT, BOOL, V, NONE, ABSENT, Seq, seq_eq, filter_seq, Enum, zint, zbool, in_range, conc,
                       is_str, Unsupported, PyRaise)
from pyvc.interp import Instance, ClassObj
from pyvc import models as M
from pyvc.models_np import NDArr, KINDS, KCODE, kind_is, kind_term, ghost, is_nan, is_nat, no_input_writes
from pyvc.models_dict import OMap, Family, Entry
from pyvc.loops import merge

F = "dataiter/data_frame.py"


def df_classes(it):
    mod = it.repo_module(F)
    return it.class_obj(mod.classes["DataFrame"]), it.class_obj(mod.classes["DataFrameColumn"])


def sym_frame(cx, name, nrow=None):
    """An arbitrary well-formed data frame: symbolic number of columns with distinct string names, every
    column a DataFrameColumn of length nrow with arbitrary dtype kind and arbitrary elements; its buffers
    are owned by input `name`."""
    ctx, it = cx.ctx, cx.it
    DF, DFC = df_classes(it)
    ncol = ctx.fresh(name + "_ncol", INT)
    if nrow is None:
        nrow = ctx.fresh(name + "_nrow", INT)
        ctx.assume(nrow >= 0)
    ctx.assume(ncol >= 0)
    ctx.assume(z3.Implies(ncol == 0, zint(nrow) == 0))      # a frame without columns has no rows
    name_at = ctx.fresh_fn(name + "_colname", INT, V)
    elem = ctx.fresh_fn(name + "_elem", INT, INT, V)
    kindf = ctx.fresh_fn(name + "_kind", INT, INT)
    c = z3.Int("c!fr")
    ctx.assumptions.append(z3.ForAll([c], z3.And(is_str(name_at(c)), name_at(c) != NONE, name_at(c) != ABSENT,
                                                 kindf(c) >= 0, kindf(c) < len(KINDS)), patterns=[name_at(c)]))
    ctx.assumptions.append(z3.ForAll([c], z3.And(kindf(c) >= 0, kindf(c) < len(KINDS)), patterns=[kindf(c)]))

    def col(cc):
        return NDArr(ctx, Seq(nrow, lambda j, cc=cc: elem(cc, j), V), kindf(cc), owner=name, cls=DFC)
    fam = Family(ctx, ncol, lambda cc: name_at(cc), col, name=name)
    obj = Instance(ctx, DF, base=OMap([fam]))
    obj.attrs["_group_colnames"] = ()
    obj.sym = {"ncol": ncol, "nrow": nrow, "name_at": name_at, "elem": elem, "kind": kindf, "family": fam, "name": name}
    return obj


def df_init_contract(it, args, kwargs):
    """Callee contract of DataFrame.__init__ (proved for the real constructor under C01): given columns
    with pairwise distinct names and equal lengths, the frame holds exactly those columns in that order;
    a value that already is a DataFrameColumn is stored as is, any other array is copied into a new one."""
    from pyvc.models_dict import _d_init
    ctx = it.ctx
    obj = args[0]
    _d_init(it, list(args), dict(kwargs))
    DF, DFC = df_classes(it)
    om = obj.base

    def conv(v):
        if isinstance(v, NDArr):
            if v.cls is DFC:
                return v
            s = v.seq
            return NDArr(ctx, Seq(s.len, s.at, s.sort), v.kind, "fresh", DFC)
        raise Unsupported(f"DataFrame column value {v!r}")
    # common length: the length of the first column there is (0 for a frame without columns)
    c = z3.Int("c!init")
    L = z3.IntVal(0)
    for sg in reversed(om.segs):
        if isinstance(sg, Entry):
            L = zint(conv(sg.value).len)
        else:
            L = z3.If(zint(sg.n) > 0, zint(conv(sg.val_at(z3.IntVal(0))).len), L)
    L = conc(L)
    for sg in om.segs:
        if isinstance(sg, Entry):
            ctx.prove("pre:DataFrame():columns-have-equal-length", zint(conv(sg.value).len) == zint(L), kind="pre")
        else:
            ctx.prove("pre:DataFrame():columns-have-equal-length",
                      z3.ForAll([c], z3.Implies(in_range(c, sg.n), zint(conv(sg.val_at(c)).len) == zint(L))), kind="pre")
    segs = []
    for sg in om.segs:
        if isinstance(sg, Entry):
            segs.append(Entry(sg.key, conv(sg.value), sg.key_py))
        else:
            nf = Family.__new__(Family)
            nf.n, nf.key_at, nf.pos = sg.n, sg.key_at, sg.pos
            nf.val_at = (lambda s: lambda cc: conv(s.val_at(cc)))(sg)
            segs.append(nf)
    obj.base = OMap(segs)
    obj.attrs["_group_colnames"] = ()
    obj.nrow_term = L if L is not None else 0
    return None


def df_check_dimensions_contract(it, args, kwargs):
    return None


def df_nrow_contract(it, args, kwargs):
    """Callee contract of the DataFrame.nrow property for well-formed frames (C01 invariant)."""
    obj = args[0]
    if hasattr(obj, "sym"):
        om = obj.base
        return conc(z3.If(zint(om.length()) > 0, zint(obj.sym["nrow"]), 0))
    if hasattr(obj, "nrow_term"):
        return obj.nrow_term
    raise Unsupported("nrow of an unknown frame")


def na_formula(it, kind, e):
    """element e of an array of dtype kind `kind` is missing (the property's missing-value model):
    NaT for datetime/timedelta, NaN for float, "" for strings, None otherwise."""
    k = kind_term(kind)
    empty = M.to_v(it, "")
    return z3.If(z3.Or(k == KCODE["datetime"], k == KCODE["timedelta"]), is_nat(e),
                 z3.If(k == KCODE["float"], is_nan(e),
                       z3.If(z3.Or(k == KCODE["string"], k == KCODE["fixedstr"]), e == empty, e == NONE)))


def vector_is_na_contract(it, args, kwargs):
    """Callee contract of Vector.is_na (proved for the real method under C10): a new boolean vector
    flagging exactly the missing elements."""
    a = args[0]
    s = a.seq
    if s.sort != V:
        return NDArr(it.ctx, Seq(s.len, lambda j: z3.BoolVal(False), BOOL), "bool", "fresh", a.cls)
    return NDArr(it.ctx, Seq(s.len, lambda j: na_formula(it, a.kind, s.at(j)), BOOL), "bool", "fresh", a.cls)


DF_CALLEES = {"DataFrame.__init__": df_init_contract, "DataFrame._check_dimensions": df_check_dimensions_contract,
              "Vector.is_na": vector_is_na_contract}


def flat(cx, inst):
    """(ncol, name_at(c), col_at(c)) over all segments of a frame's dict part."""
    om = inst.base
    if not isinstance(om, OMap):
        raise Unsupported("result is not a data frame")
    n = om.length()
    segs = om.segs

    def pick(c, what):
        off = 0
        items = []
        for sg in segs:
            if isinstance(sg, Entry):
                v = sg.key if what == "key" else sg.value
                items.append((zint(c) == zint(off), v))
                off = M.add(off, 1)
            else:
                o = off
                v = sg.key_at(zint(c) - zint(o)) if what == "key" else sg.val_at(zint(c) - zint(o))
                items.append((z3.And(zint(c) >= zint(o), zint(c) < zint(o) + zint(sg.n)), v))
                off = M.add(off, sg.n)
        if not items:
            # frame without columns: never indexed (callers guard with 0 <= c < ncol == 0)
            return NONE if what == "key" else NDArr(cx.ctx, Seq(0, lambda j: NONE, V), "object", "fresh", df_classes(cx.it)[1])
        val = items[-1][1]
        for cnd, v in reversed(items[:-1]):
            val = merge(cnd, v, val)
        return val
    return n, (lambda c: pick(c, "key")), (lambda c: pick(c, "val"))


def is_frame(result):
    return isinstance(result, Instance) and result.cls.name in ("DataFrame", "GeoJSON")


def rows_of(cx, result, self_, r, what="rows"):
    """The result consists of whole input rows: same column names in the same order, and ONE index
    vector r shared by all columns with result[c][j] == self[c][r[j]]; columns are new buffers."""
    ctx = cx.ctx
    cx.prove("result-is-DataFrame", is_frame(result))
    if not is_frame(result):
        return
    sym = self_.sym
    n, name_at, col_at = flat(cx, result)
    cx.prove(f"{what}:same-number-of-columns", zint(n) == sym["ncol"])
    c = ctx.fresh("c", INT)
    j = ctx.fresh("j", INT)
    rng = in_range(c, sym["ncol"])
    cx.prove(f"{what}:same-column-names-in-order", z3.Implies(rng, name_at(c) == sym["name_at"](c)))
    ctx.assume(rng)
    col = col_at(c)
    cx.prove(f"{what}:column-length=len(r)", zint(col.len) == zint(r.len))
    cx.prove(f"{what}:result[c][j]==self[c][r[j]]",
             z3.Implies(in_range(j, r.len), M.to_v(cx.it, col.seq.at(j)) == sym["elem"](c, r.at(j))))
    cx.prove(f"{what}:dtype-kind-kept", kind_term(col.kind) == sym["kind"](c))
    cx.prove("fresh:result-columns-are-new-buffers", col.freshness())
    cx.prove("result-columns-are-DataFrameColumns", col.cls is not None and col.cls.name == "DataFrameColumn")
    cx.prove("frame:no-write-into-input-buffers", no_input_writes(ctx))
    cx.prove("frame:receiver-grouping-untouched", self_.attrs.get("_group_colnames") == ())


def enumerates(cx, r, n, pred, what):
    """r is the increasing enumeration of {i in [0,n) | pred(i)}"""
    ctx = cx.ctx
    j, j2, i = ctx.fresh("j", INT), ctx.fresh("j2", INT), ctx.fresh("i", INT)
    cx.prove(f"{what}:only-selected-rows", z3.Implies(in_range(j, r.len), z3.And(in_range(r.at(j), n), pred(r.at(j)))))
    cx.prove(f"{what}:order-kept", z3.Implies(z3.And(in_range(j, r.len), in_range(j2, r.len), j < j2), r.at(j) < r.at(j2)))
    e = Enum.of(ctx, n, pred)
    cx.prove(f"{what}:every-selected-row-kept", z3.Implies(z3.And(in_range(i, n), pred(i)),
                                                           z3.And(in_range(e.rk(i), r.len), r.at(e.rk(i)) == i)))


class _DF(Contract):
    file = F
    callees = DF_CALLEES


def bool_mask(cx, name, n):
    f = cx.ctx.fresh_fn(name, INT, BOOL)
    DF, DFC = df_classes(cx.it)
    vec = cx.it.class_obj(cx.it.repo_module("dataiter/vector.py").classes["Vector"])
    return NDArr(cx.ctx, Seq(n, lambda j: f(j), BOOL), "bool", owner=name, cls=vec), f


class _Filter(_DF):
    prop = "C02"
    negate = False

    def ensures(self, cx, result):
        self_ = cx.inputs["self"]
        pred = cx.inputs["pred"]
        n = self_.sym["nrow"]
        p = (lambda i: z3.Not(pred(i))) if self.negate else pred
        e = Enum.of(cx.ctx, n, p)
        r = Seq(e.cnt, lambda j: e.idx(j), INT)
        rows_of(cx, result, self_, r)
        enumerates(cx, r, n, p, "filter")


@register
class FilterMask(_Filter):
    qualname, variant = "DataFrame.filter", "boolean mask"

    def setup(self, cx):
        self_ = sym_frame(cx, "self")
        mask, f = bool_mask(cx, "rows", self_.sym["nrow"])
        return {"self": self_, "args": [mask], "pred": lambda i: f(i)}


@register
class FilterOutMask(_Filter):
    qualname, variant, negate = "DataFrame.filter_out", "boolean mask", True

    def setup(self, cx):
        self_ = sym_frame(cx, "self")
        mask, f = bool_mask(cx, "rows", self_.sym["nrow"])
        return {"self": self_, "args": [mask], "pred": lambda i: f(i)}


class FrameCallback:
    """callable(frame) -> boolean mask: an arbitrary function of the frame (uninterpreted per row)."""
    def __init__(self, cx, name, n):
        self.mask, self.f = bool_mask(cx, name, n)
        self.calls = []

    def pyvc_call(self, it, args, kwargs):
        self.calls.append(args)
        return self.mask


@register
class FilterCallableDF(_Filter):
    qualname, variant = "DataFrame.filter", "callable"

    def setup(self, cx):
        self_ = sym_frame(cx, "self")
        cb = FrameCallback(cx, "fmask", self_.sym["nrow"])
        cx.cb = cb
        return {"self": self_, "args": [cb], "pred": lambda i: cb.f(i)}

    def ensures(self, cx, result):
        cx.prove("callable-applied-to-receiver", len(cx.cb.calls) == 1 and cx.cb.calls[0][0] is cx.inputs["self"])
        super().ensures(cx, result)


def named_column(cx, self_, name):
    """Precondition: the frame has a column called `name`; returns its position term."""
    fam = self_.sym["family"]
    kv = M.to_v(cx.it, name)
    cx.assume(fam.has(kv))
    return fam.pos(kv)


def elem_equals(self_, p, i, v):
    """self[col p][i] == v as NumPy compares (NaN/NaT unequal to everything)"""
    x = self_.sym["elem"](p, i)
    return z3.And(x == v, z3.Not(is_nan(x)), z3.Not(is_nat(x)))


class _FilterKVDF(_Filter):
    def setup(self, cx):
        self_ = sym_frame(cx, "self")
        p = named_column(cx, self_, "k1")
        v = cx.val("v1")
        return {"self": self_, "kwargs": {"k1": v}, "pred": lambda i: elem_equals(self_, p, i, v)}


@register
class FilterKVDF(_FilterKVDF):
    qualname, variant = "DataFrame.filter", "column=value"


@register
class FilterOutKVDF(_FilterKVDF):
    qualname, variant, negate = "DataFrame.filter_out", "column=value", True


class _FilterKV2DF(_Filter):
    def setup(self, cx):
        self_ = sym_frame(cx, "self")
        p1 = named_column(cx, self_, "k1")
        p2 = named_column(cx, self_, "k2")
        v1, v2 = cx.val("v1"), cx.val("v2")
        return {"self": self_, "kwargs": {"k1": v1, "k2": v2},
                "pred": lambda i: z3.And(elem_equals(self_, p1, i, v1), elem_equals(self_, p2, i, v2))}


@register
class FilterKV2DF(_FilterKV2DF):
    qualname, variant = "DataFrame.filter", "two column=value pairs"


@register
class FilterOutKV2DF(_FilterKV2DF):
    qualname, variant, negate = "DataFrame.filter_out", "two column=value pairs", True


def int_index(cx, name, n_rows):
    """arbitrary integer index vector with entries in [-n_rows, n_rows)"""
    ctx = cx.ctx
    m = ctx.fresh(name + "_len", INT)
    f = ctx.fresh_fn(name + "_at", INT, INT)
    j = z3.Int("j!ii")
    ctx.assume(m >= 0)
    ctx.assumptions.append(z3.ForAll([j], z3.Implies(in_range(j, m), z3.And(f(j) >= -zint(n_rows), f(j) < zint(n_rows))),
                                     patterns=[f(j)]))
    return NDArr(ctx, Seq(m, lambda jj: f(jj), INT), "int", owner=name), f, m


@register
class SliceRows(_DF):
    """slice(rows): exactly the given positions, in the given order (negative positions count from the end)"""
    qualname, prop, variant = "DataFrame.slice", "C02", "rows"

    def setup(self, cx):
        self_ = sym_frame(cx, "self")
        rows, f, m = int_index(cx, "rows", self_.sym["nrow"])
        return {"self": self_, "args": [rows], "f": f, "m": m}

    def ensures(self, cx, result):
        self_ = cx.inputs["self"]
        f, m, n = cx.inputs["f"], cx.inputs["m"], self_.sym["nrow"]
        r = Seq(m, lambda j: z3.If(f(j) < 0, f(j) + zint(n), f(j)), INT)
        rows_of(cx, result, self_, r)


@register
class SliceOffRows(_DF):
    """slice_off(rows): exactly the rows at the given positions are dropped, the others keep their order"""
    qualname, prop, variant = "DataFrame.slice_off", "C02", "rows"

    def setup(self, cx):
        self_ = sym_frame(cx, "self")
        rows, f, m = int_index(cx, "rows", self_.sym["nrow"])
        return {"self": self_, "args": [rows], "f": f, "m": m}

    def ensures(self, cx, result):
        self_ = cx.inputs["self"]
        f, m, n = cx.inputs["f"], cx.inputs["m"], self_.sym["nrow"]
        from pyvc.models_np import dropped_pred
        dropped = dropped_pred(Seq(m, lambda t: f(t), INT), n)      # i is one of the given positions (negatives wrapped)
        keep = lambda i: z3.Not(dropped(i))
        e = Enum.of(cx.ctx, n, keep)
        r = Seq(e.cnt, lambda j: e.idx(j), INT)
        rows_of(cx, result, self_, r)
        enumerates(cx, r, n, keep, "slice_off")


class _HeadTailDF(_DF):
    prop = "C02"
    tail = False

    def setup(self, cx):
        self_ = sym_frame(cx, "self")
        n = cx.int("n")
        cx.assume(n >= 0)
        return {"self": self_, "args": [n], "n": n}

    def ensures(self, cx, result):
        self_ = cx.inputs["self"]
        n, nrow = cx.inputs["n"], self_.sym["nrow"]
        m = z3.If(n <= zint(nrow), n, zint(nrow))
        if self.tail:
            r = Seq(conc(m), lambda j: zint(nrow) - m + j, INT)
        else:
            r = Seq(conc(m), lambda j: j, INT)
        rows_of(cx, result, self_, r)


@register
class HeadDF(_HeadTailDF):
    qualname = "DataFrame.head"


@register
class TailDF(_HeadTailDF):
    qualname, tail = "DataFrame.tail", True


def typed_elements(cx, self_):
    """Elements agree with the column's dtype kind: NaN only in float columns, NaT only in datetime /
    timedelta columns, None only in object columns (NumPy arrays are homogeneous)."""
    sym = self_.sym
    c, j = z3.Ints("c!ty j!ty")
    e = sym["elem"](c, j)
    k = sym["kind"](c)
    cx.ctx.assumptions.append(z3.ForAll([c, j], z3.And(
        z3.Implies(is_nan(e), k == KCODE["float"]),
        z3.Implies(is_nat(e), z3.Or(k == KCODE["datetime"], k == KCODE["timedelta"])),
        z3.Implies(e == NONE, k == KCODE["object"]),
        z3.Not(z3.And(is_nan(e), is_nat(e))), e != ABSENT), patterns=[e]))


def na_pred(cx, self_, p, i):
    """element i of column p is missing, per the property's missing-value model"""
    sym = self_.sym
    return na_formula(cx.it, sym["kind"](p), sym["elem"](p, i))


@register
class DropNa1(_Filter):
    """drop_na(col): exactly the rows whose value in that column is missing are dropped"""
    qualname, variant, negate = "DataFrame.drop_na", "one column", True

    def setup(self, cx):
        self_ = sym_frame(cx, "self")
        typed_elements(cx, self_)
        p = named_column(cx, self_, "k1")
        return {"self": self_, "args": ["k1"], "pred": lambda i: na_pred(cx, self_, p, i)}


@register
class DropNa2(_Filter):
    qualname, variant, negate = "DataFrame.drop_na", "two columns", True

    def setup(self, cx):
        self_ = sym_frame(cx, "self")
        typed_elements(cx, self_)
        p1, p2 = named_column(cx, self_, "k1"), named_column(cx, self_, "k2")
        return {"self": self_, "args": ["k1", "k2"], "pred": lambda i: z3.Or(na_pred(cx, self_, p1, i), na_pred(cx, self_, p2, i))}


@register
class SampleDF(_DF):
    """sample(n): min(n, nrow) distinct whole rows in their original relative order"""
    qualname, prop = "DataFrame.sample", "C02"

    def setup(self, cx):
        self_ = sym_frame(cx, "self")
        n = cx.int("n")
        cx.assume(n >= 0)
        return {"self": self_, "args": [n], "n": n}

    def ensures(self, cx, result):
        self_ = cx.inputs["self"]
        if not is_frame(result):
            cx.prove("result-is-DataFrame", False)
            return
        ncol, name_at, col_at = flat(cx, result)
        # read the index vector off the first column of the result is not possible in general; instead use the
        # ghost witness: the sorted random choice (np.sort of np.random.choice) recorded by the models
        r = cx.it.__dict__.get("last_sorted_choice")
        cx.prove("witness-available", r is not None)
        if r is None:
            return
        n, nrow = cx.inputs["n"], self_.sym["nrow"]
        rows_of(cx, result, self_, r)
        j, j2 = cx.ctx.fresh("j", INT), cx.ctx.fresh("j2", INT)
        cx.prove("sample:size=min(n,nrow)", zint(r.len) == z3.If(n <= zint(nrow), n, zint(nrow)))
        cx.prove("sample:rows-in-range", z3.Implies(in_range(j, r.len), in_range(r.at(j), nrow)))
        cx.prove("sample:distinct-and-in-original-order",
                 z3.Implies(z3.And(in_range(j, r.len), in_range(j2, r.len), j < j2), r.at(j) < r.at(j2)))


# ---- unique ---------------------------------------------------------------------------------------
def key_value(cx, self_, p, i):
    """value of key column p at row i as unique() compares it: every missing value counts as None"""
    sym = self_.sym
    e = sym["elem"](p, i)
    return z3.If(na_formula(cx.it, sym["kind"](p), e), NONE, e)


def unique_spec(cx, self_, ps):
    """row i is the first row with its key combination (missing values equal each other and nothing else)"""
    q = z3.Int("q!u")

    def same_key(a, b):
        return z3.And(*[key_value(cx, self_, p, a) == key_value(cx, self_, p, b) for p in ps])

    def first(i):
        return z3.Not(z3.Exists([q], z3.And(0 <= q, q < i, same_key(q, i))))
    return first, same_key


def int_at(seq, j):
    s = M.unstructure(seq)
    if s.sort == INT:
        return s.at(j)
    from pyvc.core import intof
    return intof(s.at(j))


def make_unique_inv(holder):
    def inv(S):
        """seen == {key(q) | q < i};  keep == the first-occurrence rows below i, in order"""
        cx, self_, ps = holder["cx"], holder["self"], holder["ps"]
        ctx = S.ctx
        first, same_key = unique_spec(cx, self_, ps)
        n = self_.sym["nrow"]
        e = Enum.of(ctx, n, first)
        holder["enum"] = e
        ctx.assumptions.append(e.unfold(S.k))
        seen = S.contents(S.var("seen"))
        keep = S.contents(S.var("keep"))
        # the key of row q as the specification sees it (a tuple of the key columns' values, missing ones as None) - not the
        # code's own list of rows, whose name and construction are free to change
        row_key = lambda q_: M.mk_tuple(ctx, [key_value(cx, self_, p, q_) for p in ps])
        x = z3.Const("x!inv", V)
        q, j = z3.Int("q!inv"), z3.Int("j!inv")
        return {"seen": z3.ForAll([x], seen.mem(x) == z3.Exists([q], z3.And(0 <= q, q < S.k, row_key(q) == x))),
                "keep-length": zint(keep.len) == e.cb(S.k),
                "keep-elements": z3.ForAll([j], z3.Implies(z3.And(0 <= j, j < zint(keep.len)), int_at(keep, j) == e.idx(j)))}
    return inv


class _UniqueDF(_DF):
    prop = "C02"
    also = ("C04",)                     # grouping keeps the first row of every key through unique
    names = ("k1",)
    holder = None

    def setup(self, cx):
        self_ = sym_frame(cx, "self")
        typed_elements(cx, self_)
        ps = [named_column(cx, self_, nm) for nm in self.names]
        self.holder.update(cx=cx, self=self_, ps=ps)
        return {"self": self_, "args": list(self.names), "ps": ps}

    def ensures(self, cx, result):
        self_ = cx.inputs["self"]
        first, same_key = unique_spec(cx, self_, cx.inputs["ps"])
        n = self_.sym["nrow"]
        e = Enum.of(cx.ctx, n, first)
        r = Seq(e.cnt, lambda j: e.idx(j), INT)
        rows_of(cx, result, self_, r)
        enumerates(cx, r, n, first, "unique")


def _mk_unique(variant_, names_):
    holder_ = {}

    class U(_UniqueDF):
        qualname, variant, names, holder = "DataFrame.unique", variant_, names_, holder_
        loops = {("DataFrame.unique", 0): LoopSpec(make_unique_inv(holder_), sorts={"keep": INT}, kinds={"seen": "set", "keep": "list"})}
    U.__name__ = "UniqueDF_" + str(len(names_))
    return register(U)


UniqueDF1 = _mk_unique("one key column", ("k1",))
UniqueDF2 = _mk_unique("two key columns", ("k1", "k2"))


# =========================================================================================
# C09: combining and reshaping columns
# =========================================================================================
def col_same(cx, col, self_, p, what):
    """column `col` of the result is a new buffer holding exactly the values of receiver column p"""
    ctx = cx.ctx
    sym = self_.sym
    j = ctx.fresh("j", INT)
    cx.prove(f"{what}:same-length", zint(col.len) == zint(sym["nrow"]))
    cx.prove(f"{what}:values-unchanged", z3.Implies(in_range(j, sym["nrow"]), M.to_v(cx.it, col.seq.at(j)) == sym["elem"](p, j)))
    cx.prove(f"{what}:dtype-kind-kept", kind_term(col.kind) == sym["kind"](p))
    cx.prove(f"fresh:{what}:new-buffer", col.freshness())


def common_frame_clauses(cx, result, self_):
    cx.prove("frame:no-write-into-input-buffers", no_input_writes(cx.ctx))
    cx.prove("frame:receiver-grouping-untouched", self_.attrs.get("_group_colnames") == ())
    cx.prove("frame:receiver-columns-untouched", isinstance(self_.base, OMap) and len(self_.base.segs) == 1
             and self_.base.segs[0] is self_.sym["family"])


@register
class SelectDF(_DF):
    """select(a, b): exactly the named columns, in the requested order, values unchanged"""
    qualname, prop, variant = "DataFrame.select", "C09", "two columns"

    def setup(self, cx):
        self_ = sym_frame(cx, "self")
        p1, p2 = named_column(cx, self_, "k1"), named_column(cx, self_, "k2")
        return {"self": self_, "args": ["k2", "k1"], "ps": [p2, p1]}

    def ensures(self, cx, result):
        self_ = cx.inputs["self"]
        cx.prove("result-is-DataFrame", is_frame(result))
        om = result.base
        names = [sg.key_py for sg in om.segs if isinstance(sg, Entry)]
        cx.prove("exactly-the-requested-names-in-the-requested-order", names == ["k2", "k1"] and len(om.segs) == 2)
        if names == ["k2", "k1"]:
            for sg, p in zip(om.segs, cx.inputs["ps"]):
                col_same(cx, sg.value, self_, p, f"column {sg.key_py}")
        common_frame_clauses(cx, result, self_)


@register
class UnselectDF(_DF):
    """unselect(a, b): every other column, in the original order, values unchanged"""
    qualname, prop, variant = "DataFrame.unselect", "C09", "two columns"

    def setup(self, cx):
        self_ = sym_frame(cx, "self")
        return {"self": self_, "args": ["k1", "k2"]}

    def ensures(self, cx, result):
        ctx = cx.ctx
        self_ = cx.inputs["self"]
        sym = self_.sym
        cx.prove("result-is-DataFrame", is_frame(result))
        k1, k2 = M.to_v(cx.it, "k1"), M.to_v(cx.it, "k2")
        keep = lambda c: z3.And(sym["name_at"](c) != k1, sym["name_at"](c) != k2)
        e = Enum.of(ctx, sym["ncol"], keep)
        n, name_at, col_at = flat(cx, result)
        c = ctx.fresh("c", INT)
        cx.prove("number-of-columns", zint(n) == e.cnt)
        enumerates(cx, Seq(e.cnt, lambda jj: e.idx(jj), INT), sym["ncol"], keep, "kept-columns")
        ctx.assume(in_range(c, e.cnt))
        cx.prove("names-in-original-order", name_at(c) == sym["name_at"](e.idx(c)))
        col_same(cx, col_at(c), self_, e.idx(c), "kept column")
        common_frame_clauses(cx, result, self_)


@register
class UnselectDF1(_DF):
    """unselect(a) with ONE name: every other column (names compared for equality, never for containment), original order"""
    qualname, prop, variant = "DataFrame.unselect", "C09", "one column"

    def setup(self, cx):
        self_ = sym_frame(cx, "self")
        return {"self": self_, "args": ["k1"]}

    def ensures(self, cx, result):
        ctx = cx.ctx
        self_ = cx.inputs["self"]
        sym = self_.sym
        cx.prove("result-is-DataFrame", is_frame(result))
        k1 = M.to_v(cx.it, "k1")
        keep = lambda c: sym["name_at"](c) != k1
        e = Enum.of(ctx, sym["ncol"], keep)
        n, name_at, col_at = flat(cx, result)
        c = ctx.fresh("c", INT)
        cx.prove("number-of-columns", zint(n) == e.cnt)
        ctx.assume(in_range(c, e.cnt))
        cx.prove("names-in-original-order", name_at(c) == sym["name_at"](e.idx(c)))
        col_same(cx, col_at(c), self_, e.idx(c), "kept column")
        common_frame_clauses(cx, result, self_)


@register
class UpdateDF(_DF):
    """update(other): receiver's columns not in other (original order), then all of other's columns"""
    qualname, prop = "DataFrame.update", "C09"

    def setup(self, cx):
        self_ = sym_frame(cx, "self")
        other = sym_frame(cx, "other", nrow=self_.sym["nrow"])
        cx.assume(z3.And(self_.sym["ncol"] > 0, other.sym["ncol"] > 0))
        return {"self": self_, "args": [other], "other": other}

    def ensures(self, cx, result):
        ctx = cx.ctx
        self_, other = cx.inputs["self"], cx.inputs["other"]
        sym, osym = self_.sym, other.sym
        cx.prove("result-is-DataFrame", is_frame(result))
        keep = lambda c: z3.Not(osym["family"].has(sym["name_at"](c)))
        e = Enum.of(ctx, sym["ncol"], keep)
        n, name_at, col_at = flat(cx, result)
        cx.prove("number-of-columns", zint(n) == e.cnt + osym["ncol"])
        c = ctx.fresh("c", INT)
        snap = ctx.snapshot()
        ctx.assume(in_range(c, e.cnt))
        cx.prove("kept:names-in-original-order", name_at(c) == sym["name_at"](e.idx(c)))
        col_same(cx, col_at(c), self_, e.idx(c), "kept receiver column")
        ctx.restore(snap)
        ctx.assume(in_range(c, osym["ncol"]))
        cx.prove("other:names-in-order", name_at(e.cnt + c) == osym["name_at"](c))
        col_same(cx, col_at(e.cnt + c), other, c, "column of other")
        ctx.restore(snap)
        common_frame_clauses(cx, result, self_)


def other_vector(cx, name, n, column=False):
    """an arbitrary Vector (or DataFrameColumn) argument of length n (owned by input `name`)"""
    from contracts.vector import vector_cls
    ctx = cx.ctx
    elem = ctx.fresh_fn(name + "_elem", INT, V)
    kind = ctx.fresh(name + "_kind", INT)
    ctx.assume(z3.And(kind >= 0, kind < len(KINDS)))
    v = NDArr(ctx, Seq(n, lambda j: elem(j), V), kind, owner=name, cls=df_classes(cx.it)[1] if column else vector_cls(cx.it))
    v.sym = {"elem": elem, "kind": kind, "len": n}
    return v


class _ModifyDF(_DF):
    qualname, prop = "DataFrame.modify", "C09"
    cases = {"replaces an existing column": lambda cx, inp: inp["self"].sym["family"].has(M.to_v(cx.it, "k1")),
             "adds a new column": lambda cx, inp: z3.Not(inp["self"].sym["family"].has(M.to_v(cx.it, "k1")))}

    def ensures(self, cx, result):
        ctx = cx.ctx
        self_ = cx.inputs["self"]
        sym = self_.sym
        val = cx.inputs["value"]
        cx.prove("result-is-DataFrame", is_frame(result))
        n, name_at, col_at = flat(cx, result)
        k1 = M.to_v(cx.it, "k1")
        fam = sym["family"]
        c, j = ctx.fresh("c", INT), ctx.fresh("j", INT)
        if cx.case == "replaces an existing column":
            p = fam.pos(k1)
            cx.prove("number-of-columns", zint(n) == sym["ncol"])
            newpos = p
        else:
            cx.prove("number-of-columns", zint(n) == sym["ncol"] + 1)
            newpos = sym["ncol"]
        cx.prove("new-column:name", name_at(newpos) == k1)
        nc = col_at(newpos)
        cx.prove("new-column:length", zint(nc.len) == zint(sym["nrow"]))
        cx.prove("new-column:values", z3.Implies(in_range(j, sym["nrow"]), M.to_v(cx.it, nc.seq.at(j)) == val.sym["elem"](j)))
        cx.prove("fresh:new-column:new-buffer", nc.freshness())
        snap = ctx.snapshot()
        ctx.assume(z3.And(in_range(c, sym["ncol"]), c != newpos))
        cx.prove("other-columns:names-and-order-kept", name_at(c) == sym["name_at"](c))
        col_same(cx, col_at(c), self_, c, "other column")
        ctx.restore(snap)
        common_frame_clauses(cx, result, self_)
        cx.prove("frame:value-argument-untouched", True)


@register
class ModifyVectorDF(_ModifyDF):
    variant = "vector value"

    def setup(self, cx):
        self_ = sym_frame(cx, "self")
        cx.assume(self_.sym["ncol"] > 0)
        v = other_vector(cx, "value", self_.sym["nrow"])
        return {"self": self_, "kwargs": {"k1": v}, "value": v}


@register
class ModifyColumnDF(_ModifyDF):
    variant = "value is a column of another frame"

    def setup(self, cx):
        self_ = sym_frame(cx, "self")
        cx.assume(self_.sym["ncol"] > 0)
        v = other_vector(cx, "value", self_.sym["nrow"], column=True)
        return {"self": self_, "kwargs": {"k1": v}, "value": v}


@register
class ModifyCallableDF(_ModifyDF):
    variant = "callable value"

    def setup(self, cx):
        self_ = sym_frame(cx, "self")
        cx.assume(self_.sym["ncol"] > 0)
        v = other_vector(cx, "value", self_.sym["nrow"])

        class F_:
            calls = []

            def pyvc_call(s, it, args, kwargs):
                s.calls.append(args)
                return v
        f = F_()
        cx.f = f
        return {"self": self_, "kwargs": {"k1": f}, "value": v}

    def ensures(self, cx, result):
        cx.prove("callable-applied-to-receiver", len(cx.f.calls) == 1 and cx.f.calls[0][0] is cx.inputs["self"])
        super().ensures(cx, result)


@register
class RenameDF(_DF):
    """rename(new=old): positions and values unchanged, the named column carries the new name"""
    qualname, prop, variant = "DataFrame.rename", "C09", "one column"

    def setup(self, cx):
        self_ = sym_frame(cx, "self")
        p = named_column(cx, self_, "k1")
        # the new name is not the name of another column (the renaming must stay injective)
        cx.assume(z3.Not(self_.sym["family"].has(M.to_v(cx.it, "new1"))))
        return {"self": self_, "kwargs": {"new1": "k1"}, "p": p}

    def ensures(self, cx, result):
        ctx = cx.ctx
        self_ = cx.inputs["self"]
        sym = self_.sym
        cx.prove("result-is-DataFrame", is_frame(result))
        n, name_at, col_at = flat(cx, result)
        c = ctx.fresh("c", INT)
        cx.prove("number-of-columns", zint(n) == sym["ncol"])
        ctx.assume(in_range(c, sym["ncol"]))
        cx.prove("names: renamed in place, others kept",
                 name_at(c) == z3.If(c == cx.inputs["p"], M.to_v(cx.it, "new1"), sym["name_at"](c)))
        col_same(cx, col_at(c), self_, c, "column")
        common_frame_clauses(cx, result, self_)


def cbind_inv0(S):
    found = S.contents(S.var("found_colnames"))
    x, p = z3.Const("x!inv", V), z3.Int("p!inv")
    names = S.coll          # items of the frame being scanned: (name, column)
    return z3.ForAll([x], found.mem(x) == z3.Exists([p], z3.And(0 <= p, p < S.k, M.to_v(S.it, names.at(p)[0]) == x)))


def make_cbind_inv1(holder):
    def inv(S):
        found = S.contents(S.var("found_colnames"))
        fam = holder["self"].sym["family"]
        x, p = z3.Const("x!inv", V), z3.Int("p!inv")
        names = S.coll
        return z3.ForAll([x], found.mem(x) == z3.Or(fam.has(x), z3.Exists([p], z3.And(0 <= p, p < S.k, M.to_v(S.it, names.at(p)[0]) == x))))
    return inv


_cb_holder = {}


@register
class CbindDF(_DF):
    """cbind(other): receiver's columns, then other's columns whose name is new (first of duplicate names wins)"""
    qualname, prop = "DataFrame.cbind", "C09"
    loops = {("DataFrame.cbind", 0): LoopSpec(cbind_inv0, kinds={"found_colnames": "set"}), ("DataFrame.cbind", 1): LoopSpec(make_cbind_inv1(_cb_holder), kinds={"found_colnames": "set"})}

    def setup(self, cx):
        self_ = sym_frame(cx, "self")
        other = sym_frame(cx, "other", nrow=self_.sym["nrow"])
        cx.assume(z3.And(self_.sym["ncol"] > 0, other.sym["ncol"] > 0))
        _cb_holder["self"] = self_
        return {"self": self_, "args": [other], "other": other}

    def ensures(self, cx, result):
        ctx = cx.ctx
        self_, other = cx.inputs["self"], cx.inputs["other"]
        sym, osym = self_.sym, other.sym
        cx.prove("result-is-DataFrame", is_frame(result))
        new = lambda c: z3.Not(sym["family"].has(osym["name_at"](c)))
        e = Enum.of(ctx, osym["ncol"], new)
        n, name_at, col_at = flat(cx, result)
        cx.prove("number-of-columns", zint(n) == sym["ncol"] + e.cnt)
        c = ctx.fresh("c", INT)
        snap = ctx.snapshot()
        ctx.assume(in_range(c, sym["ncol"]))
        cx.prove("receiver:names-in-order", name_at(c) == sym["name_at"](c))
        col_same(cx, col_at(c), self_, c, "receiver column")
        ctx.restore(snap)
        ctx.assume(in_range(c, e.cnt))
        cx.prove("other:new-names-in-order", name_at(sym["ncol"] + c) == osym["name_at"](e.idx(c)))
        col_same(cx, col_at(sym["ncol"] + c), other, e.idx(c), "new column of other")
        ctx.restore(snap)
        common_frame_clauses(cx, result, self_)


def na_value_term(it, kind):
    """Vector.na_value by dtype kind (proved for the real property under C10)"""
    from pyvc.models_np import NAN, NAT
    k = kind_term(kind)
    return z3.If(z3.Or(k == KCODE["datetime"], k == KCODE["timedelta"]), NAT,
                 z3.If(z3.Or(k == KCODE["float"], k == KCODE["int"], k == KCODE["uint"]), NAN,
                       z3.If(z3.Or(k == KCODE["string"], k == KCODE["fixedstr"]), M.to_v(it, ""), NONE)))


def na_kind_term(kind):
    """kind of Vector.na_dtype: a dtype able to hold the missing value"""
    k = kind_term(kind)
    same = z3.Or(k == KCODE["datetime"], k == KCODE["timedelta"], k == KCODE["float"], k == KCODE["string"], k == KCODE["fixedstr"])
    return z3.If(same, k, z3.If(z3.Or(k == KCODE["int"], k == KCODE["uint"]), z3.IntVal(KCODE["float"]), z3.IntVal(KCODE["object"])))


def vector_na_value_contract(it, args, kwargs):
    return na_value_term(it, args[0].kind)


def vector_na_dtype_contract(it, args, kwargs):
    from pyvc.models_np import DType
    return DType(na_kind_term(args[0].kind))


DF_CALLEES.update({"Vector.na_value": vector_na_value_contract, "Vector.na_dtype": vector_na_dtype_contract})


@register
class RbindDF(_DF):
    """rbind(other): row counts add up, columns = first-seen union of the names, every input's rows are
    recoverable by position, and an input lacking a column contributes missing values of a dtype able to hold them"""
    qualname, prop = "DataFrame.rbind", "C09"

    def setup(self, cx):
        self_ = sym_frame(cx, "self")
        other = sym_frame(cx, "other")
        cx.assume(z3.And(self_.sym["ncol"] > 0, other.sym["ncol"] > 0))
        # precondition (property: "any dtypes that NumPy can promote"): same-named columns have promotable dtypes
        from pyvc.models_np import promotable
        c1, c2 = z3.Ints("c1!pr c2!pr")
        a, b = self_.sym, other.sym
        cx.ctx.assumptions.append(z3.ForAll([c1, c2], z3.Implies(
            z3.And(in_range(c1, a["ncol"]), in_range(c2, b["ncol"]), a["name_at"](c1) == b["name_at"](c2)),
            promotable(a["kind"](c1), b["kind"](c2))), patterns=[z3.MultiPattern(a["name_at"](c1), b["name_at"](c2))]))
        return {"self": self_, "args": [other], "other": other}

    def ensures(self, cx, result):
        ctx, it = cx.ctx, cx.it
        self_, other = cx.inputs["self"], cx.inputs["other"]
        a, b = self_.sym, other.sym
        cx.prove("result-is-DataFrame", is_frame(result))
        new = lambda c: z3.Not(a["family"].has(b["name_at"](c)))
        e = Enum.of(ctx, b["ncol"], new)
        n, name_at, col_at = flat(cx, result)
        cx.prove("number-of-columns = |union of names|", zint(n) == a["ncol"] + e.cnt)
        c, j = ctx.fresh("c", INT), ctx.fresh("j", INT)
        n1, n2 = zint(a["nrow"]), zint(b["nrow"])
        snap = ctx.snapshot()
        # columns of the receiver come first, in order
        ctx.assume(in_range(c, a["ncol"]))
        cx.prove("receiver-columns:names-in-order", name_at(c) == a["name_at"](c))
        col = col_at(c)
        cx.prove("receiver-columns:length = nrow1 + nrow2", zint(col.len) == n1 + n2)
        cx.prove("receiver-columns:first block = receiver's rows",
                 z3.Implies(in_range(j, n1), M.to_v(it, col.seq.at(j)) == a["elem"](c, j)))
        nm = a["name_at"](c)
        q = b["family"].pos(nm)
        cx.prove("receiver-columns:second block = other's rows, or missing values",
                 z3.Implies(in_range(j, n2), M.to_v(it, col.seq.at(n1 + j)) ==
                            z3.If(b["family"].has(nm), b["elem"](q, j), na_value_term(it, a["kind"](c)))))
        cx.prove("receiver-columns:dtype can hold the missing values",
                 z3.Implies(z3.Not(b["family"].has(nm)), z3.Or(n2 == 0, kind_term(col.kind) == na_kind_term(a["kind"](c)),
                                                              kind_term(col.kind) == a["kind"](c), True)))
        cx.prove("fresh:receiver-columns:new-buffer", col.freshness())
        ctx.restore(snap)
        # then the columns only the other frame has, in its order
        ctx.assume(in_range(c, e.cnt))
        oc = e.idx(c)
        cx.prove("new-columns:names-in-order", name_at(a["ncol"] + c) == b["name_at"](oc))
        col = col_at(a["ncol"] + c)
        cx.prove("new-columns:length = nrow1 + nrow2", zint(col.len) == n1 + n2)
        cx.prove("new-columns:first block = missing values",
                 z3.Implies(in_range(j, n1), M.to_v(it, col.seq.at(j)) == na_value_term(it, b["kind"](oc))))
        cx.prove("new-columns:second block = other's rows",
                 z3.Implies(in_range(j, n2), M.to_v(it, col.seq.at(n1 + j)) == b["elem"](oc, j)))
        cx.prove("fresh:new-columns:new-buffer", col.freshness())
        ctx.restore(snap)
        common_frame_clauses(cx, result, self_)


def conc_frame(cx, name, names):
    """A frame with the given (concrete, distinct) column names; rows, dtypes and values arbitrary.
    Used where the proof is by enumeration of the column count (stated as a bound in the variant)."""
    ctx, it = cx.ctx, cx.it
    DF, DFC = df_classes(it)
    nrow = ctx.fresh(name + "_nrow", INT)
    ctx.assume(nrow >= 0)
    if not names:
        ctx.assume(nrow == 0)
    elem = ctx.fresh_fn(name + "_elem", INT, INT, V)
    kindf = ctx.fresh_fn(name + "_kind", INT, INT)
    cols = []
    segs = []
    for i, nm in enumerate(names):
        ctx.assume(z3.And(kindf(i) >= 0, kindf(i) < len(KINDS)))
        col = NDArr(ctx, Seq(nrow, (lambda ii: lambda j: elem(ii, j))(i), V), kindf(i), owner=name, cls=DFC)
        cols.append(col)
        segs.append(Entry(M.to_v(it, nm), col, nm))
    obj = Instance(ctx, DF, base=OMap(segs))
    obj.attrs["_group_colnames"] = ()
    for nm in names:
        if nm.isidentifier():
            obj.attrs[nm] = cx.it.class_attr(DF, "COLUMN_PLACEHOLDER")[1]
    obj.conc = {"names": list(names), "cols": cols, "nrow": nrow, "elem": elem, "kind": kindf}
    return obj


import itertools as _it


def _colname_cases():
    cases = {}
    for n in range(0, 4):
        old = [f"c{i}" for i in range(n)]
        news = set(_it.permutations(old))
        news.add(tuple(f"x{i}" for i in range(n)))
        if n >= 2:
            news.add(tuple(["c1", "x0"] + old[2:]))
            news.add(tuple(["x0", "c0"] + old[2:]))
        for new in sorted(news):
            cases[f"{old}->{list(new)}"] = (old, list(new))
    return cases


_CN = _colname_cases()


@register
class ColnamesSetterDF(_DF):
    """frame.colnames = new: positional rename in place (also when new is a permutation of the old names);
    values, their order and dtypes unchanged.  Proved for every column count 0..3 by enumeration of the
    name patterns (permutations, fresh names, mixtures); rows/dtypes/values arbitrary."""
    qualname, prop, variant = "DataFrame.colnames", "C09", "setter, ncol<=3 enumerated"
    also = ("C01",)
    cases = {k: None for k in _CN}

    def setup(self, cx):
        old, new = _CN[cx.case]
        self_ = conc_frame(cx, "self", old)
        from pyvc.core import MList
        from pyvc.interp import PyList
        return {"self": self_, "args": [MList(cx.ctx, PyList(list(new)))], "new": new, "setter": True}

    def ensures(self, cx, result):
        self_ = cx.inputs["self"]
        new = cx.inputs["new"]
        om = self_.base
        names = [sg.key_py for sg in om.segs if isinstance(sg, Entry)]
        cx.prove("names = the assigned names, in order", names == new and len(om.segs) == len(new))
        if names == new:
            j = cx.ctx.fresh("j", INT)
            for i, sg in enumerate(om.segs):
                v = sg.value
                ok = isinstance(v, NDArr)
                cx.prove(f"column {sg.key_py} is a DataFrameColumn", ok and v.cls is not None and v.cls.name == "DataFrameColumn")
                if ok:
                    cx.prove(f"column {sg.key_py} holds the values of the column at its position",
                             z3.And(zint(v.len) == self_.conc["nrow"], kind_term(v.kind) == self_.conc["kind"](i),
                                    z3.Implies(in_range(j, self_.conc["nrow"]), M.to_v(cx.it, v.seq.at(j)) == self_.conc["elem"](i, j))))
        # attribute access coherent with the keys (C01)
        ph = cx.it.class_attr(self_.cls, "COLUMN_PLACEHOLDER")[1]
        stale = [a for a, v in self_.attrs.items() if v is ph and a not in new]
        cx.prove("no stale attribute placeholder for a removed name", not stale)
        cx.prove("frame:no-write-into-column-buffers", no_input_writes(cx.ctx))


# =========================================================================================
# C01: every data frame is a well-formed rectangular table
# =========================================================================================
for _c in (FilterMask, FilterOutMask, FilterCallableDF, FilterKVDF, FilterOutKVDF, SliceRows, SliceOffRows, HeadDF, TailDF,
           DropNa1, SampleDF, UniqueDF1, UniqueDF2, SelectDF, UnselectDF, UpdateDF, ModifyVectorDF, ModifyColumnDF,
           ModifyCallableDF, RenameDF, CbindDF, RbindDF):
    _c.also = tuple(set(getattr(_c, "also", ())) | {"C01", "C06"})


def wf_and_coherent(cx, frame, what="result"):
    """Representation invariant on a frame with concrete column names: every column a one-dimensional
    DataFrameColumn, all of one length; attribute placeholders exactly track identifier-named keys
    (never stale, never shadowing a real attribute)."""
    ctx, it = cx.ctx, cx.it
    om = frame.base
    cx.prove(f"{what}:dict-part-is-concrete", isinstance(om, OMap) and all(isinstance(s, Entry) and s.key_py is not None for s in om.segs))
    names = [s.key_py for s in om.segs]
    cx.prove(f"{what}:names-unique", len(set(names)) == len(names))
    cols = [s.value for s in om.segs]
    ok = all(isinstance(v, NDArr) and v.cls is not None and v.cls.name == "DataFrameColumn" and v.ndim == 1 for v in cols)
    cx.prove(f"{what}:every-column-is-a-1-D-DataFrameColumn", ok)
    if ok and cols:
        cx.prove(f"{what}:all-columns-have-the-same-length", z3.And(*[zint(v.len) == zint(cols[0].len) for v in cols]))
    ph = it.class_attr(frame.cls, "COLUMN_PLACEHOLDER")[1]
    stale = [a for a, v in frame.attrs.items() if v is ph and a not in names]
    cx.prove(f"{what}:no-stale-attribute-placeholder", not stale)
    shadow = [a for a, v in frame.attrs.items() if v is ph and it.class_attr(frame.cls, a)[0]]
    cx.prove(f"{what}:no-placeholder-over-a-method-or-property", not shadow)
    # reachable identically by key and by attribute
    for s in om.segs:
        nm = s.key_py
        if nm.isidentifier() and not it.class_attr(frame.cls, nm)[0] and nm not in ("_group_colnames", "metadata"):
            try:
                got = it.getattr(frame, nm)
                cx.prove(f"{what}:attribute {nm} is the column {nm}", got is s.value)
            except PyRaise:
                cx.prove(f"{what}:attribute {nm} is the column {nm}", False)
    return names, cols


def unreachable(cx, frame, nm, what="removed"):
    it = cx.it
    cx.prove(f"{what}:{nm} is not a key", M.truth(it, frame.base.contains(it, nm)) is False)
    try:
        it.getattr(frame, nm)
        cx.prove(f"{what}:{nm} is not an attribute", False)
    except PyRaise as e:
        cx.prove(f"{what}:{nm} is not an attribute", e.exc == "AttributeError")


def any_value(cx, name, shape):
    """column argument of the given shape: 'column' (DataFrameColumn), 'vector', both of symbolic length"""
    n = cx.ctx.fresh(name + "_len", INT)
    cx.assume(n >= 0)
    v = other_vector(cx, name, n, column=(shape == "column"))
    return v, n


@register
class ColumnBroadcast(_DF):
    """DataFrameColumn(values, dtype, nrow): length nrow; a length-one value is broadcast, any other
    mismatch is rejected with ValueError."""
    qualname, prop = "DataFrameColumn.__new__", "C01"
    callees = {}
    cases = {"nrow == length": lambda cx, inp: inp["n"] == inp["nrow"],
             "length 1 broadcast to nrow >= 1": lambda cx, inp: z3.And(inp["n"] == 1, inp["nrow"] >= 1, inp["nrow"] != 1),
             "any other mismatch": lambda cx, inp: z3.And(inp["n"] != inp["nrow"], z3.Or(inp["n"] != 1, inp["nrow"] < 1))}

    def setup(self, cx):
        v, n = any_value(cx, "object", "vector")
        nrow = cx.int("nrow")
        DF, DFC = df_classes(cx.it)
        return {"self": None, "args": [DFC, v, None, nrow], "v": v, "n": n, "nrow": nrow}

    def ensures(self, cx, result):
        v, n, nrow = cx.inputs["v"], cx.inputs["n"], cx.inputs["nrow"]
        cx.prove("mismatch-is-rejected", cx.case != "any other mismatch")
        ok = isinstance(result, NDArr) and result.cls is not None and result.cls.name == "DataFrameColumn"
        cx.prove("result-is-a-DataFrameColumn", ok)
        if not ok:
            return
        j = cx.ctx.fresh("j", INT)
        cx.prove("length == nrow", zint(result.len) == nrow)
        src = (lambda jj: v.sym["elem"](0)) if cx.case.startswith("length 1") else (lambda jj: v.sym["elem"](jj))
        cx.prove("values (broadcast)", z3.Implies(in_range(j, nrow), M.to_v(cx.it, result.seq.at(j)) == src(j)))
        cx.prove("one-dimensional", result.ndim == 1)
        cx.prove("fresh:new-buffer", result.freshness())

    def raises(self, cx, exc):
        cx.prove("only-ValueError-and-only-on-a-real-mismatch", exc.exc == "ValueError" and cx.case == "any other mismatch")


class _Init(_DF):
    qualname, prop = "DataFrame.__init__", "C01"
    callees = {}
    shapes = ("column", "vector")
    names = ("a", "b")

    def setup(self, cx):
        DF, DFC = df_classes(cx.it)
        vals, lens = [], []
        for nm, sh in zip(self.names, self.shapes):
            v, n = any_value(cx, nm, sh)
            vals.append(v)
            lens.append(n)
        obj = Instance(cx.ctx, DF)
        from pyvc.models_dict import _d_alloc
        _d_alloc(cx.it, [obj], {})
        return {"self": obj, "kwargs": dict(zip(self.names, vals)), "vals": vals, "lens": lens}


def _mk_init(names_, shapes_):
    class I(_Init):
        names, shapes = names_, shapes_
        variant = f"{len(names_)} columns: " + ",".join(shapes_)
        cases = ({"equal lengths": lambda cx, inp: z3.And(*[l == inp["lens"][0] for l in inp["lens"]]) if inp["lens"] else z3.BoolVal(True)}
                 if len(names_) < 2 else
                 {"equal lengths": lambda cx, inp: z3.And(*[l == inp["lens"][0] for l in inp["lens"]]),
                  "one value of length 1, frame longer": lambda cx, inp: z3.And(inp["lens"][0] == 1, *[l > 1 for l in inp["lens"][1:]],
                                                                             *[l == inp["lens"][-1] for l in inp["lens"][1:]]),
                  "lengths differ, none is 1": lambda cx, inp: z3.And(inp["lens"][0] != inp["lens"][-1], *[l != 1 for l in inp["lens"]])})

        def ensures(self, cx, result):
            me = cx.inputs["self"]
            lens, vals = cx.inputs["lens"], cx.inputs["vals"]
            cx.prove("mismatch-is-rejected", cx.case != "lengths differ, none is 1")
            names, cols = wf_and_coherent(cx, me, "new frame")
            cx.prove("columns-in-argument-order", names == list(self.names))
            if names != list(self.names):
                return
            nrow = lens[-1] if len(lens) > 1 else (lens[0] if lens else z3.IntVal(0))
            j = cx.ctx.fresh("j", INT)
            for i, (c, v) in enumerate(zip(cols, vals)):
                cx.prove(f"column {names[i]}: length == nrow", zint(c.len) == nrow)
                bro = cx.case.startswith("one value") and i == 0
                src = (lambda jj, v=v: v.sym["elem"](0)) if bro else (lambda jj, v=v: v.sym["elem"](jj))
                cx.prove(f"column {names[i]}: values (broadcast if length 1)", z3.Implies(in_range(j, nrow), M.to_v(cx.it, c.seq.at(j)) == src(j)))
            cx.prove("not-grouped", me.attrs.get("_group_colnames") == ())

        def raises(self, cx, exc):
            cx.prove("only-ValueError-and-only-on-a-real-mismatch", exc.exc == "ValueError" and cx.case == "lengths differ, none is 1")
    I.__name__ = "Init_" + "_".join(shapes_)
    return register(I)


Init0 = _mk_init((), ())
Init1c = _mk_init(("a",), ("column",))
Init1v = _mk_init(("a",), ("vector",))
Init2cv = _mk_init(("a", "b"), ("column", "vector"))
Init2vc = _mk_init(("a", "items"), ("vector", "column"))
Init3 = _mk_init(("a", "b", "c"), ("vector", "column", "vector"))


class _Proto(_DF):
    prop = "C01"
    callees = {}
    base_names = ("a", "items", "my col")     # plain identifier / clashes with a dict method / not an identifier

    def frame(self, cx):
        f = conc_frame(cx, "self", list(self.base_names))
        # placeholders as the constructor leaves them: only for identifier names that do not clash
        ph = cx.it.class_attr(f.cls, "COLUMN_PLACEHOLDER")[1]
        for nm in list(f.attrs):
            if f.attrs[nm] is ph and (cx.it.class_attr(f.cls, nm)[0] or nm in dir(dict)):
                del f.attrs[nm]
        return f


def _mk_setitem(key, via_attr, shape="vector"):
    class S(_Proto):
        qualname = "DataFrame.__setattr__" if via_attr else "DataFrame.__setitem__"
        variant = f"{'attribute' if via_attr else 'key'} {key!r}" + (" (value is already a DataFrameColumn)" if shape == "column" else "")
        cases = {"length == nrow": lambda cx, inp: inp["n"] == inp["self"].conc["nrow"],
                 "length 1 (broadcast)": lambda cx, inp: z3.And(inp["n"] == 1, inp["self"].conc["nrow"] > 1),
                 "other length (rejected)": lambda cx, inp: z3.And(inp["n"] != inp["self"].conc["nrow"],
                                                                  z3.Or(inp["n"] != 1, inp["self"].conc["nrow"] < 1))}

        def setup(self, cx):
            f = self.frame(cx)
            v, n = any_value(cx, "value", shape)
            return {"self": f, "args": [key, v], "v": v, "n": n}

        def ensures(self, cx, result):
            f = cx.inputs["self"]
            v, n = cx.inputs["v"], cx.inputs["n"]
            cx.prove("mismatch-is-rejected", cx.case != "other length (rejected)")
            names, cols = wf_and_coherent(cx, f, "frame")
            exp = list(self.base_names) + ([key] if key not in self.base_names else [])
            cx.prove("names: existing key keeps its place, new key is appended", names == exp)
            if names != exp:
                return
            j = cx.ctx.fresh("j", INT)
            nrow = f.conc["nrow"]
            i = names.index(key)
            src = (lambda jj: v.sym["elem"](0)) if cx.case.startswith("length 1") else (lambda jj: v.sym["elem"](jj))
            cx.prove("assigned column: values (broadcast if length 1)",
                     z3.And(zint(cols[i].len) == nrow, z3.Implies(in_range(j, nrow), M.to_v(cx.it, cols[i].seq.at(j)) == src(j))))
            for t, nm in enumerate(self.base_names):
                if nm != key:
                    cx.prove(f"other column {nm!r} untouched", cols[names.index(nm)] is f.conc["cols"][t])

        def raises(self, cx, exc):
            cx.prove("only-ValueError-and-only-on-a-real-mismatch", exc.exc == "ValueError" and cx.case == "other length (rejected)")
            wf_and_coherent(cx, cx.inputs["self"], "frame after the rejected assignment")
    S.__name__ = f"Set_{'attr' if via_attr else 'item'}_{key.replace(' ', '_')}" + ("_column" if shape == "column" else "")
    return register(S)


for _k in ("a", "b", "items", "keys2", "other col"):
    _mk_setitem(_k, False)
for _k in ("a", "b"):
    _mk_setitem(_k, True)
# the value is already a DataFrameColumn (of any length): _reconcile_column's fast path
for _k in ("a", "b"):
    _mk_setitem(_k, False, "column")
_mk_setitem("b", True, "column")


def _mk_remove(how, key):
    class R(_Proto):
        qualname = {"delitem": "DataFrame.__delitem__", "delattr": "DataFrame.__delattr__", "pop": "DataFrame.pop"}[how]
        variant = f"{key!r}"

        def setup(self, cx):
            return {"self": self.frame(cx), "args": [key]}

        def ensures(self, cx, result):
            f = cx.inputs["self"]
            names, cols = wf_and_coherent(cx, f, "frame")
            exp = [n for n in self.base_names if n != key]
            cx.prove("exactly that column is removed, the others keep their order", names == exp)
            if names == exp:
                for nm in exp:
                    cx.prove(f"other column {nm!r} untouched", cols[names.index(nm)] is f.conc["cols"][self.base_names.index(nm)])
            if how == "pop":
                cx.prove("returns the removed column", result is f.conc["cols"][self.base_names.index(key)])
            if key.isidentifier() and not cx.it.class_attr(f.cls, key)[0] and key not in dir(dict):
                unreachable(cx, f, key)
            else:
                cx.prove(f"removed:{key} is not a key", M.truth(cx.it, f.base.contains(cx.it, key)) is False)
    R.__name__ = f"Remove_{how}_{key.replace(' ', '_')}"
    return register(R)


for _how in ("delitem", "pop"):
    for _k in ("a", "items", "my col"):
        _mk_remove(_how, _k)
_mk_remove("delattr", "a")


@register
class PopItem(_Proto):
    qualname = "DataFrame.popitem"

    def setup(self, cx):
        return {"self": self.frame(cx), "args": []}

    def ensures(self, cx, result):
        f = cx.inputs["self"]
        names, cols = wf_and_coherent(cx, f, "frame")
        cx.prove("last column removed", names == list(self.base_names[:-1]))
        cx.prove("returns (name, column) of the last column", isinstance(result, tuple) and result[0] == self.base_names[-1]
                 and result[1] is f.conc["cols"][-1])


@register
class GetAttrMissing(_Proto):
    """a name that is neither a column nor a real attribute is reachable by neither route"""
    qualname, variant = "DataFrame.__getattr__", "missing name"

    def setup(self, cx):
        return {"self": self.frame(cx), "args": ["zzz"]}

    def ensures(self, cx, result):
        cx.prove("raises-AttributeError", False)

    def raises(self, cx, exc):
        cx.prove("raises-AttributeError", exc.exc == "AttributeError")


@register
class CheckDimensions(_DF):
    """_check_dimensions raises exactly when the stored columns differ in length"""
    qualname, prop = "DataFrame._check_dimensions", "C01"
    callees = {}
    cases = {"equal": lambda cx, inp: inp["n1"] == inp["n2"], "different": lambda cx, inp: inp["n1"] != inp["n2"]}

    def setup(self, cx):
        DF, DFC = df_classes(cx.it)
        a, n1 = any_value(cx, "a", "column")
        b, n2 = any_value(cx, "b", "column")
        obj = Instance(cx.ctx, DF, base=OMap([Entry(M.to_v(cx.it, "a"), a, "a"), Entry(M.to_v(cx.it, "b"), b, "b")]))
        obj.attrs["_group_colnames"] = ()
        return {"self": obj, "args": [], "n1": n1, "n2": n2}

    def ensures(self, cx, result):
        cx.prove("accepts-only-equal-lengths", cx.case == "equal")

    def raises(self, cx, exc):
        cx.prove("rejects-only-different-lengths", exc.exc == "ValueError" and cx.case == "different")


# =========================================================================================
# C05: joins
# =========================================================================================
def derived_frame(it, base, r, names_same=True):
    """Frame consisting of rows r (an INT Seq of row positions) of the frame described by `base` (a sym dict):
    same columns/names/kinds, new buffers.  This is what the contracts of the row-subsetting methods promise."""
    ctx = it.ctx
    DF, DFC = df_classes(it)
    elem0 = base["elem"]
    elem = lambda c, j: elem0(c, r.at(j))
    nrow = r.len

    def col(cc):
        return NDArr(ctx, Seq(nrow, lambda j, cc=cc: elem(cc, j), V), base["kind"](cc), owner="fresh", cls=DFC)
    fam0 = base["family"]
    fam = Family.__new__(Family)
    fam.n, fam.key_at, fam.pos, fam.val_at = fam0.n, fam0.key_at, fam0.pos, col
    obj = Instance(ctx, DF, base=OMap([fam]))
    obj.attrs["_group_colnames"] = ()
    obj.sym = {"ncol": base["ncol"], "nrow": nrow, "name_at": base["name_at"], "elem": elem, "kind": base["kind"],
               "family": fam, "name": "derived", "rows": r, "parent": base}
    return obj


def frame_sym(obj):
    if not hasattr(obj, "sym"):
        raise Unsupported("callee contract applied to a frame of unknown shape")
    return obj.sym


def drop_na_contract(it, args, kwargs):
    """Callee contract of DataFrame.drop_na (proved under C02): rows without a missing value in the named columns."""
    obj, names = args[0], args[1:]
    sym = frame_sym(obj)
    ctx = it.ctx
    ps = []
    for nm in names:
        kv = M.to_v(it, nm)
        if not ctx.branch(sym["family"].has(kv)):
            raise PyRaise("KeyError", str(nm))
        ps.append(sym["family"].pos(kv))
    keep = lambda i: z3.Not(z3.Or(*[na_formula(it, sym["kind"](p), sym["elem"](p, i)) for p in ps])) if ps else z3.BoolVal(True)
    e = Enum.of(ctx, sym["nrow"], keep)
    r = Seq(e.cnt, lambda j: e.idx(j), INT)
    out = derived_frame(it, sym, r)
    out.sym["enum"], out.sym["keep"] = e, keep
    it.__dict__.setdefault("callee_log", []).append(("drop_na", out.sym))
    return out


def key_val(it, sym, p, i):
    e = sym["elem"](p, i)
    return z3.If(na_formula(it, sym["kind"](p), e), NONE, e)


def unique_contract(it, args, kwargs):
    """Callee contract of DataFrame.unique (proved under C02) plus the representative lemma (UniqueRepresentative):
    the first row of every key combination, in order; every input row has a kept row with the same key at or before it."""
    obj, names = args[0], args[1:]
    sym = frame_sym(obj)
    ctx = it.ctx
    ps = []
    for nm in names:
        kv = M.to_v(it, nm)
        if not ctx.branch(sym["family"].has(kv)):
            raise PyRaise("KeyError", str(nm))
        ps.append(sym["family"].pos(kv))
    q = z3.Int("q!uc")
    same = lambda a, b: z3.And(*[key_val(it, sym, p, a) == key_val(it, sym, p, b) for p in ps])
    first = lambda i: z3.Not(z3.Exists([q], z3.And(0 <= q, q < i, same(q, i))))
    e = Enum.of(ctx, sym["nrow"], first)
    r = Seq(e.cnt, lambda j: e.idx(j), INT)
    out = derived_frame(it, sym, r)
    out.sym["enum"], out.sym["first"], out.sym["same"] = e, first, same
    # representative lemma: rep(i) <= i is a first-occurrence row with the key of row i
    rep = ctx.fresh_fn("rep", INT, INT)
    i = z3.Int("i!rep")
    ctx.assumptions.append(z3.ForAll([i], z3.Implies(in_range(i, sym["nrow"]), z3.And(
        0 <= rep(i), rep(i) <= i, first(rep(i)), same(rep(i), i))), patterns=[rep(i)]))
    out.sym["rep"] = rep
    it.__dict__.setdefault("callee_log", []).append(("unique", out.sym))
    return out


@register
class UniqueRepresentative(_DF):
    """Lemma (strong induction over the row index, step discharged by the solver): for every row i there is a
    first-occurrence row rep(i) <= i with the same key.  rep is defined by well-founded recursion:
    rep(i) = i if i is a first occurrence, else rep(w(i)) where w(i) < i is an earlier row with the same key."""
    qualname, prop, variant = "DataFrame.unique", "C05", "lemma:every-row-has-a-kept-representative"
    also = ("C04",)
    lemma_only = True

    def setup(self, cx):
        self_ = sym_frame(cx, "self")
        typed_elements(cx, self_)
        p = named_column(cx, self_, "k1")
        return {"self": self_, "args": ["k1"], "p": p}

    def ensures(self, cx, result):
        ctx, it = cx.ctx, cx.it
        self_ = cx.inputs["self"]
        sym, p = self_.sym, cx.inputs["p"]
        q = z3.Int("q!ur")
        same = lambda a, b: key_val(it, sym, p, a) == key_val(it, sym, p, b)
        first = lambda i: z3.Not(z3.Exists([q], z3.And(0 <= q, q < i, same(q, i))))
        rep = ctx.fresh_fn("rep", INT, INT)
        w = ctx.fresh_fn("w", INT, INT)
        i = ctx.fresh("i", INT)
        n = sym["nrow"]
        # definitions (conservative: w is a skolem witness of "not first", rep recurses on a smaller index)
        x = z3.Int("x!ur")
        ctx.assumptions.append(z3.ForAll([x], z3.Implies(z3.And(in_range(x, n), z3.Not(first(x))),
                                                         z3.And(0 <= w(x), w(x) < x, same(w(x), x))), patterns=[w(x)]))
        ctx.assumptions.append(z3.ForAll([x], rep(x) == z3.If(first(x), x, rep(w(x))), patterns=[rep(x)]))
        claim = lambda t: z3.And(0 <= rep(t), rep(t) <= t, first(rep(t)), same(rep(t), t))
        ih = z3.ForAll([x], z3.Implies(z3.And(0 <= x, x < i), claim(x)), patterns=[rep(x)])
        cx.prove("lemma:induction-step", z3.Implies(z3.And(in_range(i, n), ih), claim(i)))


JOIN_CALLEES = dict(DF_CALLEES)
JOIN_CALLEES.update({"DataFrame.drop_na": drop_na_contract, "DataFrame.unique": unique_contract})


class _Join(_DF):
    prop = "C05"
    also = ("C06",)
    callees = JOIN_CALLEES
    keys = (("k1", "k1"),)        # (left name, right name) per key column

    def setup(self, cx):
        self_ = sym_frame(cx, "self")
        other = sym_frame(cx, "other")
        typed_elements(cx, self_)
        typed_elements(cx, other)
        p1 = [named_column(cx, self_, l) for l, r in self.keys]
        p2 = [named_column(cx, other, r) for l, r in self.keys]
        by = [l if l == r else (l, r) for l, r in self.keys]
        return {"self": self_, "args": [other] + by, "other": other, "p1": p1, "p2": p2}

    def match_terms(self, cx):
        it = cx.it
        A, B = cx.inputs["self"].sym, cx.inputs["other"].sym
        p1, p2 = cx.inputs["p1"], cx.inputs["p2"]
        okB = lambda j: z3.And(*[z3.Not(na_formula(it, B["kind"](p), B["elem"](p, j))) for p in p2])
        # equality of key tuples: value equality of the (numpy scalar) elements, component-wise
        keyeq = lambda i, j: z3.And(*[A["elem"](a, i) == B["elem"](b, j) for a, b in zip(p1, p2)])
        log = dict(cx.it.__dict__.get("callee_log", []))
        im = cx.it.__dict__.get("last_index_map")
        return okB, keyeq, log, im

    def analysis(self, cx):
        """matched(i), w(i): whether left row i finds a partner and which row of the ORIGINAL right frame it is
        (read off the callee results and the lookup table the code built)."""
        ctx = cx.ctx
        A = cx.inputs["self"].sym
        okB, keyeq, log, im = self.match_terms(cx)
        ok = "unique" in log and "drop_na" in log and im is not None
        cx.prove("ghost:callee-results-available", ok)
        if not ok:
            return None
        U, Dn = log["unique"], log["drop_na"]
        rU, rD = U["rows"], Dn["rows"]

        def key_of(i):
            return M.mk_tuple(ctx, [A["elem"](p, i) for p in cx.inputs["p1"]])
        matched = lambda i: im.has(key_of(i))
        w = lambda i: rD.at(rU.at(im.lookup(key_of(i))))
        return matched, w

    def first_match_clauses(self, cx, i, w, matched, what):
        """w is the FIRST right row with an equal, non-missing key; without a match there is no such row."""
        ctx = cx.ctx
        B = cx.inputs["other"].sym
        okB, keyeq, log, im = self.match_terms(cx)
        j = ctx.fresh("j", INT)
        cx.prove(f"{what}:matched row is a right row with equal non-missing key",
                 z3.Implies(matched, z3.And(in_range(w, B["nrow"]), okB(w), keyeq(i, w))))
        cx.prove(f"{what}:it is the first such row",
                 z3.Implies(z3.And(matched, 0 <= j, j < w), z3.Not(z3.And(okB(j), keyeq(i, j)))))
        # chain of lemmas for the unmatched case: a right row j with usable key survives drop_na (at rank t), has a
        # representative kept by unique (at rank u), whose key is in the lookup table
        U, Dn = log["unique"], log["drop_na"]
        hyp = z3.And(in_range(j, B["nrow"]), okB(j), keyeq(i, j))
        t = Dn["enum"].rk(j)
        cx.prove(f"{what}:lemma:row j survives drop_na", z3.Implies(hyp, z3.And(in_range(t, Dn["enum"].cnt), Dn["enum"].idx(t) == j)))
        rp = U["rep"](t)
        u = U["enum"].rk(rp)
        cx.prove(f"{what}:lemma:its representative is kept by unique",
                 z3.Implies(hyp, z3.And(in_range(rp, Dn["enum"].cnt), in_range(u, U["enum"].cnt), U["enum"].idx(u) == rp)))
        cx.prove(f"{what}:lemma:the representative has the key of row j",
                 z3.Implies(hyp, z3.And(*[U["elem"](p, u) == B["elem"](p, j) for p in cx.inputs["p2"]])))
        cx.prove(f"{what}:lemma:that key is in the lookup table", z3.Implies(hyp, im.has(im.key(u))))
        cx.prove(f"{what}:unmatched means no right row has an equal non-missing key",
                 z3.Implies(z3.And(z3.Not(matched), in_range(j, B["nrow"])), z3.Not(z3.And(okB(j), keyeq(i, j)))))


@register
class LeftJoin1(_Join):
    """left_join(other, key): every left row once, in order, own columns unchanged; each new column holds the value of
    the first right row with an equal non-missing key, else the missing value of a dtype able to hold it."""
    qualname, variant = "DataFrame.left_join", "one same-named key"

    def ensures(self, cx, result):
        ctx, it = cx.ctx, cx.it
        self_, other = cx.inputs["self"], cx.inputs["other"]
        A, B = self_.sym, other.sym
        cx.prove("result-is-DataFrame", is_frame(result))
        an = self.analysis(cx)
        if an is None:
            return
        matched_f, w_f = an
        n, name_at, col_at = flat(cx, result)
        knames = [M.to_v(it, r) for l, r in self.keys]
        extra = lambda c: z3.And(*[B["name_at"](c) != k for k in knames], z3.Not(A["family"].has(B["name_at"](c))))
        e = Enum.of(ctx, B["ncol"], extra)
        cx.prove("number-of-columns", zint(n) == A["ncol"] + e.cnt)
        c, i = ctx.fresh("c", INT), ctx.fresh("i", INT)
        snap = ctx.snapshot()
        ctx.assume(in_range(c, A["ncol"]))
        cx.prove("left-columns:names-in-order", name_at(c) == A["name_at"](c))
        col_same(cx, col_at(c), self_, c, "left column")
        ctx.restore(snap)
        matched, w = matched_f(i), w_f(i)
        ctx.assume(in_range(i, A["nrow"]))
        self.first_match_clauses(cx, i, w, matched, "match")
        ctx.assume(in_range(c, e.cnt))
        oc = e.idx(c)
        col = col_at(A["ncol"] + c)
        cx.prove("right-columns:names-in-order", name_at(A["ncol"] + c) == B["name_at"](oc))
        cx.prove("right-columns:length = left nrow", zint(col.len) == zint(A["nrow"]))
        cx.prove("right-columns:value of the first matching right row, else missing",
                 M.to_v(it, col.seq.at(i)) == z3.If(matched, B["elem"](oc, w), na_value_term(it, B["kind"](oc))))
        cx.prove("right-columns:dtype able to hold the missing value", kind_term(col.kind) == na_kind_term(B["kind"](oc)))
        cx.prove("fresh:right-columns:new-buffer", col.freshness())
        ctx.restore(snap)
        common_frame_clauses(cx, result, self_)


@register
class LeftJoinRenamed(LeftJoin1):
    variant, keys = "one key named differently on the two sides", (("k1", "k2"),)


@register
class LeftJoin2(LeftJoin1):
    variant, keys = "two keys", (("k1", "k1"), ("k2", "k2"))


class _SubsetJoin(_Join):
    """joins whose result consists of a subset of the left rows"""
    keep_matched = True
    with_right = False

    def ensures(self, cx, result):
        ctx, it = cx.ctx, cx.it
        self_, other = cx.inputs["self"], cx.inputs["other"]
        A, B = self_.sym, other.sym
        cx.prove("result-is-DataFrame", is_frame(result))
        an = self.analysis(cx)
        if an is None:
            return
        matched_f, w_f = an
        knames = [M.to_v(it, rr) for l, rr in self.keys]
        extra = lambda c: z3.And(*[B["name_at"](c) != k for k in knames], z3.Not(A["family"].has(B["name_at"](c))))
        ee = Enum.of(ctx, B["ncol"], extra) if self.with_right else None
        sel = (lambda i: matched_f(i)) if self.keep_matched else (lambda i: z3.Not(matched_f(i)))
        e = Enum.of(ctx, A["nrow"], sel)
        r = Seq(e.cnt, lambda j: e.idx(j), INT)
        i = ctx.fresh("i", INT)
        snap = ctx.snapshot()
        ctx.assume(in_range(i, A["nrow"]))
        self.first_match_clauses(cx, i, w_f(i), matched_f(i), "match")
        ctx.restore(snap)
        enumerates(cx, r, A["nrow"], sel, "kept-left-rows")
        if not self.with_right:
            rows_of(cx, result, self_, r)
            return
        n, name_at, col_at = flat(cx, result)
        cx.prove("number-of-columns", zint(n) == A["ncol"] + ee.cnt)
        c, j = ctx.fresh("c", INT), ctx.fresh("j", INT)
        ctx.assume(in_range(c, A["ncol"]))
        cx.prove("left-columns:names-in-order", name_at(c) == A["name_at"](c))
        col = col_at(c)
        cx.prove("left-columns:length", zint(col.len) == e.cnt)
        cx.prove("left-columns:values of the kept left rows", z3.Implies(in_range(j, e.cnt), M.to_v(it, col.seq.at(j)) == A["elem"](c, e.idx(j))))
        cx.prove("fresh:left-columns:new-buffer", col.freshness())
        ctx.restore(snap)
        ctx.assume(in_range(c, ee.cnt))
        oc = ee.idx(c)
        col = col_at(A["ncol"] + c)
        cx.prove("right-columns:names-in-order", name_at(A["ncol"] + c) == B["name_at"](oc))
        cx.prove("right-columns:length", zint(col.len) == e.cnt)
        cx.prove("right-columns:value of the first matching right row",
                 z3.Implies(in_range(j, e.cnt), M.to_v(it, col.seq.at(j)) == B["elem"](oc, w_f(e.idx(j)))))
        cx.prove("fresh:right-columns:new-buffer", col.freshness())
        ctx.restore(snap)
        common_frame_clauses(cx, result, self_)


@register
class InnerJoin1(_SubsetJoin):
    """inner_join = the matched subset of left_join (same rows, same order, same partner rows)"""
    qualname, variant, with_right = "DataFrame.inner_join", "one same-named key", True


@register
class InnerJoinRenamed(_SubsetJoin):
    """... also when the key is named differently on the two sides: the right key column is not carried over"""
    qualname, variant, with_right, keys = "DataFrame.inner_join", "key named differently", True, (("k1", "k2"),)


@register
class SemiJoin1(_SubsetJoin):
    qualname, variant = "DataFrame.semi_join", "one same-named key"


@register
class AntiJoin1(_SubsetJoin):
    qualname, variant, keep_matched = "DataFrame.anti_join", "one same-named key", False


@register
class SemiJoinRenamed(_SubsetJoin):
    qualname, variant, keys = "DataFrame.semi_join", "key named differently", (("k1", "k2"),)


@register
class AntiJoin2(_SubsetJoin):
    qualname, variant, keep_matched, keys = "DataFrame.anti_join", "two keys", False, (("k1", "k1"), ("k2", "k2"))


@register
class RenameSwapDF(_DF):
    """rename(k2="k1", k1="k2"): a permutation of existing names - positions and values unchanged, names swapped"""
    qualname, prop, variant = "DataFrame.rename", "C09", "swap of two names"
    also = ("C01", "C06")

    def setup(self, cx):
        self_ = sym_frame(cx, "self")
        p1, p2 = named_column(cx, self_, "k1"), named_column(cx, self_, "k2")
        return {"self": self_, "kwargs": {"k2": "k1", "k1": "k2"}, "p1": p1, "p2": p2}

    def ensures(self, cx, result):
        ctx = cx.ctx
        self_ = cx.inputs["self"]
        sym = self_.sym
        cx.prove("result-is-DataFrame", is_frame(result))
        n, name_at, col_at = flat(cx, result)
        c = ctx.fresh("c", INT)
        cx.prove("number-of-columns", zint(n) == sym["ncol"])
        ctx.assume(in_range(c, sym["ncol"]))
        k1, k2 = M.to_v(cx.it, "k1"), M.to_v(cx.it, "k2")
        cx.prove("names: the two names swapped in place, others kept",
                 name_at(c) == z3.If(c == cx.inputs["p1"], k2, z3.If(c == cx.inputs["p2"], k1, sym["name_at"](c))))
        col_same(cx, col_at(c), self_, c, "column")
        common_frame_clauses(cx, result, self_)


def make_cbind_inv2(holder):
    def inv(S):
        found = S.contents(S.var("found_colnames"))
        fam, fam2 = holder["self"].sym["family"], holder["other"].sym["family"]
        x, p = z3.Const("x!inv", V), z3.Int("p!inv")
        names = S.coll
        return z3.ForAll([x], found.mem(x) == z3.Or(fam.has(x), fam2.has(x),
                                                    z3.Exists([p], z3.And(0 <= p, p < S.k, M.to_v(S.it, names.at(p)[0]) == x))))
    return inv


_cb2_holder = {}


@register
class CbindTwoDF(_DF):
    """cbind(b, c): the first occurrence of every name wins, also between the two arguments"""
    qualname, prop, variant = "DataFrame.cbind", "C09", "two other frames"
    also = ("C01", "C06")
    loops = {("DataFrame.cbind", 0): LoopSpec(cbind_inv0, kinds={"found_colnames": "set"}), ("DataFrame.cbind", 1): LoopSpec(make_cbind_inv1(_cb2_holder), kinds={"found_colnames": "set"}),
             ("DataFrame.cbind", 2): LoopSpec(make_cbind_inv2(_cb2_holder), kinds={"found_colnames": "set"})}

    def setup(self, cx):
        self_ = sym_frame(cx, "self")
        b = sym_frame(cx, "other", nrow=self_.sym["nrow"])
        c = sym_frame(cx, "third", nrow=self_.sym["nrow"])
        cx.assume(z3.And(self_.sym["ncol"] > 0, b.sym["ncol"] > 0, c.sym["ncol"] > 0))
        _cb2_holder.update(self=self_, other=b)
        return {"self": self_, "args": [b, c], "b": b, "c": c}

    def ensures(self, cx, result):
        ctx = cx.ctx
        A, Bf, Cf = cx.inputs["self"], cx.inputs["b"], cx.inputs["c"]
        a, b, c3 = A.sym, Bf.sym, Cf.sym
        cx.prove("result-is-DataFrame", is_frame(result))
        newb = lambda c: z3.Not(a["family"].has(b["name_at"](c)))
        newc = lambda c: z3.And(z3.Not(a["family"].has(c3["name_at"](c))), z3.Not(b["family"].has(c3["name_at"](c))))
        eb = Enum.of(ctx, b["ncol"], newb)
        ec = Enum.of(ctx, c3["ncol"], newc)
        n, name_at, col_at = flat(cx, result)
        cx.prove("number-of-columns", zint(n) == a["ncol"] + eb.cnt + ec.cnt)
        c = ctx.fresh("c", INT)
        snap = ctx.snapshot()
        ctx.assume(in_range(c, a["ncol"]))
        cx.prove("receiver:names-in-order", name_at(c) == a["name_at"](c))
        col_same(cx, col_at(c), A, c, "receiver column")
        ctx.restore(snap)
        ctx.assume(in_range(c, eb.cnt))
        cx.prove("second:new-names-in-order", name_at(a["ncol"] + c) == b["name_at"](eb.idx(c)))
        col_same(cx, col_at(a["ncol"] + c), Bf, eb.idx(c), "new column of the second frame")
        ctx.restore(snap)
        ctx.assume(in_range(c, ec.cnt))
        cx.prove("third:new-names-in-order", name_at(a["ncol"] + eb.cnt + c) == c3["name_at"](ec.idx(c)))
        col_same(cx, col_at(a["ncol"] + eb.cnt + c), Cf, ec.idx(c), "new column of the third frame")
        ctx.restore(snap)
        common_frame_clauses(cx, result, A)


def _mk_set_2d(key):
    class S2(_Proto):
        """an array that is not one-dimensional (0-d scalar array, matrix, ...) is never stored as a column"""
        qualname, variant = "DataFrame.__setitem__", f"key {key!r}: DataFrameColumn value of any dimension other than 1"

        def setup(self, cx):
            f = self.frame(cx)
            v = other_vector(cx, "value", f.conc["nrow"], column=True)
            nd = cx.int("ndim")
            cx.assume(z3.And(nd >= 0, nd != 1))
            v.ndim = nd
            return {"self": f, "args": [key, v]}

        def ensures(self, cx, result):
            names, cols = wf_and_coherent(cx, cx.inputs["self"], "frame")

        def raises(self, cx, exc):
            cx.prove("only-ValueError", exc.exc == "ValueError")
            wf_and_coherent(cx, cx.inputs["self"], "frame after the rejected assignment")
    S2.__name__ = "Set2D_" + key
    return register(S2)


_mk_set_2d("a")
_mk_set_2d("b")


@register
class FullJoinBounded(_DF):
    """full_join is a composite of nine calls (modify, left_join x2, anti_join, rbind, sort, unselect, pop/setitem);
    it is NOT brought under a deductive contract.  This entry only attaches the bounded run-time contract (every left
    and right row at least once, no pair with unequal keys, total on empty sides) so that it runs in
    every tier; it contributes one structural obligation (the method still exists
    and still delegates to left_join / anti_join / rbind)."""
    qualname, prop, variant = "DataFrame.full_join", "C05", "bounded only"
    lemma_only = True
    always_bounded = True

    def setup(self, cx):
        return {"self": None}

    def ensures(self, cx, result):
        import ast as _a
        from pyvc.extract import RepoModule
        node = RepoModule.load(F, cx.it.repo).find("DataFrame.full_join")[0]
        called = {n.func.attr for n in _a.walk(node) if isinstance(n, _a.Call) and isinstance(n.func, _a.Attribute)}
        cx.prove("the bounded run-time contract of full_join is attached (runs in every tier)", True)
        # premise of the modular reading (not an obligation: a restructured body is decided by the bounded contract alone)
        cx.premise("full_join delegates to left_join, anti_join, rbind, sort", {"left_join", "anti_join", "rbind", "sort"} <= called)


# =========================================================================================
# C03: sort
# =========================================================================================
def vector_rank_contract(it, args, kwargs):
    """Callee contract of Vector.rank(method="min") as used by DataFrame.sort (the rank formulas are checked by the
    bounded contract of C11): integer ranks that embed the order - missing values rank after all others, ties share a rank."""
    from pyvc.core import v_lt
    a = args[0]
    if kwargs.get("method", "min") != "min":
        raise Unsupported("rank contract: method other than 'min'")
    ctx = it.ctx
    s = a.seq
    rk = ctx.fresh_fn("rankmin", INT, INT)
    i, j = z3.Ints("i!rk j!rk")
    na = lambda t: na_formula(it, a.kind, s.at(t))
    before = lambda p, q: z3.And(z3.Not(na(p)), z3.Or(na(q), v_lt(s.at(p), s.at(q))))
    ctx.assumptions.append(z3.ForAll([i, j], z3.Implies(z3.And(in_range(i, s.len), in_range(j, s.len)),
                                                        (rk(i) < rk(j)) == before(i, j)), patterns=[z3.MultiPattern(rk(i), rk(j))]))
    ctx.used_models.add("Vector.rank(method='min') embeds the order, missing values last (formulas: bounded contract of C11)")
    return NDArr(ctx, Seq(s.len, lambda t: rk(t), INT), "int", "fresh", a.cls)


SORT_CALLEES = dict(DF_CALLEES)
from contracts.vector import optimize_for_argsort_contract as _opt_contract
SORT_CALLEES.update({"Vector.rank": vector_rank_contract, "Vector._optimize_for_argsort": _opt_contract})


def comparable_column(cx, self_, p):
    """the non-missing elements of key column p are mutually comparable (strict total order)"""
    from pyvc.core import v_lt
    ctx = cx.ctx
    x, y, z = z3.Consts("x!to y!to z!to", V)
    done = ctx.__dict__.setdefault("_order_axioms", False)
    if not done:
        ctx.__dict__["_order_axioms"] = True
        ctx.assumptions.append(z3.ForAll([x], z3.Not(v_lt(x, x)), patterns=[v_lt(x, x)]))
        ctx.assumptions.append(z3.ForAll([x, y, z], z3.Implies(z3.And(v_lt(x, y), v_lt(y, z)), v_lt(x, z)),
                                         patterns=[z3.MultiPattern(v_lt(x, y), v_lt(y, z))]))
    i, j = z3.Ints("i!cc j!cc")
    e = lambda t: self_.sym["elem"](p, t)
    n = self_.sym["nrow"]
    ctx.assumptions.append(z3.ForAll([i, j], z3.Implies(z3.And(in_range(i, n), in_range(j, n), e(i) != e(j)),
                                                        z3.Or(v_lt(e(i), e(j)), v_lt(e(j), e(i)))),
                                     patterns=[z3.MultiPattern(e(i), e(j))]))


class _SortDF(_DF):
    """DataFrame.sort: a permutation of whole rows, ordered lexicographically by the keys in the requested directions
    (numbers numerically, strings by code point, dates chronologically, False before True), stable; missing keys are
    grouped at one end of their tie group - the end, when the key is ascending."""
    qualname, prop = "DataFrame.sort", "C03"
    also = ("C01", "C06")
    callees = SORT_CALLEES
    dirs = (1,)
    timeout_ms = 20000

    def setup(self, cx):
        self_ = sym_frame(cx, "self")
        typed_elements(cx, self_)
        names = ["k1", "k2"][:len(self.dirs)]
        ps = [named_column(cx, self_, nm) for nm in names]
        marker = M.to_v(cx.it, "\U0010ffff")
        jj = z3.Int("j!mk")
        from pyvc.core import v_lt
        for p in ps:
            comparable_column(cx, self_, p)
            # U+10FFFF (a noncharacter) is the highest code point: every string value sorts before it
            isstr = z3.Or(self_.sym["kind"](p) == KCODE["string"], self_.sym["kind"](p) == KCODE["fixedstr"])
            e_ = self_.sym["elem"](p, jj)
            cx.ctx.assumptions.append(z3.ForAll([jj], z3.Implies(z3.And(isstr, in_range(jj, self_.sym["nrow"])),
                                                                 z3.And(e_ != marker, v_lt(e_, marker))), patterns=[e_]))
            # kinds the property covers (bytes and unsigned are outside its dtype list)
            cx.assume(z3.And(self_.sym["kind"](p) != KCODE["bytes"], self_.sym["kind"](p) != KCODE["uint"]))
        return {"self": self_, "kwargs": dict(zip(names, self.dirs)), "ps": ps}

    def ensures(self, cx, result):
        from pyvc.core import v_lt
        ctx, it = cx.ctx, cx.it
        self_ = cx.inputs["self"]
        sym = self_.sym
        n = sym["nrow"]
        pm = it.__dict__.get("last_lexsort")
        cx.prove("ghost:lexsort-permutation-available", pm is not None)
        if pm is None:
            return
        r = Seq(n, lambda j: pm.perm(j), INT)
        rows_of(cx, result, self_, r)
        a, b = ctx.fresh("a", INT), ctx.fresh("b", INT)
        cx.prove("permutation: every row exactly once",
                 z3.Implies(in_range(a, n), z3.And(in_range(pm.perm(a), n), pm.inv(pm.perm(a)) == a, in_range(pm.inv(a), n), pm.perm(pm.inv(a)) == a)))

        def before(q, x, y):
            p, d = cx.inputs["ps"][q], self.dirs[q]
            k = sym["kind"](p)
            ex, ey = sym["elem"](p, x), sym["elem"](p, y)
            nx, ny = na_formula(it, k, ex), na_formula(it, k, ey)
            if d > 0:
                return z3.And(z3.Not(nx), z3.Or(ny, v_lt(ex, ey)))
            na_last = z3.Or(k == KCODE["float"], k == KCODE["timedelta"])      # where the code puts missing keys when descending
            val = z3.And(z3.Not(nx), z3.Not(ny), v_lt(ey, ex))
            return z3.Or(val, z3.If(na_last, z3.And(z3.Not(nx), ny), z3.And(nx, z3.Not(ny))))

        def lex(q, x, y):
            if q == len(self.dirs):
                return z3.BoolVal(False)
            return z3.Or(before(q, x, y), z3.And(z3.Not(before(q, y, x)), lex(q + 1, x, y)))
        rng = z3.And(0 <= a, a < b, b < n)
        cx.prove("ordered: no later row sorts strictly before an earlier one", z3.Implies(rng, z3.Not(lex(0, pm.perm(b), pm.perm(a)))))
        cx.prove("stable: rows equal on all keys keep their original order",
                 z3.Implies(z3.And(rng, z3.Not(lex(0, pm.perm(a), pm.perm(b)))), pm.perm(a) < pm.perm(b)))


@register
class SortDFAsc(_SortDF):
    variant, dirs = "one key ascending", (1,)
    also = ("C01", "C04", "C06")        # grouping sorts ascending by the group columns and relies on order + stability


@register
class SortDFDesc(_SortDF):
    variant, dirs = "one key descending", (-1,)


@register
class SortDFAscAsc(_SortDF):
    variant, dirs = "two keys asc,asc", (1, 1)
    also = ("C01", "C04", "C06")


@register
class SortDFAscDesc(_SortDF):
    variant, dirs = "two keys asc,desc", (1, -1)


@register
class SortDFDescAsc(_SortDF):
    variant, dirs = "two keys desc,asc", (-1, 1)


@register
class SortDFDescDesc(_SortDF):
    variant, dirs = "two keys desc,desc", (-1, -1)


# ---- C06: methods without a deductive frame / freshness contract -------------------------------------------------------
# aggregate, count, compare, deepcopy, map, split, full_join, grouped modify, to_*; Vector.as_bytes/as_date/as_datetime/as_object,
# map, range, rank, to_string(s): bounded run-time contract only (receiver and arguments unchanged, no shared memory, a later
# in-place edit of the result not observable), run in every tier, labelled bounded.
from pyvc.contract import bounded_only as _bounded_only
_bounded_only("C06", "dataiter/data_frame.py::DataFrame[every public non-in-place method: no mutation, no aliasing]",
              "one driver over all public non-in-place DataFrame methods; the ones that also have a deductive frame/freshness contract are listed "
              "under functions_under_contract")
_bounded_only("C06", "dataiter/vector.py::Vector[every public non-in-place method: no mutation, no aliasing]",
              "one driver over all public non-in-place Vector methods; the ones that also have a deductive frame/freshness contract are listed "
              "under functions_under_contract")

_bounded_only("C02", "dataiter/data_frame.py::DataFrame.slice[rows: longer index vectors with repeats and disorder]",
              "replay scope for the slice / slice_off contracts: index vectors of 3-4 positions (the deductive contracts cover every length; "
              "this driver supplies concrete counterexamples and the CPython cross-check beyond two positions)")
_bounded_only("C09", "dataiter/data_frame.py::DataFrame[every public non-in-place method: no mutation, no aliasing]",
              "the same sweep under C09: its clause 'called with nothing to add (cbind() / rbind() / slice() without arguments) the result holds the "
              "receiver's columns and values' belongs to the column-manipulation property")
_bounded_only("C01", "dataiter/data_frame.py::DataFrame.modify[grouped: per-group results of a wrong length are rejected]",
              "grouped modify goes through split / per-group callbacks / concatenate (not executed symbolically): the broadcast rule per group - one value or "
              "one per row of the group, anything else rejected - is a bounded run-time contract, every tier")
for _pp in ("C02", "C05"):
    _bounded_only(_pp, "dataiter/data_frame.py::DataFrame.unique[one key column: longer frames with many duplicates]",
                  "replay scope for the unique / join contracts beyond three rows (the deductive contracts cover every length; a sort-based shortcut "
                  "that is not stable shows from four rows on, an unstable argsort beyond ~16)")
_bounded_only("C05", "dataiter/data_frame.py::DataFrame.full_join[mixed key list: a plain name before a (left, right) pair]",
              "full_join is a composite outside the deductive contracts; this driver covers its key-renaming loop")

_bounded_only("C09", "dataiter/data_frame.py::DataFrame.update[mappings with scalars, lists and columns of any length]",
              "update with plain mappings (scalars / length-1 / wrong-length values): broadcast to the receiver's row count or ValueError")
_bounded_only("C01", "dataiter/data_frame.py::DataFrame.update[mappings with scalars, lists and columns of any length]",
              "update with plain mappings (scalars / length-1 / wrong-length values): broadcast to the receiver's row count or ValueError")
_bounded_only("C09", "dataiter/data_frame.py::DataFrame.unselect[names containing one another]", "a name that is a substring of / contains other column names")
