# -*- coding: utf-8 -*-
"""C19: dataiter.dt and dataiter.regex act element-wise, with a missing value at every missing position.

Deductive part: the three element-wise engines of dt.py (_pull_int, _pull_datetime, _pull_str) against an arbitrary
(uninterpreted) per-element function: result[i] = conversion(function(object(x[i]))) at every non-missing position - the same
function of the element alone, independent of position and of the other elements - and the missing value of the result type at
every NaT; length kept; the input is not written.  What Python's datetime / re compute for one element is NOT modelled (it is
the uninterpreted function); the agreement with datetime / re on concrete values is a bounded run-time contract."""
import z3

from pyvc.contract import Contract, register, bounded_only
from pyvc.core import V, INT, BOOL, NONE, Seq, in_range, zint
from pyvc import models as M
from pyvc.models_np import NDArr, KCODE, NAN, NAT, is_nat, is_nan, kind_term, no_input_writes
from contracts.vector import sym_vector

D = "dataiter/dt.py"


class _Pull(Contract):
    file, prop = D, "C19"
    engine = "_pull_int"

    def setup(self, cx):
        x = sym_vector(cx, "x", kind="datetime")
        f = cx.callback("function")
        v, h = z3.Const("v!f", V), z3.Const("h!f", f.fn.domain(1))
        # the per-element function returns a proper value of the result type (an int / a datetime / a str), never a missing one
        cx.assume(z3.ForAll([v, h], z3.And(z3.Not(is_nan(f.fn(v, h))), z3.Not(is_nat(f.fn(v, h))), f.fn(v, h) != NONE,
                                           f.fn(v, h) != cx.ctx.lit("")), patterns=[f.fn(v, h)]))
        return {"self": None, "args": [x, f], "x": x, "f": f}


@register
class PullInt(_Pull):
    """_pull_int(x, function) for a datetime vector x."""
    qualname = "_pull_int"

    def ensures(self, cx, result):
        x, f = cx.inputs["x"], cx.inputs["f"]
        ok = isinstance(result, NDArr)
        cx.prove("result is a vector", ok)
        if not ok:
            return
        j = cx.ctx.fresh("j", INT)
        n = x.sym["len"]
        cx.prove("same length", zint(result.len) == n)
        cx.prove("missing exactly at NaT", z3.Implies(in_range(j, n), is_nan(M.to_v(cx.it, result.seq.at(j))) == is_nat(x.sym["elem"](j))))
        self.elementwise(cx, result, j)
        i = cx.ctx.fresh("i", INT)
        some_na = z3.Exists([i], z3.And(in_range(i, n), is_nat(x.sym["elem"](i))))
        cx.prove("integer result unless a missing value has to be held (then float; an empty result may be either)",
                 z3.Implies(n > 0, kind_term(result.kind) == z3.If(some_na, KCODE["float"], KCODE["int"])))
        cx.prove("frame:no-write-into-input-buffers", no_input_writes(cx.ctx))

    def elementwise(self, cx, result, j):
        """at a non-missing position the result is the function's value for the Python object of THAT element"""
        x, f = cx.inputs["x"], cx.inputs["f"]
        obj = z3.Function("cast_object", V, V)          # ndarray.astype(object): datetime64 -> datetime.date / datetime
        xj = x.sym["elem"](j)
        cx.prove("element-wise: result[j] = function(object of x[j]) at every non-missing position",
                 z3.Implies(z3.And(in_range(j, x.sym["len"]), z3.Not(is_nat(xj))),
                            M.to_v(cx.it, result.seq.at(j)) == f.apply(cx.it, obj(xj))))


@register
class PullDatetime(_Pull):
    """_pull_datetime(x, function): a datetime vector with NaT exactly where x has NaT."""
    qualname = "_pull_datetime"

    def ensures(self, cx, result):
        x = cx.inputs["x"]
        ok = isinstance(result, NDArr)
        cx.prove("result is a vector", ok)
        if not ok:
            return
        j = cx.ctx.fresh("j", INT)
        n = x.sym["len"]
        cx.prove("same length", zint(result.len) == n)
        cx.prove("datetime result", kind_term(result.kind) == KCODE["datetime"])
        cx.prove("missing exactly at NaT", z3.Implies(in_range(j, n), is_nat(M.to_v(cx.it, result.seq.at(j))) == is_nat(x.sym["elem"](j))))
        PullInt.elementwise(self, cx, result, j)
        cx.prove("frame:no-write-into-input-buffers", no_input_writes(cx.ctx))


@register
class PullStr(_Pull):
    """_pull_str(x, function): a string vector with '' exactly where x has NaT."""
    qualname = "_pull_str"

    def ensures(self, cx, result):
        x, f = cx.inputs["x"], cx.inputs["f"]
        ok = isinstance(result, NDArr)
        cx.prove("result is a vector", ok)
        if not ok:
            return
        j = cx.ctx.fresh("j", INT)
        n = x.sym["len"]
        cx.prove("same length", zint(result.len) == n)
        cx.prove("string result", kind_term(result.kind) == KCODE["string"])
        xj = x.sym["elem"](j)
        obj = z3.Function("cast_object", V, V)
        tostr = z3.Function("cast_string", V, V)         # as_string of the object vector holding the function's str results
        cx.prove("element-wise: result[j] = string conversion of function(object of x[j]) at non-missing positions, of '' at NaT",
                 z3.Implies(in_range(j, n), M.to_v(cx.it, result.seq.at(j)) ==
                            tostr(z3.If(is_nat(xj), cx.ctx.lit(""), f.apply(cx.it, obj(xj))))))
        cx.prove("frame:no-write-into-input-buffers", no_input_writes(cx.ctx))


# ---- the extractors: which engine, which per-element function ----------------------------------------------------------
_ATTR = lambda name: (lambda p: z3.Function("attr_" + name, V, V)(p))
_CALL0 = lambda name: (lambda p: z3.Function("call0", V, V)(z3.Function("attr_" + name, V, V)(p)))
EXTRACTORS = {
    "year": ("_pull_int", _ATTR("year")), "month": ("_pull_int", _ATTR("month")), "day": ("_pull_int", _ATTR("day")),
    "hour": ("_pull_int", _ATTR("hour")), "minute": ("_pull_int", _ATTR("minute")), "second": ("_pull_int", _ATTR("second")),
    "microsecond": ("_pull_int", _ATTR("microsecond")),
    "weekday": ("_pull_int", _CALL0("weekday")), "isoweekday": ("_pull_int", _CALL0("isoweekday")),
    "isoweek": ("_pull_int", lambda p: z3.Function("item_of", V, V, V)(_CALL0("isocalendar")(p), M.vint(z3.IntVal(1)))),
}


def _mk_extractor(name):
    engine, spec = EXTRACTORS[name]

    @register
    class X(Contract):
        __doc__ = (f"dt.{name}(x) = {engine}(x, f) where f(y) is y's datetime component '{name}' (datetime attribute / method, left "
                   "uninterpreted): one call of the engine, x handed over as given, the engine's result returned untouched.")
        file, qualname, prop = D, name, "C19"
        config = {"opaque_objects": True}
        always_bounded = True       # what datetime computes for one element is outside the contract: compared with Python's datetime in every tier

        def setup(self, cx):
            x = sym_vector(cx, "x", kind="datetime")
            calls = []
            ret = NDArr(cx.ctx, Seq(x.sym["len"], lambda j: z3.Function("engine_result", INT, V)(j), V), "float", "fresh", x.cls)

            def engine_contract(it, args, kwargs):
                calls.append((args, kwargs))
                return ret
            self.callees = {engine: engine_contract}
            cx.calls, cx.ret = calls, ret
            return {"self": None, "args": [x], "x": x}

        def ensures(self, cx, result):
            it = cx.it
            cx.prove(f"exactly one call of {engine}", len(cx.calls) == 1)
            if len(cx.calls) != 1:
                return
            args, kwargs = cx.calls[0]
            cx.prove("the vector is handed to the engine as given", len(args) == 2 and not kwargs and args[0] is cx.inputs["x"])
            cx.prove("the engine's result is returned untouched", result is cx.ret)
            p = cx.ctx.fresh("probe", V)
            got = it.call(args[1], [p], {})
            cx.prove(f"the per-element function reads the datetime component '{name}'", M.to_v(it, got) == spec(p))
    X.__name__ = "Dt_" + name
    return X


for _n in EXTRACTORS:
    _mk_extractor(_n)


@register
class DtToString(Contract):
    """dt.to_string(x, format) = _pull_str(x, f) with f(y) = y.strftime(format)."""
    file, qualname, prop = D, "to_string", "C19"
    config = {"opaque_objects": True}
    always_bounded = True           # strftime / strptime semantics and from_string as the inverse: bounded, every tier

    def setup(self, cx):
        x = sym_vector(cx, "x", kind="datetime")
        fmt = cx.val("format")
        calls = []
        ret = NDArr(cx.ctx, Seq(x.sym["len"], lambda j: z3.Function("engine_result", INT, V)(j), V), "string", "fresh", x.cls)

        def engine_contract(it, args, kwargs):
            calls.append((args, kwargs))
            return ret
        self.callees = {"_pull_str": engine_contract}
        cx.calls, cx.ret, cx.fmt = calls, ret, fmt
        return {"self": None, "args": [x, fmt], "x": x}

    def ensures(self, cx, result):
        it = cx.it
        cx.prove("exactly one call of _pull_str", len(cx.calls) == 1)
        if len(cx.calls) != 1:
            return
        args, kwargs = cx.calls[0]
        cx.prove("the vector is handed to the engine as given", len(args) == 2 and not kwargs and args[0] is cx.inputs["x"])
        cx.prove("the engine's result is returned untouched", result is cx.ret)
        p = cx.ctx.fresh("probe", V)
        got = it.call(args[1], [p], {})
        cx.prove("the per-element function is strftime with the given format",
                 M.to_v(it, got) == z3.Function("call1", V, V, V)(z3.Function("attr_strftime", V, V)(p), cx.fmt))


R = "dataiter/regex.py"


def sym_string_vector(cx, name):
    return sym_vector(cx, name, kind="string")


def _mk_regex(name, has_repl, kwnames, missing):
    """kwnames: the optional keywords of the function in signature order; missing: "none" | "empty string" """
    @register
    class RX(Contract):
        __doc__ = (f"regex.{name}(pattern, ..., string vector): re.{name} (an uninterpreted pure function of ALL its arguments: pattern, "
                   "replacement, the element, every keyword under its own name) at every non-missing position, the missing value "
                   f"({missing}) elsewhere; same length; result kind; the input is not written.")
        file, qualname, prop = R, name, "C19"
        config = {"opaque_objects": True}
        always_bounded = True       # agreement with Python's re on concrete strings and patterns: bounded, every tier

        def setup(self, cx):
            x = sym_string_vector(cx, "string")
            pat = cx.val("pattern")
            extra = [cx.val("repl")] if has_repl else []
            kw = {k: cx.val("kw_" + k) for k in kwnames}
            return {"self": None, "args": [pat] + extra + [x], "kwargs": kw, "x": x, "pat": pat, "extra": extra, "kw": kw}

        def ensures(self, cx, result):
            it = cx.it
            x, pat, extra, kw = cx.inputs["x"], cx.inputs["pat"], cx.inputs["extra"], cx.inputs["kw"]
            ok = isinstance(result, NDArr)
            cx.prove("result is a vector", ok)
            if not ok:
                return
            j = cx.ctx.fresh("j", INT)
            n = x.sym["len"]
            cx.prove("same length", zint(result.len) == n)
            xj = x.sym["elem"](j)
            vs = [pat] + extra + [xj] + [M.mk_tuple(cx.ctx, [M.to_v(it, k), kw[k]]) for k in sorted(kw)]
            fn = z3.Function(f"re_{name}_{len([pat] + extra) + 1}_{'_'.join(sorted(kw))}", *([V] * len(vs)), V)
            na = cx.ctx.lit("") if missing == "empty string" else NONE
            is_missing_in = xj == cx.ctx.lit("")
            cx.prove(f"element-wise: re.{name}(pattern, [repl,] element, keywords) at non-missing positions, the missing value elsewhere",
                     z3.Implies(in_range(j, n), M.to_v(it, result.seq.at(j)) == z3.If(is_missing_in, na, fn(*vs))))
            cx.prove("result kind", kind_term(result.kind) == (KCODE["string"] if missing == "empty string" else KCODE["object"]))
            cx.prove("frame:no-write-into-input-buffers", no_input_writes(cx.ctx))
    RX.__name__ = "Rx_" + name
    return RX


for _n in ("findall", "fullmatch", "match", "search"):
    _mk_regex(_n, False, ("flags",), "none")
_mk_regex("split", False, ("maxsplit", "flags"), "none")
_mk_regex("sub", True, ("count", "flags"), "empty string")
_mk_regex("subn", True, ("count", "flags"), "none")


def _mk_proxy(cls_name, module_file, bind):
    @register
    class P(Contract):
        __doc__ = (f"Vector.{'dt' if cls_name == 'DtProxy' else 're'} proxy: after the real {cls_name}.__init__ has run, every attribute of the proxy is "
                   "functools.partial of the module function OF THE SAME NAME with the vector bound "
                   f"({'first positional argument' if bind == 'positional' else 'keyword string'}) and nothing else - so a call through the proxy is the "
                   "module function applied to the vector and the caller's arguments.  (The constructor is executed; how it builds the partials - "
                   "lambda, nested def, loop - does not matter.)")
        file, qualname, prop = "dataiter/vector.py", cls_name + ".__init__", "C19"

        def setup(self, cx):
            v = sym_vector(cx, "vector")
            it = cx.it
            mod = it.repo_module("dataiter/vector.py")
            cls = it.class_obj(mod.classes[cls_name])
            from pyvc.interp import Instance
            obj = Instance(cx.ctx, cls)
            return {"self": obj, "args": [v], "v": v, "obj": obj}

        def ensures(self, cx, result):
            from pyvc.interp import Closure
            it = cx.it
            obj, v = cx.inputs["obj"], cx.inputs["v"]
            attrs = {a: x for a, x in obj.attrs.items() if not a.startswith("_")}
            cx.prove("the proxy has the module's functions", len(attrs) >= 7)
            target = it.repo_module(module_file)
            for a, x in sorted(attrs.items()):
                ok = isinstance(x, M.Partial) and isinstance(x.func, Closure) and x.func.module is target and x.func.node.name == a
                cx.prove(f"{cls_name}.{a} is a partial of {module_file.split('/')[-1][:-3]}.{a}", ok)
                if not ok:
                    continue
                if bind == "positional":
                    cx.prove(f"{cls_name}.{a} binds exactly the vector (first positional argument)", len(x.args) == 1 and x.args[0] is v and not x.kwargs)
                else:
                    cx.prove(f"{cls_name}.{a} binds exactly the vector (keyword string)", not x.args and list(x.kwargs) == ["string"] and x.kwargs["string"] is v)
    P.__name__ = "Proxy_" + cls_name
    return P


@register
class StrProxyContract(Contract):
    """Vector.str proxy: after the real StrProxy.__init__ has run, every attribute is the as_vector wrapper around
    functools.partial(numpy.strings.<SAME NAME>, vector): a call through the proxy is the NumPy string function of that name applied
    to the vector and the caller's arguments, returned as a Vector."""
    file, qualname, prop = "dataiter/vector.py", "StrProxy.__init__", "C19"

    def setup(self, cx):
        v = sym_vector(cx, "vector")
        it = cx.it
        mod = it.repo_module("dataiter/vector.py")
        cls = it.class_obj(mod.classes["StrProxy"])
        from pyvc.interp import Instance
        obj = Instance(cx.ctx, cls)
        return {"self": obj, "args": [v], "v": v, "obj": obj}

    def ensures(self, cx, result):
        from pyvc.interp import Closure
        from pyvc.models_np import NpStringsFn
        obj, v = cx.inputs["obj"], cx.inputs["v"]
        attrs = {a: x for a, x in obj.attrs.items() if not a.startswith("_")}
        cx.prove("the proxy offers the NumPy string functions", len(attrs) >= 40)
        for a, x in sorted(attrs.items()):
            inner = None
            if isinstance(x, Closure):
                try:
                    inner = x.env.lookup("function")
                except Exception:
                    inner = None
            ok = isinstance(inner, M.Partial) and isinstance(inner.func, NpStringsFn) and inner.func.name == a
            cx.prove(f"StrProxy.{a} wraps numpy.strings.{a}", ok)
            if ok:
                cx.prove(f"StrProxy.{a} binds exactly the vector", len(inner.args) == 1 and inner.args[0] is v and not inner.kwargs)


_mk_proxy("DtProxy", "dataiter/dt.py", "positional")
_mk_proxy("ReProxy", "dataiter/regex.py", "string")


for _n, _why in (("quarter", "np.ceil of month / 3: arithmetic on float arrays"),
                 ("replace", "keyword dictionary from locals(); vector replacements in a nested loop")):
    bounded_only("C19", "dataiter/dt.py::" + _n, "not under a deductive contract (" + _why + "): compared with Python's datetime element by element "
                 "over a stated scope; dt.from_string (strptime + date / datetime decision) is checked as the inverse of to_string by the "
                 "to_string driver")
