# -*- coding: utf-8 -*-
"""Contracts for dataiter/aggregate.py (C04 grouping core, C07 helpers, C08 Numba twins)."""
import z3
from pyvc.contract import Contract, register, LoopSpec
from pyvc.core import (INT, BOOL, V, NONE, ABSENT, Seq, seq_eq, filter_seq, Enum, zint, zbool, in_range, conc,
                       Unsupported, PyRaise)
from pyvc import models as M
from pyvc.models_np import NDArr, KINDS, KCODE, kind_is, kind_term, ghost, is_nan, is_nat, no_input_writes
from contracts.data_frame import na_formula, vector_is_na_contract
from contracts.vector import sym_vector, vector_cls

F = "dataiter/aggregate.py"
AGG_CALLEES = {"Vector.is_na": vector_is_na_contract}


def group_ids(cx, n):
    """group id per row: an arbitrary integer array (no contiguity assumed for yield_groups itself)"""
    ctx = cx.ctx
    g = ctx.fresh_fn("group", INT, INT)
    return NDArr(ctx, Seq(n, lambda j: g(j), INT), "int", owner="group", cls=vector_cls(cx.it)), g


def boundary(g, n):
    """iteration k (j = k+1) ends a run: j == n or group[j] != group[j-1]"""
    return lambda k: z3.Or(k + 1 == zint(n), g(k + 1) != g(k))


def make_yg_inv(holder):
    def inv(S):
        """i is the start of the current run: the end of the previous run (or 0), and group is constant on [i, k]"""
        ctx = S.ctx
        g, n = holder["g"], holder["n"]
        e = Enum.of(ctx, n, boundary(g, n))
        holder["enum"] = e
        ctx.assumptions.append(e.unfold(S.k))
        i = S.var("i")
        i = zint(i)
        p = z3.Int("p!yg")
        return {"run-start": i == z3.If(e.cb(S.k) == 0, 0, e.idx(e.cb(S.k) - 1) + 1),
                "bounds": z3.And(0 <= i, i <= S.k),
                "constant-run": z3.ForAll([p], z3.Implies(z3.And(i <= p, p <= S.k, p < zint(n)), g(p) == g(i)))}
    return inv


class _YieldGroups(Contract):
    """yield_groups(x, group, drop_na): one slice per maximal run of equal group ids, in order; the slices tile
    [0, n): slice t = x[start_t : end_t] with end_t the t-th run end and start_t the previous end (0 for t = 0);
    with drop_na only the missing elements are removed from each slice; nothing for n == 0."""
    file, prop = F, "C04"
    also = ("C07", "C08")
    callees = AGG_CALLEES
    drop = False
    holder = None
    timeout_ms = 45000          # two obligations of the drop_na variant need ~10 s of z3; keep the verdict stable under load

    def setup(self, cx):
        x = sym_vector(cx, "x")
        n = x.sym["len"]
        grp, g = group_ids(cx, n)
        self.holder.update(g=g, n=n)
        return {"self": None, "args": [x, grp, self.drop], "x": x, "g": g}

    def ensures(self, cx, result):
        from pyvc.interp import GenValue, OutSeq
        ctx, it = cx.ctx, cx.it
        x, g = cx.inputs["x"], cx.inputs["g"]
        n = x.sym["len"]
        out = self.output(cx, result)
        if out is None:
            return
        e = Enum.of(ctx, n, boundary(g, n))
        t, j = ctx.fresh("t", INT), ctx.fresh("j", INT)
        cx.prove("number of slices = number of runs", zint(out.len) == e.cnt)
        cx.prove("no slices for an empty input", z3.Implies(zint(n) == 0, zint(out.len) == 0))
        nn = zint(n)
        cx.prove("lemma: the last iteration ends a run", z3.Implies(nn > 0, z3.And(in_range(e.rk(nn - 1), e.cnt), e.idx(e.rk(nn - 1)) == nn - 1)))
        cx.prove("lemma: it is the last run", z3.Implies(nn > 0, e.rk(nn - 1) == e.cnt - 1))
        ctx.assume(in_range(t, e.cnt))
        cx.prove("lemma: rank of the t-th run end", z3.And(e.rk(e.idx(t)) == t, e.cb(e.idx(t)) == t, in_range(e.idx(t), nn)))
        start = z3.If(t == 0, 0, e.idx(t - 1) + 1)
        end = e.idx(t) + 1
        sl = out.at(t)
        ok = isinstance(sl, NDArr)
        cx.prove("slices are arrays", ok)
        if not ok:
            return
        cx.prove("tiling: slice t starts where slice t-1 ended, the last one ends at n",
                 z3.And(0 <= start, start < end, end <= zint(n), z3.Implies(t == e.cnt - 1, end == zint(n))))
        cx.prove("run: the group id is constant on the slice and changes right after it",
                 z3.And(z3.Implies(z3.And(start <= j, j < end), g(j) == g(start)), z3.Implies(end < zint(n), g(end) != g(start))))
        if not self.drop and sl.base is not None:
            cx.prove("lemma: the slice starts at the run start", zint(sl.off) == start)
            cx.prove("lemma: the slice length is the run length", zint(sl.len) == end - start)
        if not self.drop:
            cx.prove("slice t = x[start:end]", z3.And(zint(sl.len) == end - start,
                                                     z3.Implies(in_range(j, end - start), M.to_v(it, sl.seq.at(j)) == x.sym["elem"](start + j))))
        else:
            ce = getattr(sl.seq, "enum", None)      # the enumeration the code's boolean-mask selection used
            if ce is not None:
                q0 = ctx.fresh("q", INT)
                cx.prove("lemma: the mask covers the run", zint(ce.n) == end - start)
                cx.prove("lemma: the mask flags the non-missing elements of the run",
                         z3.Implies(in_range(q0, end - start), zbool(ce.g(q0)) == z3.Not(na_formula(it, x.sym["kind"], x.sym["elem"](start + q0)))))
            cx.prove("ghost: the code's mask enumeration is available", ce is not None)
            if ce is not None:
                nonna = lambda q: z3.Not(na_formula(it, x.sym["kind"], x.sym["elem"](start + q)))
                cx.prove("slice t: its length is the number of selected positions", zint(sl.len) == ce.cnt)
                cx.prove("slice t: element j is the j-th non-missing element of the run (positions increase)",
                         z3.Implies(in_range(j, ce.cnt), z3.And(in_range(ce.idx(j), end - start), nonna(ce.idx(j)),
                                                                M.to_v(it, sl.seq.at(j)) == x.sym["elem"](start + ce.idx(j)),
                                                                z3.Implies(j + 1 < ce.cnt, ce.idx(j) < ce.idx(j + 1)))))
                cx.prove("slice t: every non-missing element of the run is in it",
                         z3.Implies(z3.And(in_range(q0, end - start), nonna(q0)),
                                    z3.And(in_range(ce.rk(q0), ce.cnt), ce.idx(ce.rk(q0)) == q0)))
        cx.prove("frame:no-write-into-input-buffers", no_input_writes(ctx))

    def output(self, cx, result):
        from pyvc.interp import GenValue
        from pyvc.core import MList
        if isinstance(result, MList):          # the Numba twin returns a list
            cx.prove("result-is-a-list", True)
            return result.seq
        ok = isinstance(result, GenValue)
        cx.prove("result-is-a-generator", ok)
        if not ok:
            return None
        return M.out_to_seq(cx.it, result.seq)


def _mk_yg(variant_, drop_, qual="yield_groups"):
    holder_ = {}

    class Y(_YieldGroups):
        qualname, variant, drop, holder = qual, variant_, drop_, holder_
        loops = {(qual, 0): LoopSpec(make_yg_inv(holder_))}
    Y.__name__ = f"YG_{qual}_{drop_}"
    return register(Y)


YieldGroupsKeep = _mk_yg("drop_na=False", False)
YieldGroupsDrop = _mk_yg("drop_na=True", True)


# ---- C08: the Numba twins, at source level ---------------------------------------------------------------------------
# yield_groups_numba is verified against the SAME contract as yield_groups (hence the two sources agree on every input,
# under Python semantics); is_na_numba against the is_na contract restricted to the kinds Numba sees.
YieldGroupsNumbaKeep = _mk_yg("drop_na=False", False, qual="yield_groups_numba")
YieldGroupsNumbaKeep.prop = "C08"
YieldGroupsNumbaKeep.also = ()


class NumbaType:
    """The Numba type of the elements of an array of a given dtype kind (assumed mapping: float -> types.Float,
    datetime -> types.NPDatetime, timedelta -> types.NPTimedelta, strings -> types.UnicodeType, int -> types.Integer,
    bool -> types.Boolean)."""
    MAP = {"float": "numba.Float", "datetime": "numba.NPDatetime", "timedelta": "numba.NPTimedelta", "string": "numba.UnicodeType",
           "int": "numba.Integer", "uint": "numba.Integer", "bool": "numba.Boolean"}

    def __init__(self, kind):
        self.kind = kind

    def pyvc_isinstance(self, it, t):
        return self.MAP.get(self.kind) == t.name


def _mk_overload(kind_):
    class O(Contract):
        """is_na_item_numba_overload: the implementation Numba selects for elements of this dtype kind flags exactly the
        missing values - i.e. agrees with Vector.is_na, which the pure-Python twin uses."""
        file, qualname, prop, variant = F, "is_na_item_numba_overload", "C08", f"element kind {kind_}"

        def setup(self, cx):
            return {"self": None, "args": [NumbaType(kind_)]}

        def ensures(self, cx, result):
            e = cx.val("element")
            k = KCODE[kind_]
            # typed element
            cx.assume(z3.And(z3.Implies(is_nan(e), k == KCODE["float"]), z3.Implies(is_nat(e), z3.Or(k == KCODE["datetime"], k == KCODE["timedelta"])),
                             z3.Implies(e == NONE, k == KCODE["object"]), z3.Implies(e == M.to_v(cx.it, ""), z3.Or(k == KCODE["string"], k == KCODE["fixedstr"]))))
            got = cx.it.call(result, [e], {})
            got = got if M.is_z3(got) else z3.BoolVal(bool(got))
            cx.prove("selected implementation == Vector.is_na on this kind", got == na_formula(cx.it, z3.IntVal(k), e))
    O.__name__ = "Overload_" + kind_
    return register(O)


for _k in ("bool", "int", "float", "datetime", "timedelta"):
    _mk_overload(_k)


def is_na_numba_contract(it, args, kwargs):
    """Callee contract of is_na_numba: element-wise application of the implementation selected by the overload table
    (proved above to agree with Vector.is_na on every kind eligible for Numba)."""
    return vector_is_na_contract(it, args, kwargs)


NUMBA_CALLEES = dict(AGG_CALLEES)
NUMBA_CALLEES["is_na_numba"] = is_na_numba_contract
YieldGroupsNumbaKeep.callees = NUMBA_CALLEES
YieldGroupsNumbaDrop = _mk_yg("drop_na=True", True, qual="yield_groups_numba")
YieldGroupsNumbaDrop.prop = "C08"
YieldGroupsNumbaDrop.also = ()
YieldGroupsNumbaDrop.callees = NUMBA_CALLEES


@register
class UseNumbaEligibility(Contract):
    """use_numba(x): the accelerated twin is chosen only when USE_NUMBA is on and the column is boolean, integer
    (incl. timedelta, which NumPy files under integer), float or datetime."""
    file, qualname, prop = F, "use_numba", "C08"
    always_bounded = True       # the JIT / cache / compile-order part of C08 exists only as a bounded run-time contract

    def setup(self, cx):
        return {"self": None, "args": [sym_vector(cx, "x")]}

    def ensures(self, cx, result):
        x = cx.inputs["args"][0]
        k = x.sym["kind"]
        flag = cx.it.config.get("USE_NUMBA")
        eligible = z3.Or(*[k == KCODE[n] for n in ("bool", "int", "uint", "float", "datetime", "timedelta")])
        r = result if M.is_z3(result) else z3.BoolVal(bool(result))
        cx.prove("chosen iff enabled and eligible kind", r == z3.And(flag, eligible))
