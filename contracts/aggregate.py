# -*- coding: utf-8 -*-
"""Contracts for dataiter/aggregate.py (C04 grouping core, C07 helpers, C08 Numba twins)."""
import z3
from pyvc.contract import Contract, register, LoopSpec
from pyvc.core import (INT, BOOL, V, NONE, ABSENT, Seq, seq_eq, filter_seq, Enum, zint, zbool, in_range, conc,
                       Unsupported, PyRaise)
from pyvc import models as M
from pyvc.models_np import NDArr, KINDS, KCODE, kind_is, kind_term, ghost, is_nan, is_nat, no_input_writes
from contracts.data_frame import na_formula, vector_is_na_contract
from contracts.vector import sym_vector, vector_cls

F = "dataiter/aggregate.py"
AGG_CALLEES = {"Vector.is_na": vector_is_na_contract}


def group_ids(cx, n):
    """group id per row: an arbitrary integer array (no contiguity assumed for yield_groups itself)"""
    ctx = cx.ctx
    g = ctx.fresh_fn("group", INT, INT)
    return NDArr(ctx, Seq(n, lambda j: g(j), INT), "int", owner="group", cls=vector_cls(cx.it)), g


def boundary(g, n):
    """iteration k (j = k+1) ends a run: j == n or group[j] != group[j-1]"""
    return lambda k: z3.Or(k + 1 == zint(n), g(k + 1) != g(k))


def make_yg_inv(holder):
    def inv(S):
        """i is the start of the current run: the end of the previous run (or 0), and group is constant on [i, k]"""
        ctx = S.ctx
        g, n = holder["g"], holder["n"]
        e = Enum.of(ctx, n, boundary(g, n))
        holder["enum"] = e
        ctx.assumptions.append(e.unfold(S.k))
        i = S.var("i")
        i = zint(i)
        p = z3.Int("p!yg")
        return {"run-start": i == z3.If(e.cb(S.k) == 0, 0, e.idx(e.cb(S.k) - 1) + 1),
                "bounds": z3.And(0 <= i, i <= S.k),
                "constant-run": z3.ForAll([p], z3.Implies(z3.And(i <= p, p <= S.k, p < zint(n)), g(p) == g(i)))}
    return inv


class _YieldGroups(Contract):
    """yield_groups(x, group, drop_na): one slice per maximal run of equal group ids, in order; the slices tile
    [0, n): slice t = x[start_t : end_t] with end_t the t-th run end and start_t the previous end (0 for t = 0);
    with drop_na only the missing elements are removed from each slice; nothing for n == 0."""
    file, prop = F, "C04"
    callees = AGG_CALLEES
    drop = False
    holder = None
    timeout_ms = 45000          # two obligations of the drop_na variant need ~10 s of z3; keep the verdict stable under load

    def setup(self, cx):
        x = sym_vector(cx, "x")
        n = x.sym["len"]
        grp, g = group_ids(cx, n)
        self.holder.update(g=g, n=n)
        return {"self": None, "args": [x, grp, self.drop], "x": x, "g": g}

    def ensures(self, cx, result):
        from pyvc.interp import GenValue, OutSeq
        ctx, it = cx.ctx, cx.it
        x, g = cx.inputs["x"], cx.inputs["g"]
        n = x.sym["len"]
        out = self.output(cx, result)
        if out is None:
            return
        e = Enum.of(ctx, n, boundary(g, n))
        t, j = ctx.fresh("t", INT), ctx.fresh("j", INT)
        cx.prove("number of slices = number of runs", zint(out.len) == e.cnt)
        cx.prove("no slices for an empty input", z3.Implies(zint(n) == 0, zint(out.len) == 0))
        nn = zint(n)
        cx.prove("lemma: the last iteration ends a run", z3.Implies(nn > 0, z3.And(in_range(e.rk(nn - 1), e.cnt), e.idx(e.rk(nn - 1)) == nn - 1)))
        cx.prove("lemma: it is the last run", z3.Implies(nn > 0, e.rk(nn - 1) == e.cnt - 1))
        ctx.assume(in_range(t, e.cnt))
        cx.prove("lemma: rank of the t-th run end", z3.And(e.rk(e.idx(t)) == t, e.cb(e.idx(t)) == t, in_range(e.idx(t), nn)))
        start = z3.If(t == 0, 0, e.idx(t - 1) + 1)
        end = e.idx(t) + 1
        sl = out.at(t)
        ok = isinstance(sl, NDArr)
        cx.prove("slices are arrays", ok)
        if not ok:
            return
        cx.prove("tiling: slice t starts where slice t-1 ended, the last one ends at n",
                 z3.And(0 <= start, start < end, end <= zint(n), z3.Implies(t == e.cnt - 1, end == zint(n))))
        cx.prove("run: the group id is constant on the slice and changes right after it",
                 z3.And(z3.Implies(z3.And(start <= j, j < end), g(j) == g(start)), z3.Implies(end < zint(n), g(end) != g(start))))
        if not self.drop and sl.base is not None:
            cx.prove("lemma: the slice starts at the run start", zint(sl.off) == start)
            cx.prove("lemma: the slice length is the run length", zint(sl.len) == end - start)
        if not self.drop:
            cx.prove("slice t = x[start:end]", z3.And(zint(sl.len) == end - start,
                                                     z3.Implies(in_range(j, end - start), M.to_v(it, sl.seq.at(j)) == x.sym["elem"](start + j))))
        else:
            ce = getattr(sl.seq, "enum", None)      # the enumeration the code's boolean-mask selection used
            if ce is not None:
                q0 = ctx.fresh("q", INT)
                cx.prove("lemma: the mask covers the run", zint(ce.n) == end - start)
                cx.lemma_forall("lemma: the mask flags the non-missing elements of the run",
                                 lambda q: z3.Implies(in_range(q, end - start),
                                                      zbool(ce.g(q)) == z3.Not(na_formula(it, x.sym["kind"], x.sym["elem"](start + q)))), base="q")
            cx.prove("ghost: the code's mask enumeration is available", ce is not None)
            if ce is not None:
                nonna = lambda q: z3.Not(na_formula(it, x.sym["kind"], x.sym["elem"](start + q)))
                cx.prove("slice t: its length is the number of selected positions", zint(sl.len) == ce.cnt)
                # one obligation per conjunct (each proved clause is available to the next; small queries are the stable ones)
                cx.prove("slice t: element j comes from a position of the run", z3.Implies(in_range(j, ce.cnt), in_range(ce.idx(j), end - start)))
                cx.prove("slice t: element j is not missing", z3.Implies(in_range(j, ce.cnt), nonna(ce.idx(j))))
                cx.prove("slice t: element j is the j-th non-missing element of the run",
                         z3.Implies(in_range(j, ce.cnt), M.to_v(it, sl.seq.at(j)) == x.sym["elem"](start + ce.idx(j))))
                cx.prove("slice t: positions increase", z3.Implies(z3.And(in_range(j, ce.cnt), j + 1 < ce.cnt), ce.idx(j) < ce.idx(j + 1)))
                cx.prove("slice t: every non-missing element of the run is in it",
                         z3.Implies(z3.And(in_range(q0, end - start), nonna(q0)),
                                    z3.And(in_range(ce.rk(q0), ce.cnt), ce.idx(ce.rk(q0)) == q0)))
        cx.prove("frame:no-write-into-input-buffers", no_input_writes(ctx))

    def output(self, cx, result):
        from pyvc.interp import GenValue
        from pyvc.core import MList
        if isinstance(result, MList):          # the Numba twin returns a list
            cx.prove("result-is-a-list", True)
            return result.seq
        ok = isinstance(result, GenValue)
        cx.prove("result-is-a-generator", ok)
        if not ok:
            return None
        return M.out_to_seq(cx.it, result.seq)


def _mk_yg(variant_, drop_, qual="yield_groups"):
    holder_ = {}

    class Y(_YieldGroups):
        qualname, variant, drop, holder = qual, variant_, drop_, holder_
        loops = {(qual, 0): LoopSpec(make_yg_inv(holder_), kinds={"i": "carried int"})}
    Y.__name__ = f"YG_{qual}_{drop_}"
    return register(Y)


YieldGroupsKeep = _mk_yg("drop_na=False", False)
YieldGroupsDrop = _mk_yg("drop_na=True", True)


# ---- C08: the Numba twins, at source level ---------------------------------------------------------------------------
# yield_groups_numba is verified against the SAME contract as yield_groups (hence the two sources agree on every input,
# under Python semantics); is_na_numba against the is_na contract restricted to the kinds Numba sees.
YieldGroupsNumbaKeep = _mk_yg("drop_na=False", False, qual="yield_groups_numba")
YieldGroupsNumbaKeep.prop = "C08"
YieldGroupsNumbaKeep.also = ()


class NumbaType:
    """The Numba type of the elements of an array of a given dtype kind (assumed mapping: float -> types.Float,
    datetime -> types.NPDatetime, timedelta -> types.NPTimedelta, strings -> types.UnicodeType, int -> types.Integer,
    bool -> types.Boolean)."""
    MAP = {"float": "numba.Float", "datetime": "numba.NPDatetime", "timedelta": "numba.NPTimedelta", "string": "numba.UnicodeType",
           "int": "numba.Integer", "uint": "numba.Integer", "bool": "numba.Boolean"}

    def __init__(self, kind):
        self.kind = kind

    def pyvc_isinstance(self, it, t):
        return self.MAP.get(self.kind) == t.name


def _mk_overload(kind_):
    class O(Contract):
        """is_na_item_numba_overload: the implementation Numba selects for elements of this dtype kind flags exactly the
        missing values - i.e. agrees with Vector.is_na, which the pure-Python twin uses."""
        file, qualname, prop, variant = F, "is_na_item_numba_overload", "C08", f"element kind {kind_}"

        def setup(self, cx):
            return {"self": None, "args": [NumbaType(kind_)]}

        def ensures(self, cx, result):
            e = cx.val("element")
            k = KCODE[kind_]
            # typed element
            cx.assume(z3.And(z3.Implies(is_nan(e), k == KCODE["float"]), z3.Implies(is_nat(e), z3.Or(k == KCODE["datetime"], k == KCODE["timedelta"])),
                             z3.Implies(e == NONE, k == KCODE["object"]), z3.Implies(e == M.to_v(cx.it, ""), z3.Or(k == KCODE["string"], k == KCODE["fixedstr"]))))
            got = cx.it.call(result, [e], {})
            got = got if M.is_z3(got) else z3.BoolVal(bool(got))
            cx.prove("selected implementation == Vector.is_na on this kind", got == na_formula(cx.it, z3.IntVal(k), e))
    O.__name__ = "Overload_" + kind_
    return register(O)


for _k in ("bool", "int", "float", "datetime", "timedelta"):
    _mk_overload(_k)


def is_na_numba_contract(it, args, kwargs):
    """Callee contract of is_na_numba: element-wise application of the implementation selected by the overload table
    (proved above to agree with Vector.is_na on every kind eligible for Numba)."""
    return vector_is_na_contract(it, args, kwargs)


NUMBA_CALLEES = dict(AGG_CALLEES)
NUMBA_CALLEES["is_na_numba"] = is_na_numba_contract
YieldGroupsNumbaKeep.callees = NUMBA_CALLEES
YieldGroupsNumbaDrop = _mk_yg("drop_na=True", True, qual="yield_groups_numba")
YieldGroupsNumbaDrop.prop = "C08"
YieldGroupsNumbaDrop.also = ()
YieldGroupsNumbaDrop.callees = NUMBA_CALLEES


@register
class UseNumbaEligibility(Contract):
    """use_numba(x): the accelerated twin is chosen only when USE_NUMBA is on and the column is boolean, integer
    (incl. timedelta, which NumPy files under integer), float or datetime."""
    file, qualname, prop = F, "use_numba", "C08"
    also = ("C07", "C04")       # with Numba installed the group-wise helpers of C07 run through the compiled twins by default
    always_bounded = True       # the JIT / cache / compile-order part of C08 exists only as a bounded run-time contract

    def setup(self, cx):
        return {"self": None, "args": [sym_vector(cx, "x")]}

    def ensures(self, cx, result):
        x = cx.inputs["args"][0]
        k = x.sym["kind"]
        flag = cx.it.config.get("USE_NUMBA")
        eligible = z3.Or(*[k == KCODE[n] for n in ("bool", "int", "uint", "float", "datetime", "timedelta")])
        r = result if M.is_z3(result) else z3.BoolVal(bool(result))
        cx.prove("chosen iff enabled and eligible kind", r == z3.And(flag, eligible))


# =========================================================================================
# C07: the aggregation helpers - vector form
# =========================================================================================
from pyvc.models_np import stat_term, NPScalar, NAN, NAT
from contracts.data_frame import na_value_term

# helper -> (NumPy statistic, elements required, default, default of drop_na, pre-conversion)   [from the property text]
HELPERS = {
    "mean": ("mean", 1, "nan", True, None), "median": ("median", 1, "nan", True, None),
    "min": ("amin", 1, "na_value", True, None), "max": ("amax", 1, "na_value", True, None),
    "sum": ("sum", 0, None, True, None),
    "std": ("std_ddof", 2, "nan", True, None), "var": ("var_ddof", 2, "nan", True, None),
}


# Documented signatures (doc/aggregation.rst, autodoc of dataiter/aggregate.py at the pinned version): drop_na is in effect
# by default for the reductions that cannot digest a missing value, and not for the positional / counting helpers.
DOC_DROP_DEFAULT = {"count": False, "count_unique": False, "first": False, "last": False, "nth": False,
                    "max": True, "mean": True, "median": True, "min": True, "mode": True, "quantile": True,
                    "std": True, "sum": True, "var": True}
LEFT_OUT = "keyword left out: the documented default is in effect"


def kept_seq(cx, x, drop):
    """the elements the statistic is computed from: all of them, or the non-missing ones in order"""
    it = cx.it
    s = Seq(x.sym["len"], lambda j: x.sym["elem"](j), V)
    if drop is False:
        return s
    flt = filter_seq(cx.ctx, x.sym["len"], lambda k: z3.Not(na_formula(it, x.sym["kind"], x.sym["elem"](k))), lambda k: x.sym["elem"](k), V)
    if drop is True:
        return flt
    raise Unsupported("symbolic drop_na")


def default_term(cx, x, what):
    if what == "nan":
        return NAN
    if what == "na_value":
        return na_value_term(cx.it, x.sym["kind"])
    return M.to_v(cx.it, what)


def _mk_vec_helper(name, drop, left_out=False):
    stat, req, dflt, drop_default, _ = HELPERS[name]

    class H(Contract):
        file, qualname, prop = F, name, "C07"
        variant = f"vector form, drop_na={drop}" if not left_out else f"vector form, {LEFT_OUT}"
        callees = AGG_CALLEES
        config = {"np_scalars": True}

        def setup(self, cx):
            cx.it.np_scalars = True
            x = sym_vector(cx, "x")
            # numeric reductions are defined for numeric / boolean / date kinds; min and max also for strings
            k = x.sym["kind"]
            ok = [KCODE[n] for n in ("bool", "int", "float")] + ([KCODE["string"], KCODE["datetime"]] if name in ("min", "max") else [])
            cx.assume(z3.Or(*[k == c for c in ok]))
            kw = {"drop_na": drop} if not left_out else {}
            if name in ("std", "var"):
                kw["ddof"] = cx.int("ddof")
            return {"self": None, "args": [x], "kwargs": kw, "x": x}

        def ensures(self, cx, result):
            x = cx.inputs["x"]
            kept = kept_seq(cx, x, drop)
            extra = [cx.inputs["kwargs"]["ddof"]] if name in ("std", "var") else []
            expected_stat = stat_term(cx.it, stat, kept, extra)
            r = M.to_v(cx.it, result)
            if req == 0:
                cx.prove("result = statistic of the (kept) elements", r == expected_stat)
            else:
                cx.prove("result = statistic of the (kept) elements, or the default when fewer than required",
                         r == z3.If(zint(kept.len) >= req, expected_stat, default_term(cx, x, dflt)))
            cx.prove("frame:no-write-into-input-buffers", no_input_writes(cx.ctx))
    H.__name__ = f"Vec_{name}_{drop}" + ("_left_out" if left_out else "")
    return register(H)


for _h in HELPERS:
    for _d in (True, False):
        _mk_vec_helper(_h, _d)
    _mk_vec_helper(_h, DOC_DROP_DEFAULT[_h], left_out=True)


def mode1_contract(it, args, kwargs):
    """Callee contract of mode1 (statistics.mode / Counter.most_common): the first encountered among the most
    frequent elements - an uninterpreted statistic of the sequence (assumed; bounded contract checks tie-breaking)."""
    a = args[0]
    return NPScalar(stat_term(it, "mode_first_most_frequent", a.seq), a.kind)


MODE_CALLEES = dict(AGG_CALLEES)
MODE_CALLEES["mode1"] = mode1_contract


class _VecHelper(Contract):
    file, prop = F, "C07"
    callees = MODE_CALLEES
    drop = False
    kinds = ("bool", "int", "float", "string", "datetime")

    def setup(self, cx):
        cx.it.np_scalars = True
        x = sym_vector(cx, "x")
        cx.assume(z3.Or(*[x.sym["kind"] == KCODE[n] for n in self.kinds]))
        return {"self": None, "args": [x] + self.extra_args(cx), "kwargs": self.kw(), "x": x}

    def extra_args(self, cx):
        return []

    left_out = False

    def kw(self):
        return {"drop_na": self.drop} if not self.left_out else {}


def _reg(cls, qual, variant_, **attrs):
    C = type(f"{cls.__name__}_{qual}_{variant_}".replace(" ", "_").replace("=", ""), (cls,), dict(qualname=qual, variant=variant_, **attrs))
    return register(C)


class _AllAny(_VecHelper):
    kinds = ("bool", "int", "float")
    stat = "all"

    def kw(self):
        return {}

    def ensures(self, cx, result):
        from pyvc.core import truthy
        x = cx.inputs["x"]
        s = Seq(x.sym["len"], lambda j: truthy(x.sym["elem"](j)), BOOL)
        cx.prove("result = all/any of the elements as booleans", M.to_v(cx.it, result) == stat_term(cx.it, self.stat, s))


_reg(_AllAny, "all", "vector form", stat="all")
_reg(_AllAny, "any", "vector form", stat="any")


class _Count(_VecHelper):
    def ensures(self, cx, result):
        x = cx.inputs["x"]
        kept = kept_seq(cx, x, self.drop)
        cx.prove("result = number of (kept) elements", zint(result) == zint(kept.len))


class _CountUnique(_VecHelper):
    def ensures(self, cx, result):
        from pyvc.core import intof
        x = cx.inputs["x"]
        kept = kept_seq(cx, x, self.drop)
        cx.prove("result = number of distinct (kept) elements", zint(result) == intof(stat_term(cx.it, "count_distinct", kept)))


class _Nth(_VecHelper):
    index = None

    def extra_args(self, cx):
        if self.index is None:
            cx.index = cx.int("index")
            return [cx.index]
        cx.index = z3.IntVal(self.index)
        return []

    def ensures(self, cx, result):
        x = cx.inputs["x"]
        kept = kept_seq(cx, x, self.drop)
        i, n = cx.index, zint(kept.len)
        inside = z3.And(i >= -n, i < n)
        pos = z3.If(i < 0, i + n, i)
        cx.prove("result = element at the (Python-style) index, or the missing value when out of range",
                 M.to_v(cx.it, result) == z3.If(inside, kept.at(pos), na_value_term(cx.it, x.sym["kind"])))


class _Mode(_VecHelper):
    def ensures(self, cx, result):
        x = cx.inputs["x"]
        kept = kept_seq(cx, x, self.drop)
        cx.prove("result = first most frequent (kept) element, or the missing value when there is none",
                 M.to_v(cx.it, result) == z3.If(zint(kept.len) >= 1, stat_term(cx.it, "mode_first_most_frequent", kept), na_value_term(cx.it, x.sym["kind"])))


class _Quantile(_VecHelper):
    kinds = ("bool", "int", "float")

    def extra_args(self, cx):
        cx.q = cx.val("q")
        return [cx.q]

    def ensures(self, cx, result):
        x = cx.inputs["x"]
        kept = kept_seq(cx, x, self.drop)
        cast = z3.Function("cast_float", V, V)          # the value as a float (astype(float)); identity on floats - not needed here
        asf = Seq(kept.len, lambda j: cast(kept.at(j)), V)
        cx.prove("result = q-quantile of the (kept) elements as floats, NaN when there is none",
                 M.to_v(cx.it, result) == z3.If(zint(kept.len) >= 1, stat_term(cx.it, "quantile", asf, [cx.q]), NAN))


for _d in (True, False):
    _reg(_Count, "count", f"vector form, drop_na={_d}", drop=_d)
    _reg(_CountUnique, "count_unique", f"vector form, drop_na={_d}", drop=_d)
    _reg(_Nth, "nth", f"vector form, drop_na={_d}", drop=_d)
    _reg(_Nth, "first", f"vector form, drop_na={_d}", drop=_d, index=0)
    _reg(_Nth, "last", f"vector form, drop_na={_d}", drop=_d, index=-1)
    _reg(_Mode, "mode", f"vector form, drop_na={_d}", drop=_d)
    _reg(_Quantile, "quantile", f"vector form, drop_na={_d}", drop=_d)
for _c, _q, _a in ((_Count, "count", {}), (_CountUnique, "count_unique", {}), (_Nth, "nth", {}), (_Nth, "first", {"index": 0}),
                   (_Nth, "last", {"index": -1}), (_Mode, "mode", {}), (_Quantile, "quantile", {})):
    _reg(_c, _q, f"vector form, {LEFT_OUT}", drop=DOC_DROP_DEFAULT[_q], left_out=True, **_a)


# =========================================================================================
# C07: group-wise form (and the pieces C04 builds on)
# =========================================================================================
def run_filter(it, x_at, kind, start, length, famname):
    """the non-missing elements of x[start:start+length], in order (one enumeration family per array x)"""
    ctx = it.ctx
    e = Enum.family(ctx, famname, [start, length], lambda ps: ps[1],
                    lambda ps, q: z3.Not(na_formula(it, kind, M.to_v(it, x_at(ps[0] + q)))))
    s = Seq(e.cnt, lambda j: x_at(zint(start) + e.idx(j)), V, note="filter")
    s.enum = e
    return s


def yield_groups_contract(it, args, kwargs):
    """Callee contract of yield_groups (proved above for both settings of drop_na): one slice per maximal run of equal
    group ids, in order; with drop_na only the non-missing elements of the run."""
    from pyvc.interp import GenValue, OutSeq
    ctx = it.ctx
    x, group, drop = args[0], args[1], args[2] if len(args) > 2 else kwargs.get("drop_na")
    n = x.seq.len
    gs = group.seq
    g = (lambda j: gs.at(j))
    if not ctx.branch(zint(gs.len) == zint(n)):
        raise Unsupported("yield_groups: group vector of another length")
    e = Enum.of(ctx, n, lambda k: z3.Or(k + 1 == zint(n), g(k + 1) != g(k)))
    dropb = M.truth(it, drop)
    dropped = ctx.branch(dropb) if not isinstance(dropb, bool) else dropb
    xs = x.seq

    def slice_at(t):
        start = z3.If(zint(t) == 0, 0, e.idx(zint(t) - 1) + 1)
        end = e.idx(zint(t)) + 1
        if not dropped:
            return NDArr(ctx, Seq(conc(end - start), lambda j: xs.at(start + j), xs.sort), x.kind, x.owner, x.cls, base=None)
        flt = run_filter(it, lambda j: M.to_v(it, xs.at(j)), x.kind, start, end - start, "nonNA_of_x")
        return NDArr(ctx, flt, x.kind, "fresh", x.cls)
    out = OutSeq()
    seg = Seq(e.cnt, slice_at, None)
    seg.keep_symbolic = True
    out.emit_seq(seg)
    it.__dict__.setdefault("callee_log", []).append(("yield_groups", {"enum": e, "dropped": dropped, "x": x, "group": group}))
    return GenValue(out)


GROUP_CALLEES = dict(MODE_CALLEES)
GROUP_CALLEES["yield_groups"] = yield_groups_contract

# helper -> (statistic, required, value the kernel is given for "too few", documented default, kinds)
GROUP_HELPERS = {
    "mean": ("mean", 1, "nan", "nan"), "median": ("median", 1, "nan", "nan"),
    "min": ("amin", 1, None, "na_value"), "max": ("amax", 1, None, "na_value"),
    "sum": ("sum", 0, 0, 0), "std": ("std", 2, "nan", "nan"), "var": ("var", 2, "nan", "nan"),
}


def grouped_data(cx, kinds):
    """the frame DataFrame.aggregate hands to a group-aware helper: column x of an eligible kind and the column
    _group_ with the group id of every row"""
    from contracts.data_frame import sym_frame, typed_elements, named_column
    data = sym_frame(cx, "data")
    typed_elements(cx, data)
    px = named_column(cx, data, "x")
    pg = named_column(cx, data, "_group_")
    cx.assume(px != pg)
    cx.assume(z3.Or(*[data.sym["kind"](px) == KCODE[k] for k in kinds]))
    cx.assume(data.sym["kind"](pg) == KCODE["int"])
    return data, px, pg


def _mk_group_helper(name, drop, left_out=False, with_ddof=False):
    stat, req, kernel_default, doc_default = GROUP_HELPERS[name]

    class G(Contract):
        """group-wise form: helper("x") returns a function of the grouped frame whose result has one entry per group
        (= maximal run of equal _group_ ids): the statistic of that group's (non-missing, when drop_na) elements in their
        order, or the kernel default when the group has fewer elements than required; .default is the documented default
        which DataFrame.aggregate substitutes for None."""
        file, qualname, prop = F, name, "C07"
        variant = (f"group-wise form, drop_na={drop}" if not left_out else f"group-wise form, {LEFT_OUT}") + (", ddof given" if with_ddof else "")
        callees = GROUP_CALLEES
        config = {"USE_NUMBA": z3.BoolVal(False)}

        def setup(self, cx):
            cx.it.np_scalars = True
            kw = {"drop_na": drop} if not left_out else {}
            if with_ddof:
                cx.ddof = kw["ddof"] = cx.int("ddof")         # any delta degrees of freedom, 0 included
            return {"self": None, "args": ["x"], "kwargs": kw}

        def ensures(self, cx, result):
            from pyvc.interp import Closure
            from pyvc.core import MList
            ctx, it = cx.ctx, cx.it
            cx.prove("returns a group-aware function", isinstance(result, Closure) and it.getattr(result, "group_aware") is True)
            kinds = ("bool", "int", "float") + (("string", "datetime") if name in ("min", "max") else ())
            data, px, pg = grouped_data(cx, kinds)
            out = it.call(result, [data], {})
            cx.prove("result-is-a-list", isinstance(out, MList))
            if not isinstance(out, MList):
                return
            sym = data.sym
            n = sym["nrow"]
            g = lambda j: sym["elem"](pg, j)
            e = Enum.of(ctx, n, lambda k: z3.Or(k + 1 == zint(n), g(k + 1) != g(k)))
            res = out.seq
            t = ctx.fresh("t", INT)
            cx.prove("one entry per group", zint(res.len) == e.cnt)
            ctx.assume(in_range(t, e.cnt))
            start = z3.If(t == 0, 0, e.idx(t - 1) + 1)
            end = e.idx(t) + 1
            xe = lambda j: sym["elem"](px, j)
            kind = sym["kind"](px)
            plain = Seq(conc(end - start), lambda j: xe(start + j), V)
            log = dict(it.__dict__.get("callee_log", []))
            code_dropped = log.get("yield_groups", {}).get("dropped")
            if drop and code_dropped:
                kept = run_filter(it, xe, kind, start, end - start, "nonNA_of_x")
            elif drop:
                # the code skips the filtering because the column has no missing value at all; the non-missing
                # subsequence of the run then IS the run (same length, same elements) - so the statistic, a function of
                # the elements only, is the one of the run
                flt = run_filter(it, xe, kind, start, end - start, "nonNA_of_x")
                j = ctx.fresh("j", INT)
                ob = cx.prove("lemma: no element of the run is missing", z3.Implies(in_range(j, end - start), z3.Not(na_formula(it, kind, xe(start + j)))))
                if ob.status == "unsat":
                    flt.enum.assume_total(ctx, instances=[j])       # j was arbitrary: the filter's predicate holds on the whole run
                cx.prove("lemma: runs are non-empty ranges", z3.And(0 <= start, start < end, end <= zint(n)))
                cx.prove("lemma: the non-missing subsequence of the run has the run's length", zint(flt.len) == end - start)
                cx.prove("lemma: ... and the run's elements", z3.Implies(in_range(j, end - start), flt.at(j) == plain.at(j)))
                kept = plain
            else:
                kept = plain
            kd = {"nan": NAN, None: NONE}.get(kernel_default, M.to_v(it, kernel_default) if kernel_default not in ("nan", None) else None)
            expected = stat_term(it, stat, kept)
            if with_ddof:
                # np.std(x) / np.var(x) is the statistic with ddof=0 (NumPy's default); any other ddof is the statistic with that
                # ddof - whatever the kernel (Numba's np.std / np.var take no ddof, so those calls may not be routed to it)
                expected = z3.If(cx.ddof == 0, expected, stat_term(it, stat + "_ddof", kept, [cx.ddof]))
            if req > 0:
                expected = z3.If(zint(kept.len) >= req, expected, kd)
            cx.prove("entry t = statistic of group t's (kept) elements, or the default when too few", M.to_v(it, res.at(t)) == expected)
            dd = it.getattr(result, "default")
            want = {"nan": NAN, "na_value": na_value_term(it, kind)}.get(doc_default, M.to_v(it, doc_default) if not isinstance(doc_default, str) else None)
            cx.prove("documented default", M.to_v(it, dd) == want)
    G.__name__ = f"Grp_{name}_{drop}" + ("_left_out" if left_out else "") + ("_ddof" if with_ddof else "")
    return register(G)


for _h in GROUP_HELPERS:
    for _d in (True, False):
        _mk_group_helper(_h, _d)
    _mk_group_helper(_h, DOC_DROP_DEFAULT[_h], left_out=True)
    if _h in ("std", "var"):
        _mk_group_helper(_h, True, with_ddof=True)
        _mk_group_helper(_h, False, with_ddof=True)


class _GroupForm(Contract):
    """shared harness for the remaining group-wise forms"""
    file, prop = F, "C07"
    callees = GROUP_CALLEES
    config = {"USE_NUMBA": z3.BoolVal(False)}
    drop = False
    kinds = ("bool", "int", "float", "string", "datetime")
    extra = ()

    def setup(self, cx):
        cx.it.np_scalars = True
        cx.extra = [cx.int("index") if e == "index" else cx.val(e) for e in self.extra]
        kw = {"drop_na": self.drop} if self.has_drop and not self.left_out else {}
        return {"self": None, "args": ["x"] + cx.extra, "kwargs": kw}

    has_drop = True
    left_out = False

    def column(self, cx, sym, px):
        """elements the kernel sees (after the helper's own conversion)"""
        return lambda j: sym["elem"](px, j)

    def ensures(self, cx, result):
        from pyvc.interp import Closure
        from pyvc.core import MList
        ctx, it = cx.ctx, cx.it
        cx.prove("returns a group-aware function", isinstance(result, Closure) and it.getattr(result, "group_aware") is True)
        data, px, pg = grouped_data(cx, self.kinds)
        out = it.call(result, [data], {})
        cx.prove("result-is-a-list", isinstance(out, MList))
        if not isinstance(out, MList):
            return
        sym = data.sym
        n = sym["nrow"]
        g = lambda j: sym["elem"](pg, j)
        e = Enum.of(ctx, n, lambda k: z3.Or(k + 1 == zint(n), g(k + 1) != g(k)))
        res = out.seq
        t = ctx.fresh("t", INT)
        cx.prove("one entry per group", zint(res.len) == e.cnt)
        ctx.assume(in_range(t, e.cnt))
        start = z3.If(t == 0, 0, e.idx(t - 1) + 1)
        end = e.idx(t) + 1
        kind = sym["kind"](px)
        xe = lambda j: sym["elem"](px, j)
        xe, kind_f = self.spec_elems(cx, xe, kind)
        plain_raw = Seq(conc(end - start), lambda j: xe(start + j), V)
        kind0, kind = kind, kind_f
        log = dict(it.__dict__.get("callee_log", []))
        code_dropped = log.get("yield_groups", {}).get("dropped")
        if self.drop and code_dropped:
            kept = run_filter(it, xe, kind, start, end - start, "nonNA_of_x")
        elif self.drop:
            flt = run_filter(it, xe, kind, start, end - start, "nonNA_of_x")
            j = ctx.fresh("j", INT)
            ob = cx.prove("lemma: no element of the run is missing", z3.Implies(in_range(j, end - start), z3.Not(na_formula(it, kind, xe(start + j)))))
            if ob.status == "unsat":
                flt.enum.assume_total(ctx, instances=[j])
            cx.prove("lemma: runs are non-empty ranges", z3.And(0 <= start, start < end, end <= zint(n)))
            cx.prove("lemma: the non-missing subsequence of the run has the run's length", zint(flt.len) == end - start)
            cx.prove("lemma: ... and the run's elements", z3.Implies(in_range(j, end - start), flt.at(j) == plain_raw.at(j)))
            kept = plain_raw
        else:
            kept = plain_raw
        cx.prove("entry t = the helper's statistic of group t's (kept) elements, or the kernel default",
                 M.to_v(it, res.at(t)) == self.expected(cx, kept, kind))
        cx.prove("documented default", M.to_v(it, it.getattr(result, "default")) == self.documented_default(cx, kind0))

    def spec_elems(self, cx, xe, kind):
        return xe, kind


class _GCount(_GroupForm):
    def expected(self, cx, kept, kind):
        from pyvc.core import vint
        return vint(zint(kept.len))

    def documented_default(self, cx, kind):
        return M.to_v(cx.it, 0)


class _GCountUnique(_GroupForm):
    def expected(self, cx, kept, kind):
        from pyvc.core import vint, intof
        return vint(intof(stat_term(cx.it, "count_distinct", kept)))

    def documented_default(self, cx, kind):
        return M.to_v(cx.it, 0)


class _GNth(_GroupForm):
    extra = ("index",)
    fixed = None

    def setup(self, cx):
        r = super().setup(cx)
        if self.fixed is not None:
            r["args"] = ["x"]
            cx.extra = [z3.IntVal(self.fixed)]
        return r

    def expected(self, cx, kept, kind):
        i, n = cx.extra[0], zint(kept.len)
        return z3.If(z3.And(i >= -n, i < n), kept.at(z3.If(i < 0, i + n, i)), NONE)

    def documented_default(self, cx, kind):
        return na_value_term(cx.it, kind)


class _GMode(_GroupForm):
    def expected(self, cx, kept, kind):
        return z3.If(zint(kept.len) >= 1, stat_term(cx.it, "mode_first_most_frequent", kept), NONE)

    def documented_default(self, cx, kind):
        return na_value_term(cx.it, kind)


for _d in (True, False):
    _reg(_GCount, "count", f"group-wise form, drop_na={_d}", drop=_d)
    _reg(_GCountUnique, "count_unique", f"group-wise form, drop_na={_d}", drop=_d)
    _reg(_GNth, "nth", f"group-wise form, drop_na={_d}", drop=_d)
    _reg(_GNth, "first", f"group-wise form, drop_na={_d}", drop=_d, fixed=0)
    _reg(_GNth, "last", f"group-wise form, drop_na={_d}", drop=_d, fixed=-1)
    _reg(_GMode, "mode", f"group-wise form, drop_na={_d}", drop=_d)


class _GAllAny(_GroupForm):
    has_drop = False
    kinds = ("bool", "int", "float")
    stat = "all"

    def expected(self, cx, kept, kind):
        from pyvc.core import truthy
        b = Seq(kept.len, lambda j: truthy(kept.at(j)), BOOL)
        return stat_term(cx.it, self.stat, b)

    def documented_default(self, cx, kind):
        return M.to_v(cx.it, self.stat == "all")


_reg(_GAllAny, "all", "group-wise form", stat="all")
_reg(_GAllAny, "any", "group-wise form", stat="any")


class _GQuantile(_GroupForm):
    kinds = ("bool", "int", "float")
    extra = ("q",)

    def spec_elems(self, cx, xe, kind):
        """quantile works on the column converted to float: astype(float) keeps NaN as NaN and maps every other
        number / boolean to a non-missing float (assumed); missingness is therefore the same before and after."""
        cast = z3.Function("cast_float", V, V)
        v = z3.Const("v!cf", V)
        cx.ctx.assumptions.append(z3.ForAll([v], z3.And(z3.Not(is_nat(cast(v))), cast(v) != NONE, is_nan(cast(v)) == is_nan(v)), patterns=[cast(v)]))
        j = cx.ctx.fresh("j", INT)
        cx.prove("lemma: an element is missing iff its float conversion is NaN",
                 na_formula(cx.it, kind, xe(j)) == na_formula(cx.it, z3.IntVal(KCODE["float"]), cast(xe(j))))
        return (lambda i: cast(xe(i))), z3.IntVal(KCODE["float"])

    def expected(self, cx, kept, kind):
        return z3.If(zint(kept.len) >= 1, stat_term(cx.it, "quantile", kept, [cx.extra[0]]), NAN)

    def documented_default(self, cx, kind):
        return NAN


for _d in (True, False):
    _reg(_GQuantile, "quantile", f"group-wise form, drop_na={_d}", drop=_d)
for _c, _q, _a in ((_GCount, "count", {}), (_GCountUnique, "count_unique", {}), (_GNth, "nth", {}), (_GNth, "first", {"fixed": 0}),
                   (_GNth, "last", {"fixed": -1}), (_GMode, "mode", {}), (_GQuantile, "quantile", {})):
    _reg(_c, _q, f"group-wise form, {LEFT_OUT}", drop=DOC_DROP_DEFAULT[_q], left_out=True, **_a)


# ---------------------------------------------------------------------------------------------------------------------
# Numba twins of the *_apply kernels at source level (C08, also checked under C07): with USE_NUMBA on and an eligible
# column the group-wise nth / first / last go through nth_apply_numba.  @njit is treated as transparent (what Numba
# compiles is assumed to be this source: the JIT itself is covered by the bounded matrix only); yield_groups_numba enters
# through the contract it was proved to share with yield_groups.
# ---------------------------------------------------------------------------------------------------------------------
NUMBA_GROUP_CALLEES = dict(GROUP_CALLEES)
NUMBA_GROUP_CALLEES["yield_groups_numba"] = yield_groups_contract


def yield_groups_numba_logged(it, args, kwargs):
    r = yield_groups_contract(it, args, kwargs)
    return r


class _GNthNumba(_GNth):
    prop = "C08"
    also = ("C07",)
    callees = NUMBA_GROUP_CALLEES
    config = {"USE_NUMBA": z3.BoolVal(True)}
    kinds = ("bool", "int", "float", "datetime", "timedelta")


for _d in (True, False):
    _reg(_GNthNumba, "nth", f"group-wise form, Numba twin (source level), drop_na={_d}", drop=_d)
    _reg(_GNthNumba, "first", f"group-wise form, Numba twin (source level), drop_na={_d}", drop=_d, fixed=0)
    _reg(_GNthNumba, "last", f"group-wise form, Numba twin (source level), drop_na={_d}", drop=_d, fixed=-1)


def _numba_twin(cls, **attrs):
    """the same group-wise contract with USE_NUMBA on and a Numba-eligible column: the code path goes through the *_numba twin"""
    base = dict(prop="C08", also=("C07",), callees=NUMBA_GROUP_CALLEES, config={"USE_NUMBA": z3.BoolVal(True)}, **attrs)
    C = type(cls.__name__ + "_numba", (cls,), dict(base, variant=cls.variant.replace("group-wise form", "group-wise form, Numba twin (source level)")))
    return register(C)


import pyvc.contract as _pc
for _c in list(_pc.REGISTRY):
    if getattr(_c, "file", None) == F and getattr(_c, "prop", None) == "C07" and "group-wise form" in (getattr(_c, "variant", "") or "") \
            and "Numba" not in _c.variant and _c.qualname not in ("nth", "first", "last", "mode"):
        _numba_twin(_c)
