# -*- coding: utf-8 -*-
"""C04: grouping partitions the rows.

What is under deductive contract:
  * yield_groups / yield_groups_numba (contracts/aggregate.py): the groups handed to a group-aware helper are the maximal
    runs of equal group ids, they tile the input, drop_na removes exactly the missing elements of each run;
  * DataFrame.unique (contracts/data_frame.py) incl. the representative lemma, DataFrame.sort (C03 contracts);
  * the LEMMA below, over those two contracts: in a frame sorted by the group columns the first-occurrence rows that unique
    keeps are exactly the run starts, so the pieces np.split cuts at them are the classes of 'equal group key': contiguous,
    disjoint, covering every row, one per distinct key, in ascending key order, each in the original order of its rows
    (stability of the sort);
  * structural obligations: aggregate / split / grouped modify are still built from exactly these pieces.
The composition itself (DataFrame.aggregate, count, split, grouped modify: a dozen calls incl. np.split / np.repeat over
lists of index vectors and per-group callbacks) is NOT executed symbolically; it is covered by bounded run-time contracts run
in every tier (labelled bounded)."""
import ast as _ast
import z3

from pyvc.contract import Contract, register, bounded_only
from pyvc.core import V, INT, BOOL, in_range
from pyvc.extract import RepoModule

F = "dataiter/data_frame.py"


@register
class GroupsAreRuns(Contract):
    """Lemma over the contracts of sort and unique.  Given n rows with keys key(i), an equivalence eq ('equal group key',
    missing == missing) and a strict order lt on keys such that (sort's postcondition) no later row sorts strictly before an
    earlier one and (consistency of sort's order with unique's equality) two keys are equal iff neither sorts before the other:
    the rows unique keeps - first occurrences of their key - are exactly the run starts, every row has the key of the last run
    start at or before it, and the keys of successive run starts strictly increase."""
    file, qualname, prop, variant = F, "DataFrame.aggregate", "C04", "lemma: in a sorted frame the first occurrences are the run starts"
    lemma_only = True

    def setup(self, cx):
        return {"self": None}

    def ensures(self, cx, result):
        ctx = cx.ctx
        n = ctx.fresh("n", INT)
        key = ctx.fresh_fn("key", INT, V)
        lt = z3.Function("key_lt", V, V, BOOL)
        eq = lambda a, b: z3.And(z3.Not(lt(a, b)), z3.Not(lt(b, a)))
        a, b, c = z3.Consts("a!g b!g c!g", V)
        i, j, q = z3.Ints("i!g j!g q!g")
        cx.assume(n >= 0)
        # lt is a strict weak order (sort's precondition: total order on the non-missing keys, missing ones tied at the end)
        cx.assume(z3.ForAll([a], z3.Not(lt(a, a))))
        cx.assume(z3.ForAll([a, b, c], z3.Implies(z3.And(lt(a, b), lt(b, c)), lt(a, c))))
        cx.assume(z3.ForAll([a, b, c], z3.Implies(lt(a, b), z3.Or(lt(a, c), lt(c, b)))))
        # postcondition of sort (ascending in every group column)
        cx.assume(z3.ForAll([i, j], z3.Implies(z3.And(0 <= i, i < j, j < n), z3.Not(lt(key(j), key(i)))),
                            patterns=[z3.MultiPattern(key(i), key(j))]))
        first = lambda t: z3.Not(z3.Exists([q], z3.And(0 <= q, q < t, eq(key(q), key(t)))))       # unique keeps exactly these
        start = lambda t: z3.Or(t == 0, z3.Not(eq(key(t - 1), key(t))))
        k = ctx.fresh("k", INT)
        cx.assume(in_range(k, n))
        cx.prove("lemma: a first occurrence is a run start", z3.Implies(first(k), start(k)))
        cx.prove("lemma: a run start is a first occurrence", z3.Implies(start(k), first(k)))
        # rep(k): unique's representative of row k (lemma UniqueRepresentative): first, <= k, same key
        rep = ctx.fresh_fn("rep", INT, INT)
        cx.assume(z3.And(0 <= rep(k), rep(k) <= k, first(rep(k)), eq(key(rep(k)), key(k))))
        m = ctx.fresh("m", INT)
        cx.prove("lemma: no run start lies strictly between a row and its representative (the piece of rep(k) contains k)",
                 z3.Implies(z3.And(rep(k) < m, m <= k), z3.Not(start(m))))
        cx.prove("lemma: rows of one piece have equal keys; rows of different pieces do not",
                 z3.Implies(in_range(m, n), eq(key(m), key(k)) == (z3.And(0 <= rep(k), eq(key(m), key(rep(k)))))))
        s1, s2 = ctx.fresh("s1", INT), ctx.fresh("s2", INT)
        cx.prove("lemma: keys of successive run starts strictly increase (one row per distinct key, ascending)",
                 z3.Implies(z3.And(0 <= s1, s1 < s2, s2 < n, start(s2), first(s2)), lt(key(s1), key(s2))))


_KEEP = {"self", "np", "dict", "dataiter", "range", "len", "map"}


class _Anon(_ast.NodeTransformer):
    """local variable names are irrelevant to the structure: every Name outside _KEEP becomes '_' (a harmless renaming of a
    local must not raise an alarm)"""
    def visit_Name(self, n):
        return _ast.copy_location(_ast.Name(id=n.id if n.id in _KEEP else "_", ctx=n.ctx), n)


def _calls(node):
    import copy
    out = []
    for x in _ast.walk(node):
        if isinstance(x, _ast.Call):
            f = x.func
            name = f.attr if isinstance(f, _ast.Attribute) else getattr(f, "id", "?")
            out.append((name, _ast.unparse(_Anon().visit(copy.deepcopy(x)))))
    return out


@register
class GroupingStructure(Contract):
    """Structural obligations (facts about the current AST): aggregate, split and the grouped branch of modify are built from
    the pieces whose contracts carry C04 - sort ascending by exactly the group columns, unique on the same columns, np.arange
    row ids, np.split at the kept rows' ids (first one dropped) - and count is aggregate with dataiter.count()."""
    file, qualname, prop, variant = F, "DataFrame.split", "C04", "structure of aggregate / split / count / grouped modify"
    lemma_only = True

    def setup(self, cx):
        return {"self": None}

    def ensures(self, cx, result):
        mod = RepoModule.load(F, cx.it.repo)
        src = {q: _calls(mod.find("DataFrame." + q)[0]) for q in ("aggregate", "split", "count", "modify")}
        has = lambda q, text: any(text in u.replace(" ", "") for _, u in src[q])
        cx.prove("aggregate sorts ascending by exactly the group columns", has("aggregate", "self.sort(**dict.fromkeys(_,1))"))
        cx.prove("aggregate numbers the sorted rows", has("aggregate", "np.arange(_.nrow)"))
        cx.prove("aggregate keeps the first row of every group key", has("aggregate", "_.unique(*_)"))
        cx.prove("aggregate cuts the sorted rows at the kept rows", has("aggregate", "np.split(_._index_,_._index_[1:])"))
        cx.prove("aggregate hands whole-row views of each piece to plain functions", has("aggregate", "_._view_rows(_)"))
        cx.prove("aggregate labels rows with their piece number for group-aware helpers", has("aggregate", "np.repeat(_,_)"))
        cx.prove("split numbers the rows before sorting", has("split", "np.arange(_.nrow)") and has("split", "_.sort(**dict.fromkeys(_,1))"))
        cx.prove("split cuts the original row ids at the first row of every key", has("split", "_.unique(*_)")
                 and has("split", "np.split(_._index_,_._sorted_index_[1:])"))
        cx.prove("count is aggregate with dataiter.count() on a copy", has("count", "self.copy().group_by(*_).aggregate(n=dataiter.count())"))
        cx.prove("grouped modify uses split for the partition", has("modify", "self.split(*self._group_colnames)") or has("modify", ".split("))


_WHY = ("composition of sort / unique / np.split / np.repeat / per-group callbacks over lists of index vectors: not executed symbolically; "
        "checked on the real code against the relational definition of grouping over a stated small scope")
for _n in ("dataiter/data_frame.py::DataFrame.aggregate[partition]", "dataiter/data_frame.py::DataFrame.split[partition]",
           "dataiter/data_frame.py::DataFrame.count[partition]", "dataiter/data_frame.py::DataFrame.modify[grouped]"):
    bounded_only("C04", _n, _WHY)
