# -*- coding: utf-8 -*-
"""C04: grouping partitions the rows.

What is under deductive contract:
  * yield_groups / yield_groups_numba (contracts/aggregate.py): the groups handed to a group-aware helper are the maximal
    runs of equal group ids, they tile the input, drop_na removes exactly the missing elements of each run;
  * DataFrame.unique (contracts/data_frame.py) incl. the representative lemma, DataFrame.sort (C03 contracts);
  * the LEMMA below, over those two contracts: in a frame sorted by the group columns the first-occurrence rows that unique
    keeps are exactly the run starts, so the pieces np.split cuts at them are the classes of 'equal group key': contiguous,
    disjoint, covering every row, one per distinct key, in ascending key order, each in the original order of its rows
    (stability of the sort);
  * structural obligations: aggregate / split / grouped modify are still built from exactly these pieces.
The composition itself (DataFrame.aggregate, count, split, grouped modify: a dozen calls incl. np.split / np.repeat over
lists of index vectors and per-group callbacks) is NOT executed symbolically; it is covered by bounded run-time contracts run
in every tier (labelled bounded)."""
import ast as _ast
import z3

from pyvc.contract import Contract, register, bounded_only
from pyvc.core import V, INT, BOOL, in_range
from pyvc.extract import RepoModule

F = "dataiter/data_frame.py"


@register
class GroupsAreRuns(Contract):
    """Lemma over the contracts of sort and unique.  Given n rows with keys key(i), an equivalence eq ('equal group key',
    missing == missing) and a strict order lt on keys such that (sort's postcondition) no later row sorts strictly before an
    earlier one and (consistency of sort's order with unique's equality) two keys are equal iff neither sorts before the other:
    the rows unique keeps - first occurrences of their key - are exactly the run starts, every row has the key of the last run
    start at or before it, and the keys of successive run starts strictly increase."""
    file, qualname, prop, variant = F, "DataFrame.aggregate", "C04", "lemma: in a sorted frame the first occurrences are the run starts"
    lemma_only = True

    def setup(self, cx):
        return {"self": None}

    def ensures(self, cx, result):
        ctx = cx.ctx
        n = ctx.fresh("n", INT)
        key = ctx.fresh_fn("key", INT, V)
        lt = z3.Function("key_lt", V, V, BOOL)
        eq = lambda a, b: z3.And(z3.Not(lt(a, b)), z3.Not(lt(b, a)))
        a, b, c = z3.Consts("a!g b!g c!g", V)
        i, j, q = z3.Ints("i!g j!g q!g")
        cx.assume(n >= 0)
        # lt is a strict weak order (sort's precondition: total order on the non-missing keys, missing ones tied at the end)
        cx.assume(z3.ForAll([a], z3.Not(lt(a, a))))
        cx.assume(z3.ForAll([a, b, c], z3.Implies(z3.And(lt(a, b), lt(b, c)), lt(a, c))))
        cx.assume(z3.ForAll([a, b, c], z3.Implies(lt(a, b), z3.Or(lt(a, c), lt(c, b)))))
        # postcondition of sort (ascending in every group column)
        cx.assume(z3.ForAll([i, j], z3.Implies(z3.And(0 <= i, i < j, j < n), z3.Not(lt(key(j), key(i)))),
                            patterns=[z3.MultiPattern(key(i), key(j))]))
        first = lambda t: z3.Not(z3.Exists([q], z3.And(0 <= q, q < t, eq(key(q), key(t)))))       # unique keeps exactly these
        start = lambda t: z3.Or(t == 0, z3.Not(eq(key(t - 1), key(t))))
        k = ctx.fresh("k", INT)
        cx.assume(in_range(k, n))
        cx.prove("lemma: a first occurrence is a run start", z3.Implies(first(k), start(k)))
        cx.prove("lemma: a run start is a first occurrence", z3.Implies(start(k), first(k)))
        # rep(k): unique's representative of row k (lemma UniqueRepresentative): first, <= k, same key
        rep = ctx.fresh_fn("rep", INT, INT)
        cx.assume(z3.And(0 <= rep(k), rep(k) <= k, first(rep(k)), eq(key(rep(k)), key(k))))
        m = ctx.fresh("m", INT)
        cx.prove("lemma: no run start lies strictly between a row and its representative (the piece of rep(k) contains k)",
                 z3.Implies(z3.And(rep(k) < m, m <= k), z3.Not(start(m))))
        cx.prove("lemma: rows of one piece have equal keys; rows of different pieces do not",
                 z3.Implies(in_range(m, n), eq(key(m), key(k)) == (z3.And(0 <= rep(k), eq(key(m), key(rep(k)))))))
        s1, s2 = ctx.fresh("s1", INT), ctx.fresh("s2", INT)
        cx.prove("lemma: keys of successive run starts strictly increase (one row per distinct key, ascending)",
                 z3.Implies(z3.And(0 <= s1, s1 < s2, s2 < n, start(s2), first(s2)), lt(key(s1), key(s2))))


_KEEP = {"self", "np", "dict", "dataiter", "range", "len", "map"}


class _Anon(_ast.NodeTransformer):
    """local variable names are irrelevant to the structure: every Name outside _KEEP becomes '_' (a harmless renaming of a
    local must not raise an alarm)"""
    def visit_Name(self, n):
        return _ast.copy_location(_ast.Name(id=n.id if n.id in _KEEP else "_", ctx=n.ctx), n)


def _calls(node):
    import copy
    out = []
    for x in _ast.walk(node):
        if isinstance(x, _ast.Call):
            f = x.func
            name = f.attr if isinstance(f, _ast.Attribute) else getattr(f, "id", "?")
            out.append((name, _ast.unparse(_Anon().visit(copy.deepcopy(x)))))
    return out


@register
class GroupingStructure(Contract):
    """Structural premises (facts about the current AST; Harness.premise): aggregate, split and the grouped branch of modify are built from
    the pieces whose contracts carry C04 - sort ascending by exactly the group columns, unique on the same columns, np.arange
    row ids, np.split at the kept rows' ids (first one dropped) - and count is aggregate with dataiter.count()."""
    file, qualname, prop, variant = F, "DataFrame.split", "C04", "structure of aggregate / split / count / grouped modify"
    lemma_only = True

    def setup(self, cx):
        return {"self": None}

    def ensures(self, cx, result):
        mod = RepoModule.load(F, cx.it.repo)
        src = {q: _calls(mod.find("DataFrame." + q)[0]) for q in ("aggregate", "split", "count", "modify")}
        has = lambda q, text: any(text in u.replace(" ", "") for _, u in src[q])
        # premises of the modular argument (pieces + partition lemma), not obligations of the property: when the body of one of these
        # methods is restructured, the method is decided by its bounded run-time contract (every tier) - and, for split, by the
        # deductive contract below, which executes the real body
        cx.premise("aggregate sorts ascending by exactly the group columns", has("aggregate", "self.sort(**dict.fromkeys(_,1))"))
        cx.premise("aggregate numbers the sorted rows", has("aggregate", "np.arange(_.nrow)"))
        cx.premise("aggregate keeps the first row of every group key", has("aggregate", "_.unique(*_)"))
        cx.premise("aggregate cuts the sorted rows at the kept rows", has("aggregate", "np.split(_._index_,_._index_[1:])"))
        cx.premise("aggregate hands whole-row views of each piece to plain functions", has("aggregate", "_._view_rows(_)"))
        cx.premise("aggregate labels rows with their piece number for group-aware helpers", has("aggregate", "np.repeat(_,_)"))
        cx.premise("split numbers the rows before sorting", has("split", "np.arange(_.nrow)") and has("split", "_.sort(**dict.fromkeys(_,1))"))
        cx.premise("split cuts the original row ids at the first row of every key", has("split", "_.unique(*_)")
                 and has("split", "np.split(_._index_,_._sorted_index_[1:])"))
        cx.premise("count is aggregate with dataiter.count() on a copy", has("count", "self.copy().group_by(*_).aggregate(n=dataiter.count())"))
        cx.premise("grouped modify uses split for the partition", has("modify", "self.split(*self._group_colnames)") or has("modify", ".split("))


@register
class GroupByDF(Contract):
    """group_by records the group columns exactly as given - same names, same order, nothing dropped or reordered into frame order -
    on the receiver itself, and touches no column: aggregate / count / split order their result by these columns in THIS order."""
    file, qualname, prop, variant = F, "DataFrame.group_by", "C04", "group columns recorded in the order given"
    callees = {}

    def setup(self, cx):
        from contracts.data_frame import conc_frame
        return {"self": conc_frame(cx, "self", ["a", "b", "c"]), "args": ["c", "a"]}

    def ensures(self, cx, result):
        f = cx.inputs["self"]
        cx.prove("returns-the-receiver", result is f)
        cx.prove("group columns = the names given, in the order given", f.attrs.get("_group_colnames") == ("c", "a"))
        segs = f.base.segs
        cx.prove("frame: the columns are untouched", [e.key_py for e in segs] == ["a", "b", "c"] and all(e.value is c for e, c in zip(segs, f.conc["cols"])))


_WHY = ("composition of sort / unique / np.split / np.repeat / per-group callbacks over lists of index vectors: not executed symbolically; "
        "checked on the real code against the relational definition of grouping over a stated small scope")
for _n in ("dataiter/data_frame.py::DataFrame.aggregate[partition]", "dataiter/data_frame.py::DataFrame.split[partition]",
           "dataiter/data_frame.py::DataFrame.count[partition]", "dataiter/data_frame.py::DataFrame.modify[grouped]"):
    bounded_only("C04", _n, _WHY)


# =====================================================================================================================
# DataFrame.split under a deductive contract (one and two group columns): the real body is executed; sort and unique enter
# through callee contracts (their postconditions as proved under C03 / C02), np.split through its model.
# =====================================================================================================================
from pyvc.core import Seq, zint, zbool, conc, Unsupported, PyRaise, NONE, MList
from pyvc import models as M
from pyvc.models_np import NDArr, KCODE, kind_term
from pyvc.models_dict import OMap, Entry
from pyvc.interp import Instance
from pyvc.speclib import Perm
from contracts.data_frame import sym_frame, typed_elements, named_column, na_formula, df_classes, DF_CALLEES, _DF


def _entries(obj):
    segs = obj.base.segs if isinstance(obj.base, OMap) else None
    if not segs or not all(isinstance(s, Entry) for s in segs):
        raise Unsupported("callee contract (grouping): frame is not a concrete list of named columns")
    return segs


def _keyf(it, col):
    """value of a key column at a row as unique / sort group it: every missing value counts as None"""
    s = col.seq
    return lambda i: z3.If(na_formula(it, kind_term(col.kind), M.to_v(it, s.at(i))), NONE, M.to_v(it, s.at(i)))


def _rows_frame(it, obj, r, what):
    """frame with the same named columns, every column composed with the row selection r (new buffers)"""
    DF, DFC = df_classes(it)
    segs = []
    for e in _entries(obj):
        s = e.value.seq
        segs.append(Entry(e.key, NDArr(it.ctx, Seq(r.len, lambda j, s=s: s.at(r.at(j)), s.sort), e.value.kind, owner="fresh", cls=DFC), e.key_py))
    out = Instance(it.ctx, DF, base=OMap(segs))
    out.attrs["_group_colnames"] = ()
    return out


def _key_columns(it, obj, names):
    cols = []
    for nm in names:
        hit = [e for e in _entries(obj) if e.key_py == nm]
        if len(hit) != 1:
            raise PyRaise("KeyError", str(nm))
        cols.append(hit[0].value)
    return cols


class _GroupingCallees:
    """ghost record of what the callee contracts returned (used by the postcondition)"""
    def __init__(self):
        self.sort = self.unique = None

    def sort_contract(self, it, args, kwargs):
        """Callee contract of DataFrame.sort(**{name: 1}) = postcondition proved under C03 (one / two ascending keys): the rows are a
        permutation sigma of the input rows, ordered by a strict weak order on the key combinations whose equivalence is 'equal
        values or both missing' in every key column (missing last), and rows with equal keys keep their input order."""
        obj = args[0]
        names = list(kwargs)
        if not names or any(kwargs[n] != 1 for n in names) or len(args) != 1:
            raise Unsupported("callee contract (grouping): sort other than ascending by named columns")
        ctx = it.ctx
        cols = _key_columns(it, obj, names)
        n = cols[0].seq.len
        kf = [_keyf(it, c) for c in cols]
        same = lambda a, b: z3.And(*[f(a) == f(b) for f in kf])
        pm = Perm(ctx, n, "sorted")
        klt = ctx.fresh_fn("key_before", INT, INT, BOOL)        # row a sorts strictly before row b (by the key columns)
        a, b, c = z3.Ints("a!gs b!gs c!gs")
        rng = lambda *xs: z3.And(*[z3.And(0 <= x, x < zint(n)) for x in xs])
        ctx.assumptions.append(z3.ForAll([a, b], z3.Implies(rng(a, b), same(a, b) == z3.And(z3.Not(klt(a, b)), z3.Not(klt(b, a)))),
                                         patterns=[klt(a, b)]))
        ctx.assumptions.append(z3.ForAll([a, b, c], z3.Implies(z3.And(rng(a, b, c), klt(a, b), klt(b, c)), klt(a, c)),
                                         patterns=[z3.MultiPattern(klt(a, b), klt(b, c))]))
        ctx.assumptions.append(z3.ForAll([a, b, c], z3.Implies(z3.And(rng(a, b, c), klt(a, b)), z3.Or(klt(a, c), klt(c, b))),
                                         patterns=[z3.MultiPattern(klt(a, b), klt(a, c))]))
        i, j = z3.Ints("i!gs j!gs")
        pi, pj = pm.perm(i), pm.perm(j)
        ctx.assumptions.append(z3.ForAll([i, j], z3.Implies(z3.And(0 <= i, i < j, j < zint(n)),
                                                            z3.And(z3.Not(klt(pj, pi)), z3.Implies(same(pi, pj), pi < pj))),
                                         patterns=[z3.MultiPattern(pm.perm(i), pm.perm(j))]))
        r = Seq(n, lambda t: pm.perm(t), INT)
        out = _rows_frame(it, obj, r, "sorted")
        self.sort = {"perm": pm, "n": n, "same": same, "klt": klt, "names": names}
        ctx.used_models.add("callee contract: DataFrame.sort ascending by the group columns (postcondition proved under C03)")
        return out

    def unique_contract(self, it, args, kwargs):
        """Callee contract of DataFrame.unique(*names) = postcondition proved under C02 + the representative lemma: the first row of
        every key combination, in order."""
        obj, names = args[0], list(args[1:])
        ctx = it.ctx
        cols = _key_columns(it, obj, names)
        n = cols[0].seq.len
        kf = [_keyf(it, c) for c in cols]
        same = lambda a, b: z3.And(*[f(a) == f(b) for f in kf])
        q = z3.Int("q!gu")
        first = lambda t: z3.Not(z3.Exists([q], z3.And(0 <= q, q < t, same(q, t))))
        e = Enum.of(ctx, n, first)
        rep = ctx.fresh_fn("rep", INT, INT)
        t = z3.Int("t!gu")
        ctx.assumptions.append(z3.ForAll([t], z3.Implies(in_range(t, n), z3.And(0 <= rep(t), rep(t) <= t, first(rep(t)), same(rep(t), t))),
                                         patterns=[rep(t)]))
        r = Seq(e.cnt, lambda j: e.idx(j), INT)
        out = _rows_frame(it, obj, r, "unique")
        self.unique = {"enum": e, "first": first, "same": same, "rep": rep, "n": n}
        ctx.used_models.add("callee contract: DataFrame.unique on the group columns (postcondition proved under C02, representative lemma)")
        return out


from pyvc.core import Enum


def _mk_split(nkeys):
    names = tuple(f"k{t + 1}" for t in range(nkeys))

    @register
    class Split(_DF):
        __doc__ = (f"DataFrame.split on {nkeys} group column(s): the pieces are consecutive segments of ONE permutation of the row numbers "
                   "(hence pairwise disjoint and covering every row); rows of a piece have equal group keys (missing == missing), rows of "
                   "different pieces do not; inside a piece the original row order is kept; pieces come in ascending key order; a frame "
                   "without rows has no pieces.")
        qualname, prop, variant = "DataFrame.split", "C04", f"{nkeys} group column(s)"
        timeout_ms = 20000

        def setup(self, cx):
            self_ = sym_frame(cx, "self")
            typed_elements(cx, self_)
            ps = [named_column(cx, self_, nm) for nm in names]
            # precondition inherited from the sort contracts (C03): key kinds with a total order on the non-missing values
            for p in ps:
                cx.assume(z3.And(self_.sym["kind"](p) != KCODE["bytes"], self_.sym["kind"](p) != KCODE["uint"]))
            g = _GroupingCallees()
            self.g = g
            self.callees = dict(DF_CALLEES)
            self.callees["DataFrame.sort"] = g.sort_contract
            self.callees["DataFrame.unique"] = g.unique_contract
            return {"self": self_, "args": list(names), "ps": ps}

        def ensures(self, cx, result):
            ctx, it = cx.ctx, cx.it
            self_ = cx.inputs["self"]
            n = zint(self_.sym["nrow"])
            from pyvc.interp import PyList
            ok = isinstance(result, MList)
            cx.prove("result is a list of index vectors", ok)
            if not ok:
                return
            if isinstance(result.seq, PyList):
                cx.prove("a literal (empty) list is returned only for a frame without rows", z3.And(n == 0, len(result.seq.items) == 0))
                return
            g = self.g
            cx.prove("ghost: sort and unique were used on the group columns", g.sort is not None and g.unique is not None
                     and g.sort["names"] == list(names))
            if g.sort is None or g.unique is None:
                return
            pm, klt, same0 = g.sort["perm"], g.sort["klt"], g.sort["same"]
            e = g.unique["enum"]
            pieces = result.seq
            cx.prove("rows exist (the empty frame returns [] before)", n > 0)
            cx.prove("one piece per distinct key of the sorted rows", zint(pieces.len) == e.cnt)
            t, j, j2, t2 = ctx.fresh("t", INT), ctx.fresh("j", INT), ctx.fresh("j2", INT), ctx.fresh("t2", INT)
            ctx.assume(in_range(t, e.cnt))
            start = e.idx(t)
            end = z3.If(t + 1 == e.cnt, n, e.idx(t + 1))
            pc = pieces.at(t)
            okp = isinstance(pc, NDArr)
            cx.prove("pieces are arrays", okp)
            if not okp:
                return
            cx.prove("lemma: the first kept row is row 0 of the sorted frame", z3.Implies(e.cnt > 0, e.idx(0) == 0))
            cx.prove("tiling: piece t is the segment [start_t, start_{t+1}) of the sorted row numbers, the last one ends at nrow",
                     z3.And(0 <= start, start < end, end <= n, zint(pc.len) == end - start))
            cx.prove("piece t holds the original row numbers sigma(start_t + j): consecutive segments of one permutation",
                     z3.Implies(in_range(j, end - start), zint(pc.seq.at(j)) == pm.perm(start + j)))
            row = lambda tt, jj: pm.perm(e.idx(tt) + jj)
            # lemma chain (GroupsAreRuns, instantiated): the representative of a sorted position inside piece t is the piece's start
            rep, first_u, same_u = g.unique["rep"], g.unique["first"], g.unique["same"]
            cx.prove("lemma: unique's key equality on the sorted rows is the key equality of the original rows they came from",
                     z3.Implies(z3.And(in_range(j, n), in_range(j2, n)), same_u(j, j2) == same0(pm.perm(j), pm.perm(j2))))
            for jj in (j, j2):          # the chain is needed for both (arbitrary) positions of the final clause
                p = start + jj
                rp = rep(p)
                cx.prove("lemma: the representative of a position is a kept row", z3.Implies(in_range(jj, end - start),
                         z3.And(in_range(e.rk(rp), e.cnt), e.idx(e.rk(rp)) == rp, rp <= p)))
                cx.prove("lemma: ... and it is not a later piece's start", z3.Implies(in_range(jj, end - start), e.rk(rp) <= t))
                cx.prove("lemma: ... nor an earlier piece's start (sortedness: a key cannot re-appear after a different key)",
                         z3.Implies(in_range(jj, end - start), e.rk(rp) >= t))
                cx.prove("lemma: every row of piece t has the key of the piece's first row",
                         z3.Implies(in_range(jj, end - start), same0(row(t, jj), row(t, 0))))
            cx.prove("rows of one piece have equal group keys",
                     z3.Implies(z3.And(in_range(j, end - start), in_range(j2, end - start)), same0(row(t, j), row(t, j2))))
            cx.prove("inside a piece the original row order is kept",
                     z3.Implies(z3.And(0 <= j, j < j2, j2 < end - start), row(t, j) < row(t, j2)))
            cx.prove("pieces come in ascending key order (so different pieces have different keys)",
                     z3.Implies(z3.And(in_range(t2, e.cnt), t < t2), klt(row(t, 0), row(t2, 0))))
    Split.__name__ = f"Split{nkeys}"
    return Split


_mk_split(1)
_mk_split(2)
