# -*- coding: utf-8 -*-
"""Contracts for dataiter/io.py (C14): every module-level reader is a transparent alias."""
import ast
import z3
from pyvc.contract import Contract, register
from pyvc.core import V, NONE, Unsupported
from pyvc.extract import RepoModule
from pyvc import models as M

F = "dataiter/io.py"

ALIASES = {
    "read_csv": ("dataiter/data_frame.py", "DataFrame.read_csv"),
    "read_geojson": ("dataiter/geojson.py", "GeoJSON.read"),
    "read_json": ("dataiter/list_of_dicts.py", "ListOfDicts.read_json"),
    "read_npz": ("dataiter/data_frame.py", "DataFrame.read_npz"),
    "read_parquet": ("dataiter/data_frame.py", "DataFrame.read_parquet"),
}


def signature(node):
    a = node.args
    pos = [p.arg for p in a.posonlyargs + a.args]
    kwonly = [(p.arg, ast.dump(d) if d is not None else None) for p, d in zip(a.kwonlyargs, a.kw_defaults)]
    posdef = [ast.dump(d) for d in a.defaults]
    return pos, posdef, kwonly, a.vararg is not None, a.kwarg is not None


def make(alias):
    tfile, tqual = ALIASES[alias]

    class Alias(Contract):
        file, qualname, prop = F, alias, "C14"
        variant = "alias of " + tqual
        always_bounded = True       # run-time agreement alias == class method on a real file for every keyword combination, every tier
        cases = {"all keywords given": None, "no keyword given (defaults)": None}

        def setup(self, cx):
            mod = RepoModule.load(F, cx.it.repo)
            node = mod.functions[alias]
            pos, posdef, kwonly, va, kw = signature(node)
            path = cx.val("path")
            given = {}
            if cx.case == "all keywords given":
                for name, _ in kwonly:
                    given[name] = cx.val("arg_" + name)
            extra = {}
            if kw:
                extra = {"extra_kw": cx.val("arg_extra_kw")}
            calls = []
            ret = cx.val("target_result")

            def target(it, args, kwargs):
                calls.append((list(args), dict(kwargs)))
                return ret
            cx.it.callee_contracts = {tqual: target}
            self.__class__.callees = {tqual: target}
            cx.calls, cx.ret, cx.given, cx.extra, cx.path = calls, ret, given, extra, path
            cx.kwonly = kwonly
            return {"self": None, "args": [path], "kwargs": {**given, **extra}}

        def ensures(self, cx, result):
            tmod = RepoModule.load(tfile, cx.it.repo)
            tnode = tmod.find(tqual)[0]
            tpos, tposdef, tkwonly, tva, tkw = signature(tnode)
            cx.prove("calls-target-exactly-once", len(cx.calls) == 1)
            if len(cx.calls) != 1:
                return
            args, kwargs = cx.calls[0]
            cx.prove("returns-target-result", result == cx.ret if M.is_v(result) else False)
            cx.prove("forwards:path", len(args) == 2)
            if len(args) == 2:
                cx.prove("forwards:path-value", args[1] == cx.path if M.is_v(args[1]) else False)
            tdefaults = dict(tkwonly)
            adefaults = dict(cx.kwonly)
            # same keyword interface on both sides
            cx.prove("same-keyword-parameters", sorted(adefaults) == sorted(tdefaults))
            for name in adefaults:
                if cx.case == "all keywords given":
                    got = kwargs.get(name, None)
                    ok = M.is_v(got) and got.eq(cx.given[name])
                    cx.prove(f"forwards:{name}", bool(ok))
                else:
                    # argument omitted by the caller: the alias passes its own default, which must be the
                    # target's default for the results to agree
                    cx.prove(f"default-agrees:{name}", adefaults[name] == tdefaults.get(name))
                    got = kwargs.get(name, "<<not passed>>")
                    cx.prove(f"passes-own-default:{name}", self.same_default(got, adefaults[name]))
            for name in cx.extra:
                got = kwargs.get(name)
                cx.prove("forwards:**kwargs", bool(M.is_v(got) and got.eq(cx.extra[name])))
            unexpected = [k for k in kwargs if k not in adefaults and k not in cx.extra]
            cx.prove("no-unexpected-arguments", not unexpected)

        @staticmethod
        def same_default(got, dumped):
            if dumped is None:
                return False
            try:
                want = ast.literal_eval(ast.unparse(eval_dump(dumped)))
            except Exception:
                return False
            from pyvc.core import MList
            from pyvc.interp import PyList
            if isinstance(got, MList):
                s = got.seq
                got = list(s.items) if isinstance(s, PyList) else "<<symbolic>>"
            return got == want and type(got) is type(want)

    Alias.__name__ = "Alias_" + alias
    return Alias


def eval_dump(dumped):
    """ast.dump text -> AST node (dump output is a valid constructor expression over ast names)."""
    return eval(dumped, {k: getattr(ast, k) for k in dir(ast)})


for _a in ALIASES:
    register(make(_a))


# ---- first half of C14: column / key restriction and type maps of the readers -------------------------------------------
# The readers are thin layers over external parsers (pyarrow.csv, pyarrow.parquet, json, csv) whose results no contract
# within reach describes; the restriction law is therefore a BOUNDED run-time contract on the real readers (bounded/misc.py),
# run in every tier, labelled bounded and never counted as proved.
from pyvc.contract import bounded_only

_WHY = ("reader over an external parser (pyarrow / json / csv): restricted read == selection of the full read is checked on the real "
        "code over a stated small scope only")
for _n in ("dataiter/data_frame.py::DataFrame.read_csv[restriction]", "dataiter/data_frame.py::DataFrame.read_parquet[restriction]",
           "dataiter/data_frame.py::DataFrame.read_json[restriction]", "dataiter/data_frame.py::DataFrame.from_json[restriction]",
           "dataiter/list_of_dicts.py::ListOfDicts.read_csv[restriction]", "dataiter/list_of_dicts.py::ListOfDicts.read_json[restriction]",
           "dataiter/list_of_dicts.py::ListOfDicts.from_json[restriction]", "dataiter/geojson.py::GeoJSON.read[restriction]",
           "dataiter/data_frame.py::DataFrame.read_csv[no header: type map by generated names]"):
    bounded_only("C14", _n, _WHY)


# ---- C18: GeoJSON read / write --------------------------------------------------------------------------------------------
# read and write are loops over json values and file writes: the statement is about the JSON text on disk and about nested dict /
# list values produced by json.load; validity and equality of JSON text need string reasoning that neither back end decides
# (DESIGN.md section 4 C18).  Bounded run-time contracts only; the property is claimed at level 'exploration', not 'proof'.
bounded_only("C18", "dataiter/geojson.py::GeoJSON.read[faithful]", "json.load + nested loops building a dict of lists; compared with the feature collection on the real code")
bounded_only("C18", "dataiter/geojson.py::GeoJSON.write[faithful]", "text emitted with f.write / json.dumps: validity and content of the JSON text checked by parsing the written file")
