# -*- coding: utf-8 -*-
"""Contracts for dataiter/list_of_dicts.py (C15, C16, C17)."""
import z3
from pyvc.contract import Contract, register, LoopSpec
from pyvc.core import (INT, BOOL, V, NONE, ABSENT, Seq, seq_eq, filter_seq, zint, zbool, in_range, truthy)
from pyvc.interp import Instance
from pyvc import models as M
from pyvc.speclib import select_by

F = "dataiter/list_of_dicts.py"


def is_lod(cx, result):
    return isinstance(result, Instance) and result.cls.name == "ListOfDicts"


def result_items(cx, result):
    cx.prove("result-is-ListOfDicts", z3.BoolVal(is_lod(cx, result)))
    if not is_lod(cx, result):
        raise M.Unsupported("result is not a ListOfDicts")
    return M.unstructure(result.base)


@register
class FilterCallable(Contract):
    file, qualname, prop, variant = F, "ListOfDicts.filter", "C15", "callable"

    def setup(self, cx):
        self_ = cx.lod("self")
        f = cx.callback("function")
        return {"self": self_, "args": [f], "f": f}

    def ensures(self, cx, result):
        s, f = cx.inputs["self"].base, cx.inputs["f"]
        D0 = cx.old["heap"]["D"]
        items = result_items(cx, result)
        spec = select_by(cx.ctx, s, lambda x: truthy(f.fn(x, D0)))
        cx.prove("seq=select_by(self,function)", seq_eq(cx.ctx, items, spec))
        cx.prove("frame:items-unchanged", cx.ctx.heap["D"] == D0)
