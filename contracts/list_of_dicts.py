# -*- coding: utf-8 -*-
"""Contracts for dataiter/list_of_dicts.py (C15, C16, C17)."""
import z3
from pyvc.contract import Contract, register, LoopSpec
from pyvc.core import (INT, BOOL, V, NONE, ABSENT, Seq, seq_eq, filter_seq, zint, zbool, in_range, truthy)
from pyvc.interp import Instance
from pyvc import models as M
from pyvc.speclib import select_by

F = "dataiter/list_of_dicts.py"


def is_lod(cx, result):
    return isinstance(result, Instance) and result.cls.name == "ListOfDicts"


def result_items(cx, result):
    cx.prove("result-is-ListOfDicts", z3.BoolVal(is_lod(cx, result)))
    if not is_lod(cx, result):
        raise M.Unsupported("result is not a ListOfDicts")
    return M.unstructure(result.base)


@register
class FilterCallable(Contract):
    file, qualname, prop, variant = F, "ListOfDicts.filter", "C15", "callable"

    def setup(self, cx):
        self_ = cx.lod("self")
        f = cx.callback("function")
        return {"self": self_, "args": [f], "f": f}

    def ensures(self, cx, result):
        s, f = cx.inputs["self"].base, cx.inputs["f"]
        D0 = cx.old["heap"]["D"]
        items = result_items(cx, result)
        spec = select_by(cx.ctx, s, lambda x: truthy(f.fn(x, D0)))
        cx.prove("seq=select_by(self,function)", seq_eq(cx.ctx, items, spec))
        cx.prove("frame:items-unchanged", cx.ctx.heap["D"] == D0)


def has_key(D, item, k):
    return D[item][k] != ABSENT


def all_items_have(cx, s, keys):
    """Precondition of key-based methods: every item has every named key (operator.itemgetter
    raises KeyError otherwise - documented)."""
    D = M.heap_D(cx.ctx)
    j = z3.Int("j!pre")
    for k in keys:
        kv = M.to_v(cx.it, k)
        cx.ctx.assumptions.append(z3.ForAll([j], z3.Implies(in_range(j, s.len), has_key(D, s.at(j), kv))))


class _FilterKV(Contract):
    file, prop = F, "C15"
    arity = 1
    negate = False

    def setup(self, cx):
        self_ = cx.lod("self")
        names = ["k1", "k2", "k3"][:self.arity]
        vals = [cx.val(f"v{i+1}") for i in range(self.arity)]
        all_items_have(cx, self_.base, names)
        return {"self": self_, "kwargs": dict(zip(names, vals)), "names": names, "vals": vals}

    def ensures(self, cx, result):
        s = cx.inputs["self"].base
        D0 = cx.old["heap"]["D"]
        items = result_items(cx, result)
        kvs = [(M.to_v(cx.it, n), v) for n, v in zip(cx.inputs["names"], cx.inputs["vals"])]

        def match(x):
            m = z3.And(*[D0[x][k] == v for k, v in kvs])
            return z3.Not(m) if self.negate else m
        spec = select_by(cx.ctx, s, match)
        cx.prove("seq=select_by(self,key=value)", seq_eq(cx.ctx, items, spec))
        cx.prove("frame:items-unchanged", cx.ctx.heap["D"] == D0)


@register
class FilterKV1(_FilterKV):
    qualname, variant, arity = "ListOfDicts.filter", "key=value x1", 1


@register
class FilterKV2(_FilterKV):
    qualname, variant, arity = "ListOfDicts.filter", "key=value x2", 2


@register
class FilterOutKV1(_FilterKV):
    qualname, variant, arity, negate = "ListOfDicts.filter_out", "key=value x1", 1, True


@register
class FilterOutKV2(_FilterKV):
    qualname, variant, arity, negate = "ListOfDicts.filter_out", "key=value x2", 2, True


@register
class FilterOutCallable(Contract):
    file, qualname, prop, variant = F, "ListOfDicts.filter_out", "C15", "callable"

    def setup(self, cx):
        self_ = cx.lod("self")
        f = cx.callback("function")
        return {"self": self_, "args": [f], "f": f}

    def ensures(self, cx, result):
        s, f = cx.inputs["self"].base, cx.inputs["f"]
        D0 = cx.old["heap"]["D"]
        items = result_items(cx, result)
        spec = select_by(cx.ctx, s, lambda x: z3.Not(truthy(f.fn(x, D0))))
        cx.prove("seq=select_by(self,not function)", seq_eq(cx.ctx, items, spec))
        cx.prove("frame:items-unchanged", cx.ctx.heap["D"] == D0)


@register
class FilterPartition(Contract):
    """Lemma (spec level): select_by(s,P) and select_by(s,not P) partition the positions of s,
    each preserving order - the sense in which filter/filter_out 'partition the items'."""
    file, qualname, prop, variant = F, "ListOfDicts.filter", "C15", "lemma:partition"

    def setup(self, cx):
        self_ = cx.lod("self")
        f = cx.callback("function")
        return {"self": self_, "args": [f], "f": f}

    def ensures(self, cx, result):
        ctx = cx.ctx
        s, f = cx.inputs["self"].base, cx.inputs["f"]
        D0 = cx.old["heap"]["D"]
        a = select_by(ctx, s, lambda x: truthy(f.fn(x, D0)))
        b = select_by(ctx, s, lambda x: z3.Not(truthy(f.fn(x, D0))))
        i = ctx.fresh("i", INT)
        P = truthy(f.fn(s.at(i), D0))
        # every position of s is enumerated by exactly one of the two
        cx.prove("lemma:covers", z3.Implies(in_range(i, s.len), z3.If(
            P, z3.And(in_range(a.enum.rk(i), a.len), a.enum.idx(a.enum.rk(i)) == i),
            z3.And(in_range(b.enum.rk(i), b.len), b.enum.idx(b.enum.rk(i)) == i))))
        j, j2 = ctx.fresh("j", INT), ctx.fresh("j2", INT)
        cx.prove("lemma:disjoint", z3.Implies(z3.And(in_range(j, a.len), in_range(j2, b.len)),
                                              a.enum.idx(j) != b.enum.idx(j2)))
        cx.prove("lemma:order-preserved", z3.Implies(z3.And(in_range(j, a.len), in_range(j2, a.len), j < j2),
                                                     a.enum.idx(j) < a.enum.idx(j2)))


class _HeadTail(Contract):
    file, prop = F, "C15"
    tail = False
    cases = {"n given": lambda cx, inp: z3.BoolVal(True)}

    def setup(self, cx):
        self_ = cx.lod("self")
        n = cx.int("n")
        cx.assume(n >= 0)
        return {"self": self_, "args": [n], "n": n}

    def ensures(self, cx, result):
        s, n = cx.inputs["self"].base, cx.inputs["n"]
        items = result_items(cx, result)
        m = z3.If(n <= zint(s.len), n, zint(s.len))
        cx.prove("len=min(n,len)", zint(items.len) == m)
        j = cx.ctx.fresh("j", INT)
        if self.tail:
            cx.prove("items=last-m", z3.Implies(in_range(j, m), items.at(j) == s.at(zint(s.len) - m + j)))
        else:
            cx.prove("items=first-m", z3.Implies(in_range(j, m), items.at(j) == s.at(j)))
        cx.prove("frame:items-unchanged", cx.ctx.heap["D"] == cx.old["heap"]["D"])


@register
class Head(_HeadTail):
    qualname = "ListOfDicts.head"


@register
class Tail(_HeadTail):
    qualname, tail = "ListOfDicts.tail", True


@register
class HeadDefault(Contract):
    file, qualname, prop, variant = F, "ListOfDicts.head", "C15", "n=None"

    def setup(self, cx):
        return {"self": cx.lod("self"), "args": []}

    def ensures(self, cx, result):
        s = cx.inputs["self"].base
        items = result_items(cx, result)
        d = cx.it.config["DEFAULT_PEEK_ITEMS"]
        cx.prove("len=min(default,len)", zint(items.len) == z3.If(d <= zint(s.len), d, zint(s.len)))


@register
class Append(Contract):
    file, qualname, prop = F, "ListOfDicts.append", "C15"
    cases = {"AttributeDict": lambda cx, inp: M.is_adict(inp["item"]),
             "plain dict": lambda cx, inp: z3.And(z3.Not(M.is_adict(inp["item"])), M.is_dict(inp["item"]))}

    def setup(self, cx):
        self_ = cx.lod("self")
        item = cx.val("item")
        cx.assume(item != NONE)
        cx.assume(M.heap_alloc(cx.ctx)[item])
        return {"self": self_, "args": [item], "item": item}

    def ensures(self, cx, result):
        s, item = cx.inputs["self"].base, cx.inputs["item"]
        D0, D = cx.old["heap"]["D"], cx.ctx.heap["D"]
        items = result_items(cx, result)
        j = cx.ctx.fresh("j", INT)
        cx.prove("len=len+1", zint(items.len) == zint(s.len) + 1)
        cx.prove("prefix=self", z3.Implies(in_range(j, s.len), items.at(j) == s.at(j)))
        last = items.at(zint(s.len))
        cx.prove("last-has-item-contents", D[last] == D0[item])
        cx.prove("last-is-AttributeDict", M.is_adict(last))
        if cx.case == "AttributeDict":
            cx.prove("last-is-item", last == item)
        r = cx.ctx.fresh("r", V)
        cx.prove("frame:existing-dicts-unchanged", z3.Implies(cx.old["heap"]["alloc"][r], D[r] == D0[r]))


class _Concat(Contract):
    file, prop = F, "C15"

    def setup(self, cx):
        self_ = cx.lod("self")
        other = cx.lod("other")
        return {"self": self_, "args": [other], "other": other}

    def ensures(self, cx, result):
        s, o = cx.inputs["self"].base, cx.inputs["other"].base
        items = result_items(cx, result)
        j = cx.ctx.fresh("j", INT)
        cx.prove("len=len+len", zint(items.len) == zint(s.len) + zint(o.len))
        cx.prove("prefix=self", z3.Implies(in_range(j, s.len), items.at(j) == s.at(j)))
        cx.prove("suffix=other", z3.Implies(in_range(j, o.len), items.at(zint(s.len) + j) == o.at(j)))
        cx.prove("frame:items-unchanged", cx.ctx.heap["D"] == cx.old["heap"]["D"])


@register
class Add(_Concat):
    qualname = "ListOfDicts.__add__"


@register
class Extend(_Concat):
    qualname, variant = "ListOfDicts.extend", "ListOfDicts argument"


@register
class Reverse(Contract):
    file, qualname, prop = F, "ListOfDicts.reverse", "C15"

    def setup(self, cx):
        return {"self": cx.lod("self"), "args": []}

    def ensures(self, cx, result):
        s = cx.inputs["self"].base
        items = result_items(cx, result)
        j = cx.ctx.fresh("j", INT)
        cx.prove("len", zint(items.len) == zint(s.len))
        cx.prove("items[j]=self[len-1-j]", z3.Implies(in_range(j, s.len), items.at(j) == s.at(zint(s.len) - 1 - j)))
        cx.prove("frame:items-unchanged", cx.ctx.heap["D"] == cx.old["heap"]["D"])


@register
class Slice(Contract):
    """self[lo:hi] - Python slice semantics (negative bounds wrap, clamped)."""
    file, qualname, prop, variant = F, "ListOfDicts.__getitem__", "C15", "slice lo:hi"

    def setup(self, cx):
        from pyvc.interp import SliceVal
        lo, hi = cx.int("lo"), cx.int("hi")
        return {"self": cx.lod("self"), "args": [SliceVal(lo, hi, None)], "lo": lo, "hi": hi}

    def ensures(self, cx, result):
        s, lo, hi = cx.inputs["self"].base, cx.inputs["lo"], cx.inputs["hi"]
        n = zint(s.len)
        items = result_items(cx, result)

        def norm(x):
            x = z3.If(x < 0, x + n, x)
            return z3.If(x < 0, 0, z3.If(x > n, n, x))
        a, b = norm(lo), norm(hi)
        ln = z3.If(b - a > 0, b - a, 0)
        j = cx.ctx.fresh("j", INT)
        cx.prove("len=max(0,hi'-lo')", zint(items.len) == ln)
        cx.prove("items[j]=self[lo'+j]", z3.Implies(in_range(j, ln), items.at(j) == s.at(a + j)))


@register
class GetItemIndex(Contract):
    file, qualname, prop, variant = F, "ListOfDicts.__getitem__", "C15", "integer index"

    def setup(self, cx):
        i = cx.int("i")
        s = cx.lod("self")
        cx.assume(z3.And(i >= -zint(s.base.len), i < zint(s.base.len)))
        return {"self": s, "args": [i], "i": i}

    def ensures(self, cx, result):
        s, i = cx.inputs["self"].base, cx.inputs["i"]
        cx.prove("item", result == s.at(z3.If(i >= 0, i, i + zint(s.len))))


@register
class Insert(Contract):
    """insert = list.insert: negative indices count from the end, out-of-range clamps."""
    file, qualname, prop = F, "ListOfDicts.insert", "C15"
    cases = {"0<=index<len": lambda cx, inp: z3.And(inp["i"] >= 0, inp["i"] < zint(inp["self"].base.len)),
             "index>=len": lambda cx, inp: inp["i"] >= zint(inp["self"].base.len),
             "index<0": lambda cx, inp: inp["i"] < 0}

    def setup(self, cx):
        self_ = cx.lod("self")
        item = cx.val("item")
        cx.assume(z3.And(item != NONE, M.heap_alloc(cx.ctx)[item], M.is_adict(item)))
        i = cx.int("index")
        return {"self": self_, "args": [i, item], "item": item, "i": i}

    def ensures(self, cx, result):
        s, item, i = cx.inputs["self"].base, cx.inputs["item"], cx.inputs["i"]
        n = zint(s.len)
        items = result_items(cx, result)
        pos = z3.If(i < 0, z3.If(i + n < 0, 0, i + n), z3.If(i > n, n, i))
        j = cx.ctx.fresh("j", INT)
        cx.prove("len=len+1", zint(items.len) == n + 1)
        cx.prove("item-at-pos", items.at(pos) == item)
        cx.prove("before-pos", z3.Implies(z3.And(0 <= j, j < pos), items.at(j) == s.at(j)))
        cx.prove("after-pos", z3.Implies(z3.And(pos < j, j <= n), items.at(j) == s.at(j - 1)))
        cx.prove("frame:items-unchanged", cx.ctx.heap["D"] == cx.old["heap"]["D"])


def unique_inv(S):
    """found_ids == { key(self[p]) | p < k }"""
    ctx = S.ctx
    found = S.contents(S.var("found_ids"))
    s = S.coll
    D = M.heap_D(ctx)
    k1 = M.to_v(S.it, "k1")
    x = z3.Const("x!inv", V)
    p = z3.Int("p!inv")
    return z3.ForAll([x], found.mem(x) == z3.Exists([p], z3.And(0 <= p, p < S.k, D[s.at(p)][k1] == x)))


@register
class Unique1(Contract):
    """unique(key): keeps exactly the first item of every distinct key value, in order."""
    file, qualname, prop, variant = F, "ListOfDicts.unique", "C15", "one key"
    loops = {("ListOfDicts.unique", 0): LoopSpec(unique_inv)}

    def setup(self, cx):
        self_ = cx.lod("self")
        all_items_have(cx, self_.base, ["k1"])
        return {"self": self_, "args": ["k1"]}

    def ensures(self, cx, result):
        ctx = cx.ctx
        s = cx.inputs["self"].base
        D0 = cx.old["heap"]["D"]
        k1 = M.to_v(cx.it, "k1")
        items = result_items(cx, result)
        p = z3.Int("p!spec")

        def first_occurrence(k):
            return z3.Not(z3.Exists([p], z3.And(0 <= p, p < k, D0[s.at(p)][k1] == D0[s.at(k)][k1])))
        spec = filter_seq(ctx, s.len, first_occurrence, lambda k: s.at(k))
        cx.prove("seq=first-item-per-key", seq_eq(ctx, items, spec))
        cx.prove("frame:items-unchanged", ctx.heap["D"] == D0)


def comparable_values(cx, s, keys):
    """Precondition of sort: under every sort key each item has a value that is None or belongs
    to one class of mutually comparable values on which < is a strict total order."""
    from pyvc.core import v_lt
    ctx = cx.ctx
    cmp_ = z3.Function("comparable", V, BOOL)
    x, y, z = z3.Consts("x!cmp y!cmp z!cmp", V)
    ctx.assumptions.append(z3.ForAll([x], z3.Not(v_lt(x, x)), patterns=[v_lt(x, x)]))
    ctx.assumptions.append(z3.ForAll([x, y, z], z3.Implies(z3.And(v_lt(x, y), v_lt(y, z)), v_lt(x, z)),
                                     patterns=[z3.MultiPattern(v_lt(x, y), v_lt(y, z))]))
    ctx.assumptions.append(z3.ForAll([x, y], z3.Implies(z3.And(cmp_(x), cmp_(y), x != y), z3.Or(v_lt(x, y), v_lt(y, x))),
                                     patterns=[z3.MultiPattern(cmp_(x), cmp_(y))]))
    ctx.assumptions.append(z3.Not(cmp_(NONE)))
    D = M.heap_D(ctx)
    j = z3.Int("j!cmp")
    for k in keys:
        kv = M.to_v(cx.it, k)
        ctx.assumptions.append(z3.ForAll([j], z3.Implies(in_range(j, s.len), z3.And(
            D[s.at(j)][kv] != ABSENT, z3.Or(D[s.at(j)][kv] == NONE, cmp_(D[s.at(j)][kv])))), patterns=[s.at(j)]))
    return cmp_


def before(D, kv, dir_, x, y):
    """x must come strictly before y by key kv in direction dir_ (None last in both directions)."""
    from pyvc.core import v_lt
    vx, vy = D[x][kv], D[y][kv]
    lt = v_lt(vx, vy) if dir_ > 0 else v_lt(vy, vx)
    return z3.Or(z3.And(vx != NONE, vy == NONE), z3.And(vx != NONE, vy != NONE, lt))


def lex_before(D, keys, x, y):
    """lexicographic 'strictly before' over [(key, dir), ...]"""
    if not keys:
        return z3.BoolVal(False)
    (kv, d), rest = keys[0], keys[1:]
    b = before(D, kv, d, x, y)
    tie = z3.And(z3.Not(b), z3.Not(before(D, kv, d, y, x)))
    return z3.Or(b, z3.And(tie, lex_before(D, rest, x, y)))


class _Sort(Contract):
    file, qualname, prop = F, "ListOfDicts.sort", "C15"
    dirs = (1,)

    def setup(self, cx):
        self_ = cx.lod("self")
        names = ["k1", "k2", "k3"][:len(self.dirs)]
        comparable_values(cx, self_.base, names)
        return {"self": self_, "kwargs": dict(zip(names, self.dirs)), "names": names}

    def ensures(self, cx, result):
        ctx = cx.ctx
        s = cx.inputs["self"].base
        D0 = cx.old["heap"]["D"]
        items = result_items(cx, result)
        keys = [(M.to_v(cx.it, n), d) for n, d in zip(cx.inputs["names"], self.dirs)]
        n = zint(s.len)
        cx.prove("len", zint(items.len) == n)
        # permutation: there is a bijection pi with items[j] = self[pi(j)]; the code's composition of
        # sorted() permutations is the witness
        pi = self.witness(cx, result)
        j, a, b = ctx.fresh("j", INT), ctx.fresh("a", INT), ctx.fresh("b", INT)
        cx.prove("perm:range+injective", z3.Implies(in_range(j, n), z3.And(in_range(pi["f"](j), n), pi["g"](pi["f"](j)) == j)))
        cx.prove("perm:surjective", z3.Implies(in_range(j, n), z3.And(in_range(pi["g"](j), n), pi["f"](pi["g"](j)) == j)))
        cx.prove("perm:items", z3.Implies(in_range(j, n), items.at(j) == s.at(pi["f"](j))))
        rng = z3.And(0 <= a, a < b, b < n)
        xa, xb = items.at(a), items.at(b)
        cx.prove("ordered", z3.Implies(rng, z3.Not(lex_before(D0, keys, xb, xa))))
        cx.prove("stable", z3.Implies(z3.And(rng, z3.Not(lex_before(D0, keys, xa, xb))), pi["f"](a) < pi["f"](b)))
        cx.prove("frame:items-unchanged", ctx.heap["D"] == D0)

    def witness(self, cx, result):
        """Compose the permutations of the successive sorted() calls (read off the result value)."""
        seq = result.base
        chain = []
        cur = seq
        while getattr(cur, "perm", None) is not None:
            chain.append(cur.perm)
            cur = getattr(cur, "src", None)
            if cur is None:
                break
        if not chain:
            raise M.Unsupported("result is not the output of sorted()")

        def f(j):
            for pm in chain:
                j = pm.perm(j)
            return j

        def g(i):
            for pm in reversed(chain):
                i = pm.inv(i)
            return i
        return {"f": f, "g": g}


@register
class SortAsc(_Sort):
    variant, dirs = "one key ascending", (1,)


@register
class SortDesc(_Sort):
    variant, dirs = "one key descending", (-1,)


@register
class SortAscAsc(_Sort):
    variant, dirs = "two keys asc,asc", (1, 1)


@register
class SortAscDesc(_Sort):
    variant, dirs = "two keys asc,desc", (1, -1)


@register
class SortDescAsc(_Sort):
    variant, dirs = "two keys desc,asc", (-1, 1)


@register
class SortDescDesc(_Sort):
    variant, dirs = "two keys desc,desc", (-1, -1)


class _Select(Contract):
    """select(*keys): every result item is a new AttributeDict holding exactly the named keys the
    source item has, with the same values; source items are not changed."""
    file, qualname, prop = F, "ListOfDicts.select", "C15"
    arity = 1

    def setup(self, cx):
        self_ = cx.lod("self")
        names = ["k1", "k2", "k3"][:self.arity]
        return {"self": self_, "args": list(names), "names": names}

    def ensures(self, cx, result):
        ctx = cx.ctx
        s = cx.inputs["self"].base
        D0, A0, D = cx.old["heap"]["D"], cx.old["heap"]["alloc"], ctx.heap["D"]
        items = result_items(cx, result)
        kvs = [M.to_v(cx.it, n) for n in cx.inputs["names"]]
        j = ctx.fresh("j", INT)
        x = ctx.fresh("x", V)
        r = ctx.fresh("r", V)
        named = z3.Or(*[x == k for k in kvs])
        cx.prove("len", zint(items.len) == zint(s.len))
        cx.prove("named-keys-kept", z3.Implies(z3.And(in_range(j, s.len), named), D[items.at(j)][x] == D0[s.at(j)][x]))
        cx.prove("other-keys-absent", z3.Implies(z3.And(in_range(j, s.len), z3.Not(named)), D[items.at(j)][x] == ABSENT))
        cx.prove("items-are-AttributeDicts", z3.Implies(in_range(j, s.len), M.is_adict(items.at(j))))
        cx.prove("frame:existing-dicts-unchanged", z3.Implies(A0[r], D[r] == D0[r]))


@register
class Select1(_Select):
    variant, arity = "one key", 1


@register
class Select2(_Select):
    variant, arity = "two keys", 2


def touched(s, k, r):
    p = z3.Int("p!t")
    return z3.Exists([p], z3.And(0 <= p, p < k, s.at(p) == r))


def frame_inv(names):
    """Only the named keys of the receiver's items change (loop invariant of the in-place editors)."""
    def inv(S):
        D, D0 = S.heap["D"], S.entry_heap["D"]
        r, x = z3.Consts("r!inv x!inv", V)
        kvs = [M.to_v(S.it, n) for n in names]
        named = z3.Or(*[x == k for k in kvs])
        return z3.ForAll([r, x], z3.And(z3.Implies(z3.Not(named), D[r][x] == D0[r][x]),
                                        z3.Implies(z3.Not(touched(S.coll, S.k, r)), D[r][x] == D0[r][x])))
    return inv


class _InPlace(Contract):
    file, prop = F, "C15"
    names = ("k1",)

    def common(self, cx, result):
        ctx = cx.ctx
        s = cx.inputs["self"].base
        D0, D = cx.old["heap"]["D"], ctx.heap["D"]
        items = result_items(cx, result)
        j = ctx.fresh("j", INT)
        x, r = ctx.fresh("x", V), ctx.fresh("r", V)
        kvs = [M.to_v(cx.it, n) for n in self.names]
        named = z3.Or(*[x == k for k in kvs])
        cx.prove("same-item-objects-in-order", z3.And(zint(items.len) == zint(s.len),
                                                      z3.Implies(in_range(j, s.len), items.at(j) == s.at(j))))
        cx.prove("frame:other-keys-unchanged", z3.Implies(z3.Not(named), D[r][x] == D0[r][x]))
        cx.prove("frame:other-dicts-unchanged", z3.Implies(z3.Not(touched(s, zint(s.len), r)), D[r] == D0[r]))
        return s, D0, D, j, kvs


def modify1_inv(S):
    p = z3.Int("p!m")
    k1 = M.to_v(S.it, "k1")
    return {"frame": frame_inv(("k1",))(S),
            "assigned": z3.ForAll([p], z3.Implies(z3.And(0 <= p, p < S.k), S.heap["D"][S.coll.at(p)][k1] != ABSENT))}


@register
class Modify1(_InPlace):
    qualname, variant = "ListOfDicts.modify", "one key"
    loops = {("ListOfDicts.modify", 0): LoopSpec(modify1_inv)}

    def setup(self, cx):
        f = cx.callback("f1")
        return {"self": cx.lod("self"), "kwargs": {"k1": f}}

    def ensures(self, cx, result):
        s, D0, D, j, kvs = self.common(cx, result)
        cx.prove("named-key-present", z3.Implies(in_range(j, s.len), D[s.at(j)][kvs[0]] != ABSENT))


@register
class Modify2(_InPlace):
    qualname, variant, names = "ListOfDicts.modify", "two keys", ("k1", "k2")
    loops = {("ListOfDicts.modify", 0): LoopSpec(frame_inv(("k1", "k2")))}

    def setup(self, cx):
        return {"self": cx.lod("self"), "kwargs": {"k1": cx.callback("f1"), "k2": cx.callback("f2")}}

    def ensures(self, cx, result):
        self.common(cx, result)


@register
class ModifyIf1(_InPlace):
    qualname, variant = "ListOfDicts.modify_if", "one key"
    loops = {("ListOfDicts.modify_if", 0): LoopSpec(frame_inv(("k1",)))}

    def setup(self, cx):
        return {"self": cx.lod("self"), "args": [cx.callback("pred")], "kwargs": {"k1": cx.callback("f1")}}

    def ensures(self, cx, result):
        self.common(cx, result)


def unselect_inv(S):
    D, D0 = S.heap["D"], S.entry_heap["D"]
    r, x = z3.Consts("r!inv x!inv", V)
    k1 = M.to_v(S.it, "k1")
    return z3.ForAll([r, x], D[r][x] == z3.If(z3.And(x == k1, touched(S.coll, S.k, r)), ABSENT, D0[r][x]))


@register
class Unselect1(_InPlace):
    qualname, variant = "ListOfDicts.unselect", "one key"
    loops = {("ListOfDicts.unselect", 0): LoopSpec(unselect_inv)}

    def setup(self, cx):
        return {"self": cx.lod("self"), "args": ["k1"]}

    def ensures(self, cx, result):
        s, D0, D, j, kvs = self.common(cx, result)
        cx.prove("named-key-removed", z3.Implies(in_range(j, s.len), D[s.at(j)][kvs[0]] == ABSENT))


def fill_inv(S):
    D, D0 = S.heap["D"], S.entry_heap["D"]
    r, x = z3.Consts("r!inv x!inv", V)
    k1 = M.to_v(S.it, "k1")
    v = S.it.contract_inputs["v"]
    return z3.ForAll([r, x], D[r][x] == z3.If(z3.And(x == k1, touched(S.coll, S.k, r), D0[r][k1] == ABSENT), v, D0[r][x]))


@register
class FillMissing1(_InPlace):
    qualname, variant = "ListOfDicts.fill_missing_keys", "one key=value"
    loops = {("ListOfDicts.fill_missing_keys", 0): LoopSpec(fill_inv)}

    def setup(self, cx):
        v = cx.val("v")
        cx.assume(v != ABSENT)
        cx.it.contract_inputs = {"v": v}
        return {"self": cx.lod("self"), "kwargs": {"k1": v}, "v": v}

    def ensures(self, cx, result):
        s, D0, D, j, kvs = self.common(cx, result)
        v = cx.inputs["v"]
        cx.prove("missing-filled-present-kept", z3.Implies(in_range(j, s.len), D[s.at(j)][kvs[0]] == z3.If(
            D0[s.at(j)][kvs[0]] == ABSENT, v, D0[s.at(j)][kvs[0]])))
