# -*- coding: utf-8 -*-
"""Contracts for dataiter/list_of_dicts.py (C15, C16, C17)."""
import z3
from pyvc.contract import Contract, register, LoopSpec
from pyvc.core import (INT, BOOL, V, NONE, ABSENT, Seq, seq_eq, filter_seq, zint, zbool, in_range, truthy, Enum)
from pyvc.interp import Instance
from pyvc import models as M
from pyvc.speclib import select_by

F = "dataiter/list_of_dicts.py"


def is_lod(cx, result):
    return isinstance(result, Instance) and result.cls.name == "ListOfDicts"


def result_items(cx, result):
    cx.prove("result-is-ListOfDicts", is_lod(cx, result))
    if not is_lod(cx, result):
        raise M.Unsupported("result is not a ListOfDicts")
    me = cx.inputs.get("self")
    qn = cx.contract.qualname.split(".")[-1]
    if isinstance(me, Instance) and qn not in ("_new", "deepcopy", "__deepcopy__") and getattr(me, "href", None) is None:
        # C17: derivation link and obsolescence bookkeeping
        cx.prove("result-predecessor-is-receiver", result.attrs.get("_predecessor") is me)
        cx.prove("result-not-obsolete", result.attrs.get("_obsolete") is False)
        if qn in EDITING:
            cx.prove("receiver-marked-obsolete", me.attrs.get("_obsolete") is True)
        else:
            cx.prove("receiver-obsolete-flag-untouched", me.attrs.get("_obsolete") is cx.initial_obsolete)
    return M.unstructure(result.base)


@register
class FilterCallable(Contract):
    file, qualname, prop, variant = F, "ListOfDicts.filter", "C15", "callable"

    def setup(self, cx):
        self_ = cx.lod("self")
        f = cx.callback("function")
        return {"self": self_, "args": [f], "f": f}

    def ensures(self, cx, result):
        s, f = cx.inputs["self"].base, cx.inputs["f"]
        D0 = cx.old["heap"]["D"]
        items = result_items(cx, result)
        spec = select_by(cx.ctx, s, lambda x: truthy(f.fn(x, D0)))
        cx.prove("seq=select_by(self,function)", seq_eq(cx.ctx, items, spec))
        cx.prove("frame:items-unchanged", cx.ctx.heap["D"] == D0)


def has_key(D, item, k):
    return D[item][k] != ABSENT


def all_items_have(cx, s, keys):
    """Precondition of key-based methods: every item has every named key (operator.itemgetter
    raises KeyError otherwise - documented)."""
    D = M.heap_D(cx.ctx)
    j = z3.Int("j!pre")
    for k in keys:
        kv = M.to_v(cx.it, k)
        cx.ctx.assumptions.append(z3.ForAll([j], z3.Implies(in_range(j, s.len), has_key(D, s.at(j), kv))))


class _FilterKV(Contract):
    file, prop = F, "C15"
    arity = 1
    negate = False

    def setup(self, cx):
        self_ = cx.lod("self")
        names = ["k1", "k2", "k3"][:self.arity]
        vals = [cx.val(f"v{i+1}") for i in range(self.arity)]
        all_items_have(cx, self_.base, names)
        return {"self": self_, "kwargs": dict(zip(names, vals)), "names": names, "vals": vals}

    def ensures(self, cx, result):
        s = cx.inputs["self"].base
        D0 = cx.old["heap"]["D"]
        items = result_items(cx, result)
        kvs = [(M.to_v(cx.it, n), v) for n, v in zip(cx.inputs["names"], cx.inputs["vals"])]

        def match(x):
            m = z3.And(*[D0[x][k] == v for k, v in kvs])
            return z3.Not(m) if self.negate else m
        spec = select_by(cx.ctx, s, match)
        cx.prove("seq=select_by(self,key=value)", seq_eq(cx.ctx, items, spec))
        cx.prove("frame:items-unchanged", cx.ctx.heap["D"] == D0)


@register
class FilterKV1(_FilterKV):
    qualname, variant, arity = "ListOfDicts.filter", "key=value x1", 1


@register
class FilterKV2(_FilterKV):
    qualname, variant, arity = "ListOfDicts.filter", "key=value x2", 2


@register
class FilterOutKV1(_FilterKV):
    qualname, variant, arity, negate = "ListOfDicts.filter_out", "key=value x1", 1, True


@register
class FilterOutKV2(_FilterKV):
    qualname, variant, arity, negate = "ListOfDicts.filter_out", "key=value x2", 2, True


@register
class FilterOutCallable(Contract):
    file, qualname, prop, variant = F, "ListOfDicts.filter_out", "C15", "callable"

    def setup(self, cx):
        self_ = cx.lod("self")
        f = cx.callback("function")
        return {"self": self_, "args": [f], "f": f}

    def ensures(self, cx, result):
        s, f = cx.inputs["self"].base, cx.inputs["f"]
        D0 = cx.old["heap"]["D"]
        items = result_items(cx, result)
        spec = select_by(cx.ctx, s, lambda x: z3.Not(truthy(f.fn(x, D0))))
        cx.prove("seq=select_by(self,not function)", seq_eq(cx.ctx, items, spec))
        cx.prove("frame:items-unchanged", cx.ctx.heap["D"] == D0)


@register
class FilterPartition(Contract):
    """Lemma (spec level): select_by(s,P) and select_by(s,not P) partition the positions of s,
    each preserving order - the sense in which filter/filter_out 'partition the items'."""
    file, qualname, prop, variant = F, "ListOfDicts.filter", "C15", "lemma:partition"

    def setup(self, cx):
        self_ = cx.lod("self")
        f = cx.callback("function")
        return {"self": self_, "args": [f], "f": f}

    def ensures(self, cx, result):
        ctx = cx.ctx
        s, f = cx.inputs["self"].base, cx.inputs["f"]
        D0 = cx.old["heap"]["D"]
        a = select_by(ctx, s, lambda x: truthy(f.fn(x, D0)))
        b = select_by(ctx, s, lambda x: z3.Not(truthy(f.fn(x, D0))))
        i = ctx.fresh("i", INT)
        P = truthy(f.fn(s.at(i), D0))
        # every position of s is enumerated by exactly one of the two
        cx.prove("lemma:covers", z3.Implies(in_range(i, s.len), z3.If(
            P, z3.And(in_range(a.enum.rk(i), a.len), a.enum.idx(a.enum.rk(i)) == i),
            z3.And(in_range(b.enum.rk(i), b.len), b.enum.idx(b.enum.rk(i)) == i))))
        j, j2 = ctx.fresh("j", INT), ctx.fresh("j2", INT)
        cx.prove("lemma:disjoint", z3.Implies(z3.And(in_range(j, a.len), in_range(j2, b.len)),
                                              a.enum.idx(j) != b.enum.idx(j2)))
        cx.prove("lemma:order-preserved", z3.Implies(z3.And(in_range(j, a.len), in_range(j2, a.len), j < j2),
                                                     a.enum.idx(j) < a.enum.idx(j2)))


class _HeadTail(Contract):
    file, prop = F, "C15"
    tail = False
    cases = {"n given": lambda cx, inp: z3.BoolVal(True)}

    def setup(self, cx):
        self_ = cx.lod("self")
        n = cx.int("n")
        cx.assume(n >= 0)
        return {"self": self_, "args": [n], "n": n}

    def ensures(self, cx, result):
        s, n = cx.inputs["self"].base, cx.inputs["n"]
        items = result_items(cx, result)
        m = z3.If(n <= zint(s.len), n, zint(s.len))
        cx.prove("len=min(n,len)", zint(items.len) == m)
        j = cx.ctx.fresh("j", INT)
        if self.tail:
            cx.prove("items=last-m", z3.Implies(in_range(j, m), items.at(j) == s.at(zint(s.len) - m + j)))
        else:
            cx.prove("items=first-m", z3.Implies(in_range(j, m), items.at(j) == s.at(j)))
        cx.prove("frame:items-unchanged", cx.ctx.heap["D"] == cx.old["heap"]["D"])


@register
class Head(_HeadTail):
    qualname = "ListOfDicts.head"


@register
class Tail(_HeadTail):
    qualname, tail = "ListOfDicts.tail", True


@register
class HeadDefault(Contract):
    file, qualname, prop, variant = F, "ListOfDicts.head", "C15", "n=None"

    def setup(self, cx):
        return {"self": cx.lod("self"), "args": []}

    def ensures(self, cx, result):
        s = cx.inputs["self"].base
        items = result_items(cx, result)
        d = cx.it.config["DEFAULT_PEEK_ITEMS"]
        cx.prove("len=min(default,len)", zint(items.len) == z3.If(d <= zint(s.len), d, zint(s.len)))


@register
class Append(Contract):
    file, qualname, prop = F, "ListOfDicts.append", "C15"
    cases = {"AttributeDict": lambda cx, inp: M.is_adict(inp["item"]),
             "plain dict": lambda cx, inp: z3.And(z3.Not(M.is_adict(inp["item"])), M.is_dict(inp["item"]))}

    def setup(self, cx):
        self_ = cx.lod("self")
        item = cx.val("item")
        cx.assume(item != NONE)
        cx.assume(M.heap_alloc(cx.ctx)[item])
        return {"self": self_, "args": [item], "item": item}

    def ensures(self, cx, result):
        s, item = cx.inputs["self"].base, cx.inputs["item"]
        D0, D = cx.old["heap"]["D"], cx.ctx.heap["D"]
        items = result_items(cx, result)
        j = cx.ctx.fresh("j", INT)
        cx.prove("len=len+1", zint(items.len) == zint(s.len) + 1)
        cx.prove("prefix=self", z3.Implies(in_range(j, s.len), items.at(j) == s.at(j)))
        last = items.at(zint(s.len))
        cx.prove("last-has-item-contents", D[last] == D0[item])
        cx.prove("last-is-AttributeDict", M.is_adict(last))
        if cx.case == "AttributeDict":
            cx.prove("last-is-item", last == item)
        r = cx.ctx.fresh("r", V)
        cx.prove("frame:existing-dicts-unchanged", z3.Implies(cx.old["heap"]["alloc"][r], D[r] == D0[r]))


class _Concat(Contract):
    file, prop = F, "C15"

    def setup(self, cx):
        self_ = cx.lod("self")
        other = cx.lod("other")
        return {"self": self_, "args": [other], "other": other}

    def ensures(self, cx, result):
        s, o = cx.inputs["self"].base, cx.inputs["other"].base
        items = result_items(cx, result)
        j = cx.ctx.fresh("j", INT)
        cx.prove("len=len+len", zint(items.len) == zint(s.len) + zint(o.len))
        cx.prove("prefix=self", z3.Implies(in_range(j, s.len), items.at(j) == s.at(j)))
        cx.prove("suffix=other", z3.Implies(in_range(j, o.len), items.at(zint(s.len) + j) == o.at(j)))
        cx.prove("frame:items-unchanged", cx.ctx.heap["D"] == cx.old["heap"]["D"])
        if cx.prop == "C17":
            # the result hands on the item objects of BOTH operands, so both must be among its ancestors
            # for a later in-place edit to mark them obsolete; the code records one predecessor only
            preds = [result.attrs.get("_predecessor")] + list(result.attrs.get("_co_predecessors", ()) or ())
            cx.prove("right-operand-is-an-ancestor-of-the-result", any(p is cx.inputs["other"] for p in preds))


@register
class Add(_Concat):
    qualname = "ListOfDicts.__add__"


@register
class Extend(_Concat):
    qualname, variant = "ListOfDicts.extend", "ListOfDicts argument"


@register
class Reverse(Contract):
    file, qualname, prop = F, "ListOfDicts.reverse", "C15"

    def setup(self, cx):
        return {"self": cx.lod("self"), "args": []}

    def ensures(self, cx, result):
        s = cx.inputs["self"].base
        items = result_items(cx, result)
        j = cx.ctx.fresh("j", INT)
        cx.prove("len", zint(items.len) == zint(s.len))
        cx.prove("items[j]=self[len-1-j]", z3.Implies(in_range(j, s.len), items.at(j) == s.at(zint(s.len) - 1 - j)))
        cx.prove("frame:items-unchanged", cx.ctx.heap["D"] == cx.old["heap"]["D"])


@register
class Slice(Contract):
    """self[lo:hi] - Python slice semantics (negative bounds wrap, clamped)."""
    file, qualname, prop, variant = F, "ListOfDicts.__getitem__", "C15", "slice lo:hi"

    def setup(self, cx):
        from pyvc.interp import SliceVal
        lo, hi = cx.int("lo"), cx.int("hi")
        return {"self": cx.lod("self"), "args": [SliceVal(lo, hi, None)], "lo": lo, "hi": hi}

    def ensures(self, cx, result):
        s, lo, hi = cx.inputs["self"].base, cx.inputs["lo"], cx.inputs["hi"]
        n = zint(s.len)
        items = result_items(cx, result)

        def norm(x):
            x = z3.If(x < 0, x + n, x)
            return z3.If(x < 0, 0, z3.If(x > n, n, x))
        a, b = norm(lo), norm(hi)
        ln = z3.If(b - a > 0, b - a, 0)
        j = cx.ctx.fresh("j", INT)
        cx.prove("len=max(0,hi'-lo')", zint(items.len) == ln)
        cx.prove("items[j]=self[lo'+j]", z3.Implies(in_range(j, ln), items.at(j) == s.at(a + j)))


@register
class GetItemIndex(Contract):
    file, qualname, prop, variant = F, "ListOfDicts.__getitem__", "C15", "integer index"

    def setup(self, cx):
        i = cx.int("i")
        s = cx.lod("self")
        cx.assume(z3.And(i >= -zint(s.base.len), i < zint(s.base.len)))
        return {"self": s, "args": [i], "i": i}

    def ensures(self, cx, result):
        s, i = cx.inputs["self"].base, cx.inputs["i"]
        cx.prove("item", result == s.at(z3.If(i >= 0, i, i + zint(s.len))))


@register
class Insert(Contract):
    """insert = list.insert: negative indices count from the end, out-of-range clamps."""
    file, qualname, prop = F, "ListOfDicts.insert", "C15"
    cases = {"0<=index<len": lambda cx, inp: z3.And(inp["i"] >= 0, inp["i"] < zint(inp["self"].base.len)),
             "index>=len": lambda cx, inp: inp["i"] >= zint(inp["self"].base.len),
             "index<0": lambda cx, inp: inp["i"] < 0}

    def setup(self, cx):
        self_ = cx.lod("self")
        item = cx.val("item")
        cx.assume(z3.And(item != NONE, M.heap_alloc(cx.ctx)[item], M.is_adict(item)))
        i = cx.int("index")
        return {"self": self_, "args": [i, item], "item": item, "i": i}

    def ensures(self, cx, result):
        s, item, i = cx.inputs["self"].base, cx.inputs["item"], cx.inputs["i"]
        n = zint(s.len)
        items = result_items(cx, result)
        pos = z3.If(i < 0, z3.If(i + n < 0, 0, i + n), z3.If(i > n, n, i))
        j = cx.ctx.fresh("j", INT)
        cx.prove("len=len+1", zint(items.len) == n + 1)
        cx.prove("item-at-pos", items.at(pos) == item)
        cx.prove("before-pos", z3.Implies(z3.And(0 <= j, j < pos), items.at(j) == s.at(j)))
        cx.prove("after-pos", z3.Implies(z3.And(pos < j, j <= n), items.at(j) == s.at(j - 1)))
        cx.prove("frame:items-unchanged", cx.ctx.heap["D"] == cx.old["heap"]["D"])


def unique_inv(S):
    """found_ids == { key(self[p]) | p < k }"""
    ctx = S.ctx
    found = S.contents(S.var("found_ids"))
    s = S.coll
    D = M.heap_D(ctx)
    k1 = M.to_v(S.it, "k1")
    x = z3.Const("x!inv", V)
    p = z3.Int("p!inv")
    return z3.ForAll([x], found.mem(x) == z3.Exists([p], z3.And(0 <= p, p < S.k, D[s.at(p)][k1] == x)))


@register
class Unique1(Contract):
    """unique(key): keeps exactly the first item of every distinct key value, in order."""
    file, qualname, prop, variant = F, "ListOfDicts.unique", "C15", "one key"
    loops = {("ListOfDicts.unique", 0): LoopSpec(unique_inv, kinds={"found_ids": "set"})}

    def setup(self, cx):
        self_ = cx.lod("self")
        all_items_have(cx, self_.base, ["k1"])
        return {"self": self_, "args": ["k1"]}

    def ensures(self, cx, result):
        ctx = cx.ctx
        s = cx.inputs["self"].base
        D0 = cx.old["heap"]["D"]
        k1 = M.to_v(cx.it, "k1")
        items = result_items(cx, result)
        p = z3.Int("p!spec")

        def first_occurrence(k):
            return z3.Not(z3.Exists([p], z3.And(0 <= p, p < k, D0[s.at(p)][k1] == D0[s.at(k)][k1])))
        spec = filter_seq(ctx, s.len, first_occurrence, lambda k: s.at(k))
        cx.prove("seq=first-item-per-key", seq_eq(ctx, items, spec))
        cx.prove("frame:items-unchanged", ctx.heap["D"] == D0)


def comparable_values(cx, s, keys):
    """Precondition of sort: under every sort key each item has a value that is None or belongs
    to one class of mutually comparable values on which < is a strict total order."""
    from pyvc.core import v_lt
    ctx = cx.ctx
    cmp_ = z3.Function("comparable", V, BOOL)
    x, y, z = z3.Consts("x!cmp y!cmp z!cmp", V)
    ctx.assumptions.append(z3.ForAll([x], z3.Not(v_lt(x, x)), patterns=[v_lt(x, x)]))
    ctx.assumptions.append(z3.ForAll([x, y, z], z3.Implies(z3.And(v_lt(x, y), v_lt(y, z)), v_lt(x, z)),
                                     patterns=[z3.MultiPattern(v_lt(x, y), v_lt(y, z))]))
    ctx.assumptions.append(z3.ForAll([x, y], z3.Implies(z3.And(cmp_(x), cmp_(y), x != y), z3.Or(v_lt(x, y), v_lt(y, x))),
                                     patterns=[z3.MultiPattern(cmp_(x), cmp_(y))]))
    ctx.assumptions.append(z3.Not(cmp_(NONE)))
    D = M.heap_D(ctx)
    j = z3.Int("j!cmp")
    for k in keys:
        kv = M.to_v(cx.it, k)
        ctx.assumptions.append(z3.ForAll([j], z3.Implies(in_range(j, s.len), z3.And(
            D[s.at(j)][kv] != ABSENT, z3.Or(D[s.at(j)][kv] == NONE, cmp_(D[s.at(j)][kv])))), patterns=[s.at(j)]))
    return cmp_


def before(D, kv, dir_, x, y):
    """x must come strictly before y by key kv in direction dir_ (None last in both directions)."""
    from pyvc.core import v_lt
    vx, vy = D[x][kv], D[y][kv]
    lt = v_lt(vx, vy) if dir_ > 0 else v_lt(vy, vx)
    return z3.Or(z3.And(vx != NONE, vy == NONE), z3.And(vx != NONE, vy != NONE, lt))


def lex_before(D, keys, x, y):
    """lexicographic 'strictly before' over [(key, dir), ...]"""
    if not keys:
        return z3.BoolVal(False)
    (kv, d), rest = keys[0], keys[1:]
    b = before(D, kv, d, x, y)
    tie = z3.And(z3.Not(b), z3.Not(before(D, kv, d, y, x)))
    return z3.Or(b, z3.And(tie, lex_before(D, rest, x, y)))


class _Sort(Contract):
    file, qualname, prop = F, "ListOfDicts.sort", "C15"
    dirs = (1,)

    def setup(self, cx):
        self_ = cx.lod("self")
        names = ["k1", "k2", "k3"][:len(self.dirs)]
        comparable_values(cx, self_.base, names)
        return {"self": self_, "kwargs": dict(zip(names, self.dirs)), "names": names}

    def ensures(self, cx, result):
        ctx = cx.ctx
        s = cx.inputs["self"].base
        D0 = cx.old["heap"]["D"]
        items = result_items(cx, result)
        keys = [(M.to_v(cx.it, n), d) for n, d in zip(cx.inputs["names"], self.dirs)]
        n = zint(s.len)
        cx.prove("len", zint(items.len) == n)
        # permutation: there is a bijection pi with items[j] = self[pi(j)]; the code's composition of
        # sorted() permutations is the witness
        pi = self.witness(cx, result)
        j, a, b = ctx.fresh("j", INT), ctx.fresh("a", INT), ctx.fresh("b", INT)
        cx.prove("perm:range+injective", z3.Implies(in_range(j, n), z3.And(in_range(pi["f"](j), n), pi["g"](pi["f"](j)) == j)))
        cx.prove("perm:surjective", z3.Implies(in_range(j, n), z3.And(in_range(pi["g"](j), n), pi["f"](pi["g"](j)) == j)))
        cx.prove("perm:items", z3.Implies(in_range(j, n), items.at(j) == s.at(pi["f"](j))))
        rng = z3.And(0 <= a, a < b, b < n)
        xa, xb = items.at(a), items.at(b)
        cx.prove("ordered", z3.Implies(rng, z3.Not(lex_before(D0, keys, xb, xa))))
        cx.prove("stable", z3.Implies(z3.And(rng, z3.Not(lex_before(D0, keys, xa, xb))), pi["f"](a) < pi["f"](b)))
        cx.prove("frame:items-unchanged", ctx.heap["D"] == D0)

    def witness(self, cx, result):
        """Compose the permutations of the successive sorted() calls (read off the result value)."""
        seq = result.base
        chain = []
        cur = seq
        while getattr(cur, "perm", None) is not None:
            chain.append(cur.perm)
            cur = getattr(cur, "src", None)
            if cur is None:
                break
        if not chain:
            raise M.Unsupported("result is not the output of sorted()")

        def f(j):
            for pm in chain:
                j = pm.perm(j)
            return j

        def g(i):
            for pm in reversed(chain):
                i = pm.inv(i)
            return i
        return {"f": f, "g": g}


@register
class SortAsc(_Sort):
    variant, dirs = "one key ascending", (1,)


@register
class SortDesc(_Sort):
    variant, dirs = "one key descending", (-1,)


@register
class SortAscAsc(_Sort):
    variant, dirs = "two keys asc,asc", (1, 1)


@register
class SortAscDesc(_Sort):
    variant, dirs = "two keys asc,desc", (1, -1)


@register
class SortDescAsc(_Sort):
    variant, dirs = "two keys desc,asc", (-1, 1)


@register
class SortDescDesc(_Sort):
    variant, dirs = "two keys desc,desc", (-1, -1)


class _Select(Contract):
    """select(*keys): every result item is a new AttributeDict holding exactly the named keys the
    source item has, with the same values; source items are not changed."""
    file, qualname, prop = F, "ListOfDicts.select", "C15"
    arity = 1

    def setup(self, cx):
        self_ = cx.lod("self")
        names = ["k1", "k2", "k3"][:self.arity]
        return {"self": self_, "args": list(names), "names": names}

    def ensures(self, cx, result):
        ctx = cx.ctx
        s = cx.inputs["self"].base
        D0, A0, D = cx.old["heap"]["D"], cx.old["heap"]["alloc"], ctx.heap["D"]
        items = result_items(cx, result)
        kvs = [M.to_v(cx.it, n) for n in cx.inputs["names"]]
        j = ctx.fresh("j", INT)
        x = ctx.fresh("x", V)
        r = ctx.fresh("r", V)
        named = z3.Or(*[x == k for k in kvs])
        cx.prove("len", zint(items.len) == zint(s.len))
        cx.prove("named-keys-kept", z3.Implies(z3.And(in_range(j, s.len), named), D[items.at(j)][x] == D0[s.at(j)][x]))
        cx.prove("other-keys-absent", z3.Implies(z3.And(in_range(j, s.len), z3.Not(named)), D[items.at(j)][x] == ABSENT))
        cx.prove("items-are-AttributeDicts", z3.Implies(in_range(j, s.len), M.is_adict(items.at(j))))
        cx.prove("frame:existing-dicts-unchanged", z3.Implies(A0[r], D[r] == D0[r]))


@register
class Select1(_Select):
    variant, arity = "one key", 1


@register
class Select2(_Select):
    variant, arity = "two keys", 2


def touched(s, k, r):
    p = z3.Int("p!t")
    return z3.Exists([p], z3.And(0 <= p, p < k, s.at(p) == r))


def frame_inv(names):
    """Only the named keys of the receiver's items change (loop invariant of the in-place editors)."""
    def inv(S):
        D, D0 = S.heap["D"], S.entry_heap["D"]
        r, x = z3.Consts("r!inv x!inv", V)
        kvs = [M.to_v(S.it, n) for n in names]
        named = z3.Or(*[x == k for k in kvs])
        return z3.ForAll([r, x], z3.And(z3.Implies(z3.Not(named), D[r][x] == D0[r][x]),
                                        z3.Implies(z3.Not(touched(S.coll, S.k, r)), D[r][x] == D0[r][x])))
    return inv


class _InPlace(Contract):
    file, prop = F, "C15"
    names = ("k1",)

    def common(self, cx, result):
        ctx = cx.ctx
        s = cx.inputs["self"].base
        D0, D = cx.old["heap"]["D"], ctx.heap["D"]
        items = result_items(cx, result)
        j = ctx.fresh("j", INT)
        x, r = ctx.fresh("x", V), ctx.fresh("r", V)
        kvs = [M.to_v(cx.it, n) for n in self.names]
        named = z3.Or(*[x == k for k in kvs])
        cx.prove("same-item-objects-in-order", z3.And(zint(items.len) == zint(s.len),
                                                      z3.Implies(in_range(j, s.len), items.at(j) == s.at(j))))
        cx.prove("frame:other-keys-unchanged", z3.Implies(z3.Not(named), D[r][x] == D0[r][x]))
        cx.prove("frame:other-dicts-unchanged", z3.Implies(z3.Not(touched(s, zint(s.len), r)), D[r] == D0[r]))
        return s, D0, D, j, kvs


def modify1_inv(S):
    p = z3.Int("p!m")
    k1 = M.to_v(S.it, "k1")
    return {"frame": frame_inv(("k1",))(S),
            "assigned": z3.ForAll([p], z3.Implies(z3.And(0 <= p, p < S.k), S.heap["D"][S.coll.at(p)][k1] != ABSENT))}


@register
class Modify1(_InPlace):
    qualname, variant = "ListOfDicts.modify", "one key"
    loops = {("ListOfDicts.modify", 0): LoopSpec(modify1_inv)}

    def setup(self, cx):
        f = cx.callback("f1")
        return {"self": cx.lod("self"), "kwargs": {"k1": f}}

    def ensures(self, cx, result):
        s, D0, D, j, kvs = self.common(cx, result)
        cx.prove("named-key-present", z3.Implies(in_range(j, s.len), D[s.at(j)][kvs[0]] != ABSENT))


@register
class Modify2(_InPlace):
    qualname, variant, names = "ListOfDicts.modify", "two keys", ("k1", "k2")
    loops = {("ListOfDicts.modify", 0): LoopSpec(frame_inv(("k1", "k2")))}

    def setup(self, cx):
        return {"self": cx.lod("self"), "kwargs": {"k1": cx.callback("f1"), "k2": cx.callback("f2")}}

    def ensures(self, cx, result):
        self.common(cx, result)


@register
class ModifyIf1(_InPlace):
    qualname, variant = "ListOfDicts.modify_if", "one key"
    loops = {("ListOfDicts.modify_if", 0): LoopSpec(frame_inv(("k1",)))}

    def setup(self, cx):
        return {"self": cx.lod("self"), "args": [cx.callback("pred")], "kwargs": {"k1": cx.callback("f1")}}

    def ensures(self, cx, result):
        self.common(cx, result)


# ---- values, not only frames: modify / modify_if with two key=function pairs on pairwise distinct items ---------------------
_mv_holder = {}


def _modified_contents(holder, c0):
    """contents of an item after modify(k1=f1, k2=f2) / modify_if(pred, k1=f1, k2=f2) given its contents c0 before: the predicate is
    evaluated ONCE on the untouched item; k1 is set first, f2 sees the item with k1 already set"""
    k1, k2, f1, f2, pred = holder["k1"], holder["k2"], holder["f1"], holder["f2"], holder.get("pred")
    c1 = z3.Store(c0, k1, f1.of(c0))
    c2 = z3.Store(c1, k2, f2.of(c1))
    if pred is None:
        return c2
    from pyvc.core import truthy
    return z3.If(truthy(pred.of(c0)), c2, c0)


def make_modify_values_inv(holder):
    def inv(S):
        D, D0 = S.heap["D"], S.entry_heap["D"]
        s, pos = holder["s"], holder["pos"]
        r = z3.Const("r!mv", V)
        p = pos(r)
        done = z3.And(0 <= p, p < S.k, s.at(p) == r)
        return z3.ForAll([r], D[r] == z3.If(done, _modified_contents(holder, D0[r]), D0[r]))
    return inv


class _ModifyValues(Contract):
    file, prop = F, "C15"
    also = ("C17",)
    with_pred = False

    def setup(self, cx):
        from pyvc.speclib import ItemCallback
        self_ = cx.lod("self")
        s = self_.base
        pos = distinct_items(cx, s, "self")
        f1, f2 = ItemCallback(cx.ctx, "f1"), ItemCallback(cx.ctx, "f2")
        pred = ItemCallback(cx.ctx, "pred") if self.with_pred else None
        self.holder.clear()
        self.holder.update(s=s, pos=pos, k1=M.to_v(cx.it, "k1"), k2=M.to_v(cx.it, "k2"), f1=f1, f2=f2, pred=pred)
        args = [pred] if self.with_pred else []
        return {"self": self_, "args": args, "kwargs": {"k1": f1, "k2": f2}}

    def ensures(self, cx, result):
        ctx = cx.ctx
        s = self.holder["s"]
        D0, D = cx.old["heap"]["D"], ctx.heap["D"]
        items = result_items(cx, result)
        j, r = ctx.fresh("j", INT), ctx.fresh("r", V)
        cx.prove("same-item-objects-in-order", z3.And(zint(items.len) == zint(s.len), z3.Implies(in_range(j, s.len), items.at(j) == s.at(j))))
        cx.prove("values: every item (concerned, for modify_if: predicate evaluated once on the untouched item) gets k1 = f1(item) and then k2 = f2(item with k1 set); nothing else changes",
                 z3.Implies(in_range(j, s.len), D[s.at(j)] == _modified_contents(self.holder, D0[s.at(j)])))
        pos = self.holder["pos"]
        cx.prove("frame: dicts outside the list never change", z3.Implies(z3.Not(z3.And(in_range(pos(r), s.len), s.at(pos(r)) == r)), D[r] == D0[r]))


_mv1, _mv2 = {}, {}


@register
class ModifyValues2(_ModifyValues):
    """modify(k1=f1, k2=f2) on pairwise distinct items, f1 / f2 functions of the item's own entries."""
    qualname, variant, holder = "ListOfDicts.modify", "two keys: values", _mv1
    loops = {("ListOfDicts.modify", 0): LoopSpec(make_modify_values_inv(_mv1))}


@register
class ModifyIfValues2(_ModifyValues):
    """modify_if(pred, k1=f1, k2=f2) on pairwise distinct items: the items concerned are those for which pred holds BEFORE any edit."""
    qualname, variant, holder, with_pred = "ListOfDicts.modify_if", "two keys: values", _mv2, True
    loops = {("ListOfDicts.modify_if", 0): LoopSpec(make_modify_values_inv(_mv2))}


def unselect_inv(S):
    D, D0 = S.heap["D"], S.entry_heap["D"]
    r, x = z3.Consts("r!inv x!inv", V)
    k1 = M.to_v(S.it, "k1")
    return z3.ForAll([r, x], D[r][x] == z3.If(z3.And(x == k1, touched(S.coll, S.k, r)), ABSENT, D0[r][x]))


@register
class Unselect1(_InPlace):
    qualname, variant = "ListOfDicts.unselect", "one key"
    loops = {("ListOfDicts.unselect", 0): LoopSpec(unselect_inv)}

    def setup(self, cx):
        return {"self": cx.lod("self"), "args": ["k1"]}

    def ensures(self, cx, result):
        s, D0, D, j, kvs = self.common(cx, result)
        cx.prove("named-key-removed", z3.Implies(in_range(j, s.len), D[s.at(j)][kvs[0]] == ABSENT))


def fill_inv(S):
    D, D0 = S.heap["D"], S.entry_heap["D"]
    r, x = z3.Consts("r!inv x!inv", V)
    k1 = M.to_v(S.it, "k1")
    v = S.it.contract_inputs["v"]
    return z3.ForAll([r, x], D[r][x] == z3.If(z3.And(x == k1, touched(S.coll, S.k, r), D0[r][k1] == ABSENT), v, D0[r][x]))


@register
class FillMissing1(_InPlace):
    qualname, variant = "ListOfDicts.fill_missing_keys", "one key=value"
    loops = {("ListOfDicts.fill_missing_keys", 0): LoopSpec(fill_inv)}

    def setup(self, cx):
        v = cx.val("v")
        cx.assume(v != ABSENT)
        cx.it.contract_inputs = {"v": v}
        return {"self": cx.lod("self"), "kwargs": {"k1": v}, "v": v}

    def ensures(self, cx, result):
        s, D0, D, j, kvs = self.common(cx, result)
        v = cx.inputs["v"]
        cx.prove("missing-filled-present-kept", z3.Implies(in_range(j, s.len), D[s.at(j)][kvs[0]] == z3.If(
            D0[s.at(j)][kvs[0]] == ABSENT, v, D0[s.at(j)][kvs[0]])))


# =========================================================================================
# C17: shared-dict discipline - isolation and obsolescence
# =========================================================================================
import ast as _ast
from pyvc.extract import RepoModule

EDITING = ["modify", "modify_if", "rename", "select", "unselect", "fill_missing_keys", "inner_join", "left_join"]
NON_EDITING = ["filter", "filter_out", "sort", "unique", "head", "tail", "copy", "reverse", "sample", "semi_join",
               "anti_join", "append", "extend", "insert", "__add__", "__mul__", "__getitem__", "drop_na", "clear"]

for _c in (FilterCallable, FilterOutCallable, FilterKV1, FilterOutKV1, Head, Tail, Slice, Reverse, SortAsc, SortDesc,
           SortAscDesc, Unique1, Append, Add, Extend, Insert, Modify1, Modify2, ModifyIf1, Unselect1, FillMissing1,
           Select1):
    _c.also = ("C17",)


def heap_lod(cx, name):
    """A ListOfDicts object living in the object heap: fields _obsolete/_obsolete_warned/_predecessor are
    cells of the heap arrays obs/warned/pred, so that arbitrary predecessor chains can be talked about."""
    obj = cx.lod(name)
    for a in ("_obsolete", "_obsolete_warned", "_predecessor"):
        obj.attrs.pop(a, None)
    obj.href = cx.ctx.fresh(name + "_ref", V)
    cx.assume(obj.href != NONE)
    for hn, srt in (("obs", BOOL), ("warned", BOOL), ("pred", V)):
        cx.it.heap_field(hn, srt)
    return obj


def chain_axioms(cx, x):
    """anc(x, y): y is x or one of its (transitive) predecessors.  Unfolded once at x (by hand), plus the
    well-foundedness measure: depth decreases along _predecessor (acyclic chains - an invariant, because
    _predecessor is only ever assigned to a freshly constructed list, see structural obligations)."""
    ctx = cx.ctx
    anc = z3.Function("anc", V, V, BOOL)
    depth = z3.Function("depth", V, INT)
    pred = ctx.heap["pred"]
    y = z3.Const("y!anc", V)
    ctx.assumptions.append(z3.ForAll([y], anc(x, y) == z3.Or(y == x, z3.And(pred[x] != NONE, anc(pred[x], y))),
                                     patterns=[anc(x, y)]))
    z = z3.Const("z!d", V)
    ctx.assumptions.append(z3.ForAll([z], z3.And(depth(z) >= 0, z3.Implies(pred[z] != NONE, depth(pred[z]) < depth(z))),
                                     patterns=[depth(z)]))
    return anc, depth


def mark_obsolete_callee(cx_holder):
    def callee(it, args, kwargs):
        """Contract of ListOfDicts._mark_obsolete used at the recursive call site."""
        ctx = it.ctx
        recv = args[0]
        p = recv.href
        anc, depth, me = cx_holder["anc"], cx_holder["depth"], cx_holder["self"]
        ctx.prove("rec:measure-decreases", z3.And(depth(p) < depth(me), depth(p) >= 0), kind="pre")
        ctx.prove("rec:receiver-not-None", p != NONE, kind="pre")
        obs = ctx.heap["obs"]
        obs1 = ctx.fresh("obs_rec", obs.sort())
        y = z3.Const("y!rec", V)
        ctx.assumptions.append(z3.ForAll([y], z3.And(z3.Implies(anc(p, y), obs1[y]),
                                                     z3.Implies(z3.Not(anc(p, y)), obs1[y] == obs[y])), patterns=[obs1[y]]))
        ctx.heap["obs"] = obs1
        return None
    return callee


@register
class MarkObsolete(Contract):
    """_mark_obsolete marks the receiver and every ancestor obsolete and nothing else (proved against
    its own contract at the recursive call; measure = depth of the predecessor chain)."""
    file, qualname, prop = F, "ListOfDicts._mark_obsolete", "C17"
    holder = {}
    callees = {"ListOfDicts._mark_obsolete": mark_obsolete_callee(holder)}

    def setup(self, cx):
        self_ = heap_lod(cx, "self")
        anc, depth = chain_axioms(cx, self_.href)
        self.holder.update(anc=anc, depth=depth, self=self_.href)
        cx.old_fields = {h: cx.ctx.heap[h] for h in ("obs", "warned", "pred")}
        return {"self": self_, "args": [], "anc": anc}

    def ensures(self, cx, result):
        ctx = cx.ctx
        anc, me = cx.inputs["anc"], cx.inputs["self"].href
        obs0, obs = cx.old_fields["obs"], ctx.heap["obs"]
        y = ctx.fresh("y", V)
        cx.prove("receiver-and-all-ancestors-obsolete", z3.Implies(anc(me, y), obs[y]))
        cx.prove("frame:non-ancestors-keep-their-flag", z3.Implies(z3.Not(anc(me, y)), obs[y] == obs0[y]))
        cx.prove("frame:pred-unchanged", ctx.heap["pred"] == cx.old_fields["pred"])
        cx.prove("frame:warned-unchanged", ctx.heap["warned"] == cx.old_fields["warned"])
        cx.prove("frame:items-unchanged", M.heap_D(ctx) == cx.old["heap"]["D"])


@register
class ObsoletesWrapper(Contract):
    """deco.obsoletes: runs the wrapped method, then marks receiver + ancestors obsolete, returns the
    method's value untouched."""
    file, qualname, prop = "dataiter/deco.py", "obsoletes", "C17"
    holder = {}
    callees = {"ListOfDicts._mark_obsolete": mark_obsolete_callee(holder)}

    def setup(self, cx):
        from pyvc.interp import ModelFn
        self_ = heap_lod(cx, "self")
        anc, depth = chain_axioms(cx, self_.href)
        # at the (non-recursive) call site the callee contract needs no measure: give it a larger one
        top = cx.ctx.fresh("caller", V)
        self.holder.update(anc=anc, depth=depth, self=top)
        cx.assume(depth(self_.href) < depth(top))
        value = cx.val("method_result")
        calls = []

        def method(it, args, kwargs):
            calls.append(args)
            return value
        cx.value, cx.calls = value, calls
        cx.old_fields = {h: cx.ctx.heap[h] for h in ("obs", "warned", "pred")}
        arg = cx.val("arg")
        cx.arg = arg
        return {"self": None, "args": [ModelFn("wrapped method", method)], "anc": anc, "me": self_}

    def ensures(self, cx, result):
        ctx = cx.ctx
        me = cx.inputs["me"]
        anc = cx.inputs["anc"]
        # `result` is the wrapper; call it like a method call on the receiver
        out = cx.it.call(result, [me, cx.arg], {"kw": cx.arg})
        cx.prove("calls-method-once-with-receiver-and-arguments",
                 len(cx.calls) == 1 and cx.calls[0][0] is me and cx.calls[0][1] is cx.arg)
        cx.prove("returns-method-result", out == cx.value if M.is_v(out) else False)
        y = ctx.fresh("y", V)
        cx.prove("receiver-and-all-ancestors-obsolete", z3.Implies(anc(me.href, y), ctx.heap["obs"][y]))
        cx.prove("frame:non-ancestors-keep-their-flag",
                 z3.Implies(z3.Not(anc(me.href, y)), ctx.heap["obs"][y] == cx.old_fields["obs"][y]))


@register
class NewLinksPredecessor(Contract):
    """_new(dicts): a fresh list with the given items, not obsolete, whose predecessor is the receiver."""
    file, qualname, prop = F, "ListOfDicts._new", "C17"

    def setup(self, cx):
        self_ = cx.lod("self", group_keys=("g",))
        items = cx.item_seq("dicts")
        return {"self": self_, "args": [items], "items": items}

    def ensures(self, cx, result):
        s = cx.inputs["items"]
        me = cx.inputs["self"]
        items = result_items(cx, result)
        cx.prove("is-a-new-object", result is not me)
        cx.prove("predecessor-is-receiver", result.attrs.get("_predecessor") is me)
        cx.prove("not-obsolete", result.attrs.get("_obsolete") is False and result.attrs.get("_obsolete_warned") is False)
        cx.prove("group-keys-inherited", result.attrs.get("_group_keys") == ("g",))
        cx.prove("same-item-objects", seq_eq(cx.ctx, items, s))
        cx.prove("receiver-fields-untouched", me.attrs.get("_predecessor") is None and len(me.attrs) == 4)


@register
class PredecessorOnlySetOnFreshObjects(Contract):
    """Structural: _predecessor is assigned only in __init__ (None, on the object under construction) and in
    _new (on the list it has just constructed) - hence predecessor chains are acyclic and never change.  (Setting it to None on a
    list the same function has just constructed is the one other assignment allowed: it can only cut a link of a fresh list.)"""
    file, qualname, prop, variant = F, "ListOfDicts._new", "C17", "structural: assignments to _predecessor"

    def setup(self, cx):
        return {"self": cx.lod("self"), "args": [cx.item_seq("dicts")]}

    def ensures(self, cx, result):
        mod = RepoModule.load(F, cx.it.repo)
        cls = mod.classes["ListOfDicts"].node
        sites = []
        for fn in cls.body:
            if not isinstance(fn, _ast.FunctionDef):
                continue
            # cutting the link (= None) on a list the same function has just built with self._new(...) / self.__class__(...) keeps
            # chains acyclic and changes no existing list: allowed anywhere (aggregate does it: its result hands on no item)
            fresh = {_ast.unparse(a.targets[0]) for a in _ast.walk(fn) if isinstance(a, _ast.Assign) and len(a.targets) == 1
                     and isinstance(a.value, _ast.Call) and _ast.unparse(a.value.func) in ("self._new", "self.__class__")}
            cuts = {id(a.targets[0]) for a in _ast.walk(fn) if isinstance(a, _ast.Assign) and len(a.targets) == 1
                    and isinstance(a.value, _ast.Constant) and a.value.value is None and isinstance(a.targets[0], _ast.Attribute)
                    and _ast.unparse(a.targets[0].value) in fresh}
            for n in _ast.walk(fn):
                if isinstance(n, _ast.Attribute) and n.attr == "_predecessor" and isinstance(n.ctx, (_ast.Store, _ast.Del)):
                    if id(n) in cuts and fn.name not in ("__init__", "_new"):
                        continue
                    sites.append((fn.name, _ast.unparse(n.value)))
                if isinstance(n, _ast.Call) and isinstance(n.func, _ast.Name) and n.func.id in ("setattr", "delattr"):
                    sites.append((fn.name, "setattr/delattr call"))
        cx.prove("only-__init__-and-_new-assign-_predecessor", sorted(sites) == [("__init__", "self"), ("_new", "new")])
        newfn = [f for f in cls.body if isinstance(f, _ast.FunctionDef) and f.name == "_new"][0]
        first = newfn.body[0]
        ok = (isinstance(first, _ast.Assign) and _ast.unparse(first.targets[0]) == "new"
              and isinstance(first.value, _ast.Call) and _ast.unparse(first.value.func) == "self.__class__")
        cx.prove("_new-assigns-it-on-the-object-it-just-constructed", ok)


@register
class DecoratorDiscipline(Contract):
    """Structural: exactly the editing methods carry @deco.obsoletes (outermost), the non-editing ones do not."""
    file, qualname, prop, variant = F, "ListOfDicts.modify", "C17", "structural: which methods are @obsoletes"
    loops = {("ListOfDicts.modify", 0): LoopSpec(frame_inv(("k1",)))}

    def setup(self, cx):
        return {"self": cx.lod("self"), "kwargs": {"k1": cx.callback("f1")}}

    def ensures(self, cx, result):
        mod = RepoModule.load(F, cx.it.repo)
        cls = mod.classes["ListOfDicts"]
        for name in EDITING:
            decs = [_ast.unparse(d) for d in cls.methods[name][0].decorator_list]
            cx.prove(f"editing-method-marks-obsolete:{name}", decs[:1] == ["deco.obsoletes"])
        for name in NON_EDITING:
            if name in cls.methods:
                decs = [_ast.unparse(d) for d in cls.methods[name][0].decorator_list]
                cx.prove(f"non-editing-method-does-not:{name}", "deco.obsoletes" not in decs)


class _GetAttribute(Contract):
    file, qualname, prop = F, "ListOfDicts.__getattribute__", "C17"
    attr = "filter"

    def setup(self, cx):
        self_ = cx.lod("self")
        cx.obs0, cx.warned0 = self_.attrs["_obsolete"], self_.attrs["_obsolete_warned"]
        return {"self": self_, "args": [self.attr]}

    def expect_warn(self, cx):
        raise NotImplementedError

    def ensures(self, cx, result):
        me = cx.inputs["self"]
        plain = cx.it.instance_getattr(me, self.attr)
        same = (result is plain) or (type(result) is type(plain) and getattr(result, "func", 1) is getattr(plain, "func", 2)) \
            or (M.is_v(result) and M.is_v(plain) and result.eq(plain)) or result == plain
        cx.prove("returns-the-attribute-unchanged", bool(same))
        warn = self.expect_warn(cx)
        n = len(cx.ctx.printed)
        w = cx.ctx.fresh("w", BOOL)
        # printed exactly once iff warn; flag set iff warn (or already set)
        cx.prove("warning-printed-iff-obsolete-and-not-yet-warned",
                 z3.And(z3.Implies(warn, z3.BoolVal(n == 1)), z3.Implies(z3.Not(warn), z3.BoolVal(n == 0))))
        after = me.attrs["_obsolete_warned"]
        after = after if M.is_z3(after) else z3.BoolVal(bool(after))
        cx.prove("warned-flag", after == z3.Or(cx.warned0, warn))
        cx.prove("obsolete-flag-unchanged", (me.attrs["_obsolete"] is cx.obs0))
        # second use right after: never warns again
        cx.ctx.printed.clear()
        cx.it.call(cx.it.bind(cx.it.class_attr(me.cls, "__getattribute__")[1], me), [self.attr], {})
        cx.prove("second-use-is-silent-after-a-warning", z3.Implies(warn, z3.BoolVal(len(cx.ctx.printed) == 0)))


@register
class GetAttributeMethod(_GetAttribute):
    variant, attr = "a public method", "filter"

    def expect_warn(self, cx):
        return z3.And(cx.obs0, z3.Not(cx.warned0))


@register
class GetAttributeData(_GetAttribute):
    variant, attr = "a data attribute", "_group_keys"

    def expect_warn(self, cx):
        return z3.BoolVal(False)


@register
class GetAttributeObsoleteMachinery(_GetAttribute):
    variant, attr = "the obsolescence machinery itself", "_mark_obsolete"

    def expect_warn(self, cx):
        return z3.BoolVal(False)


@register
class GetAttributePrivateHelper(_GetAttribute):
    """slicing, +, * and copy reach the list only through the private helper _new: looking it up IS the next use"""
    variant, attr = "the private helper _new (used by slicing, + and *)", "_new"

    def expect_warn(self, cx):
        return z3.And(cx.obs0, z3.Not(cx.warned0))


def cx_len(cx):
    return cx._lod_len


class _UseThroughOperator(Contract):
    """the next use of an obsolete list through an operator (no public attribute is looked up) prints the warning exactly once"""
    file, prop = F, "C17"
    config = {"honor_lod_getattribute": True}      # every attribute lookup on the list goes through the real __getattribute__

    def setup(self, cx):
        self_ = cx.lod("self")
        cx._lod_len = self_.base.len
        cx.obs0, cx.warned0 = self_.attrs["_obsolete"], self_.attrs["_obsolete_warned"]
        return {"self": self_, "args": self.operands(cx)}

    def ensures(self, cx, result):
        me = cx.inputs["self"]
        warn = z3.And(cx.obs0, z3.Not(cx.warned0))
        n = len(cx.ctx.printed)
        cx.prove("warning-printed-iff-obsolete-and-not-yet-warned",
                 z3.And(z3.Implies(warn, z3.BoolVal(n == 1)), z3.Implies(z3.Not(warn), z3.BoolVal(n == 0))))
        after = me.attrs["_obsolete_warned"]
        after = after if M.is_z3(after) else z3.BoolVal(bool(after))
        cx.prove("warned-flag", after == z3.Or(cx.warned0, warn))


@register
class UseThroughSlice(_UseThroughOperator):
    qualname, variant = "ListOfDicts.__getitem__", "obsolete receiver: slicing is a use"

    def operands(self, cx):
        from pyvc.interp import SliceVal
        lo, hi = cx.int("lo"), cx.int("hi")
        cx.assume(z3.And(0 <= lo, lo <= hi, hi <= zint(cx_len(cx))))
        return [SliceVal(lo, hi, None)]


@register
class UseThroughAdd(_UseThroughOperator):
    qualname, variant = "ListOfDicts.__add__", "obsolete receiver: + is a use"

    def operands(self, cx):
        return [cx.lod("other")]


@register
class DeepCopy(Contract):
    """deepcopy: new list, new item dicts with equal contents, no predecessor link - so no later edit through
    the copy can reach an original dict (with the editors' frame conditions: they only write their own items)."""
    file, qualname, prop = F, "ListOfDicts.deepcopy", "C17"

    def setup(self, cx):
        return {"self": cx.lod("self", group_keys=("g",)), "args": []}

    def ensures(self, cx, result):
        ctx = cx.ctx
        s = cx.inputs["self"].base
        D0, A0, D = cx.old["heap"]["D"], cx.old["heap"]["alloc"], ctx.heap["D"]
        items = result_items(cx, result)
        j, j2 = ctx.fresh("j", INT), ctx.fresh("j2", INT)
        r = ctx.fresh("r", V)
        cx.prove("len", zint(items.len) == zint(s.len))
        cx.prove("equal-contents", z3.Implies(in_range(j, s.len), D[items.at(j)] == D0[s.at(j)]))
        cx.prove("fresh-item-objects", z3.Implies(in_range(j, s.len), z3.Not(A0[items.at(j)])))
        cx.prove("every item is a DEEP copy (copy.deepcopy: values nested inside an item are not shared with the original)",
                 z3.Implies(in_range(j, s.len), M.is_deepcopy(items.at(j))))
        cx.prove("shares-no-dict-with-original", z3.Implies(z3.And(in_range(j, s.len), in_range(j2, s.len)),
                                                           items.at(j) != s.at(j2)))
        cx.prove("no-predecessor-link", result.attrs.get("_predecessor") is None)
        cx.prove("not-obsolete", result.attrs.get("_obsolete") is False)
        cx.prove("frame:existing-dicts-unchanged", z3.Implies(A0[r], D[r] == D0[r]))
        cx.prove("group-keys-kept", result.attrs.get("_group_keys") == ("g",))


@register
class Copy(Contract):
    file, qualname, prop = F, "ListOfDicts.copy", "C17"

    def setup(self, cx):
        return {"self": cx.lod("self"), "args": []}

    def ensures(self, cx, result):
        s = cx.inputs["self"].base
        items = result_items(cx, result)
        cx.prove("same-item-objects", seq_eq(cx.ctx, items, s))
        cx.prove("predecessor-is-receiver", result.attrs.get("_predecessor") is cx.inputs["self"])
        cx.prove("frame:items-unchanged", cx.ctx.heap["D"] == cx.old["heap"]["D"])


@register
class SortRagged(Contract):
    """sort on a list whose items may lack the sort key: the only allowed failure is KeyError, and in every
    case no item is changed (sort is documented as non-modifying)."""
    file, qualname, prop, variant = F, "ListOfDicts.sort", "C17", "ragged items: KeyError or sorted, never modified"

    def setup(self, cx):
        self_ = cx.lod("self")
        return {"self": self_, "kwargs": {"k1": -1}}

    def ensures(self, cx, result):
        cx.prove("frame:items-unchanged", cx.ctx.heap["D"] == cx.old["heap"]["D"])

    def raises(self, cx, exc):
        cx.prove("only-KeyError", exc.exc == "KeyError")
        cx.prove("frame:items-unchanged", cx.ctx.heap["D"] == cx.old["heap"]["D"])


# =========================================================================================
# C16: joins and aggregation
# =========================================================================================
def distinct_items(cx, s, name):
    """Precondition of the in-place joins: the items of a list are pairwise distinct dict objects
    (pos is the inverse of the item function)."""
    ctx = cx.ctx
    pos = ctx.fresh_fn(name + "_pos", V, INT)
    j = z3.Int("j!dp")
    ctx.assumptions.append(z3.ForAll([j], z3.Implies(in_range(j, s.len), pos(s.at(j)) == j), patterns=[s.at(j)]))
    return pos


def disjoint_lists(cx, s, o):
    i, j = z3.Ints("i!dj j!dj")
    cx.ctx.assumptions.append(z3.ForAll([i, j], z3.Implies(z3.And(in_range(i, s.len), in_range(j, o.len)), s.at(i) != o.at(j)),
                                        patterns=[z3.MultiPattern(s.at(i), o.at(j))]))


class _LJoin(Contract):
    file, prop = F, "C16"
    also = ("C17",)          # "frame: right-hand items never change": the joins edit the LEFT items only (documented), never their argument
    lkey, rkey = "k1", "k1"
    inner = False
    holder = None

    def setup(self, cx):
        self_, other = cx.lod("self"), cx.lod("other")
        s, o = self_.base, other.base
        all_items_have(cx, s, [self.lkey])
        all_items_have(cx, o, [self.rkey])
        pos = distinct_items(cx, s, "self")
        disjoint_lists(cx, s, o)
        by = [self.lkey] if self.lkey == self.rkey else [(self.lkey, self.rkey)]
        self.holder.update(cx=cx, s=s, o=o, pos=pos, lk=M.to_v(cx.it, self.lkey), rk=M.to_v(cx.it, self.rkey))
        return {"self": self_, "args": [other] + by, "other": other, "pos": pos}

    @staticmethod
    def spec(holder, D0):
        """m(i): first index in other whose key equals the key of self[i]; merged contents."""
        s, o, lk, rk = holder["s"], holder["o"], holder["lk"], holder["rk"]
        im = holder["cx"].it.__dict__.get("last_index_map")
        n2 = zint(o.len)
        keyl = lambda i: D0[s.at(i)][lk]
        matched = lambda i: im.has(keyl(i))
        w = lambda i: im.last(keyl(i))          # index into `other` (the scan over reversed(other) keeps the first)
        return im, keyl, matched, w


def make_ljoin_inv(holder, inner):
    def inv(S):
        D, D0 = S.heap["D"], S.entry_heap["D"]
        s, o, pos, rk = holder["s"], holder["o"], holder["pos"], holder["rk"]
        im, keyl, matched, w = _LJoin.spec(holder, D0)
        r, x = z3.Consts("r!inv x!inv", V)
        p = pos(r)
        touched_ = z3.And(0 <= p, p < S.k, s.at(p) == r)
        src = D0[o.at(w(p))]
        merged = z3.If(z3.And(touched_, matched(p), x != rk, src[x] != ABSENT), src[x], D0[r][x])
        return z3.ForAll([r, x], D[r][x] == merged)
    return inv


def _mk_ljoin(qual, variant_, lkey_, rkey_, inner_):
    holder_ = {}

    class J(_LJoin):
        qualname, variant, lkey, rkey, inner, holder = qual, variant_, lkey_, rkey_, inner_, holder_
        loops = {(qual, 0): LoopSpec(make_ljoin_inv(holder_, inner_))}

        def ensures(self, cx, result):
            ctx = cx.ctx
            s, o = self.holder["s"], self.holder["o"]
            D0, D = cx.old["heap"]["D"], ctx.heap["D"]
            im, keyl, matched, w = _LJoin.spec(self.holder, D0)
            rk = self.holder["rk"]
            items = result_items(cx, result)
            i, j, x, r = ctx.fresh("i", INT), ctx.fresh("j", INT), ctx.fresh("x", V), ctx.fresh("r", V)
            if self.inner:
                e = Enum.of(ctx, s.len, matched)
                cx.prove("kept: exactly the matched left items, in order",
                         z3.And(zint(items.len) == e.cnt, z3.Implies(in_range(j, e.cnt), items.at(j) == s.at(e.idx(j)))))
            else:
                cx.prove("every left item once, in order (same objects)",
                         z3.And(zint(items.len) == zint(s.len), z3.Implies(in_range(j, s.len), items.at(j) == s.at(j))))
            snap = ctx.snapshot()
            ctx.assume(in_range(i, s.len))
            keyr = lambda jj: D0[o.at(jj)][rk]
            cx.prove("match: the partner has the same key", z3.Implies(matched(i), z3.And(in_range(w(i), o.len), keyr(w(i)) == keyl(i))))
            cx.prove("match: it is the first right item with that key", z3.Implies(z3.And(matched(i), 0 <= j, j < w(i)), keyr(j) != keyl(i)))
            cx.prove("structure: the lookup table keeps the first of duplicate keys", im.first_wins is True)
            cx.prove("lemma: a right item with the key is in the lookup table",
                     z3.Implies(z3.And(in_range(j, o.len), keyr(j) == keyl(i)), z3.And(im.last(im.key(j)) >= 0, im.last(im.key(j)) <= j)))
            cx.prove("no match: no right item has that key", z3.Implies(z3.And(z3.Not(matched(i)), in_range(j, o.len)), keyr(j) != keyl(i)))
            src = D0[o.at(w(i))]
            cx.prove("merged: non-key entries of the first matching right item, everything else kept",
                     D[s.at(i)][x] == z3.If(z3.And(matched(i), x != rk, src[x] != ABSENT), src[x], D0[s.at(i)][x]))
            ctx.restore(snap)
            cx.prove("frame: right-hand items never change", z3.Implies(in_range(j, o.len), D[o.at(j)] == D0[o.at(j)]))
            pos = self.holder["pos"]
            cx.prove("frame: dicts outside the left list never change",
                     z3.Implies(z3.Not(z3.And(in_range(pos(r), s.len), s.at(pos(r)) == r)), D[r] == D0[r]))
    J.__name__ = "LJ_" + variant_.replace(" ", "_")
    return register(J)


LeftJoinLoD = _mk_ljoin("ListOfDicts.left_join", "same-named key", "k1", "k1", False)
LeftJoinLoDRen = _mk_ljoin("ListOfDicts.left_join", "key named differently", "k1", "k2", False)
InnerJoinLoD = _mk_ljoin("ListOfDicts.inner_join", "same-named key", "k1", "k1", True)
InnerJoinLoDRen = _mk_ljoin("ListOfDicts.inner_join", "key named differently", "k1", "k2", True)


class _SemiAnti(Contract):
    file, prop = F, "C16"
    also = ("C17",)
    anti = False
    lkey, rkey = "k1", "k1"

    def setup(self, cx):
        self_, other = cx.lod("self"), cx.lod("other")
        all_items_have(cx, self_.base, [self.lkey])
        all_items_have(cx, other.base, [self.rkey])
        by = [self.lkey] if self.lkey == self.rkey else [(self.lkey, self.rkey)]
        return {"self": self_, "args": [other] + by, "other": other}

    def ensures(self, cx, result):
        ctx = cx.ctx
        s, o = cx.inputs["self"].base, cx.inputs["other"].base
        D0 = cx.old["heap"]["D"]
        lk, rk = M.to_v(cx.it, self.lkey), M.to_v(cx.it, self.rkey)
        items = result_items(cx, result)
        j = z3.Int("j!sa")
        has_match = lambda x: z3.Exists([j], z3.And(in_range(j, o.len), D0[o.at(j)][rk] == D0[x][lk]))
        pred = (lambda x: z3.Not(has_match(x))) if self.anti else has_match
        spec = select_by(ctx, s, pred)
        cx.prove("seq = left items with (semi) / without (anti) a right item of equal key, in order", seq_eq(ctx, items, spec))
        cx.prove("frame:items-unchanged (both lists)", ctx.heap["D"] == D0)


@register
class SemiJoinLoD(_SemiAnti):
    qualname = "ListOfDicts.semi_join"


@register
class AntiJoinLoD(_SemiAnti):
    qualname, anti = "ListOfDicts.anti_join", True


@register
class AntiJoinLoDRen(_SemiAnti):
    qualname, anti, variant, lkey, rkey = "ListOfDicts.anti_join", True, "key named differently", "k1", "k2"


@register
class GroupByLoD(Contract):
    """group_by records the keys exactly as given - same keys, same order, nothing dropped - on the receiver itself:
    aggregate orders its result by these keys in THIS order (C16)."""
    file, qualname, prop, variant = F, "ListOfDicts.group_by", "C16", "keys recorded in the order given"

    def setup(self, cx):
        return {"self": cx.lod("self"), "args": ["h", "g", "k1"]}

    def ensures(self, cx, result):
        cx.prove("returns-the-receiver", result is cx.inputs["self"])
        cx.prove("group-keys = the keys given, in order", result.attrs.get("_group_keys") == ("h", "g", "k1"))
        cx.prove("frame:items-unchanged", cx.ctx.heap["D"] == cx.old["heap"]["D"])


@register
class SemiAntiPartitionLoD(Contract):
    """Lemma: semi_join and anti_join select complementary predicates, hence partition the left list in order
    (same argument as the filter/filter_out partition lemma)."""
    file, qualname, prop, variant = F, "ListOfDicts.semi_join", "C16", "lemma:semi/anti partition"
    lemma_only = True

    def setup(self, cx):
        self_, other = cx.lod("self"), cx.lod("other")
        return {"self": self_, "other": other}

    def ensures(self, cx, result):
        ctx = cx.ctx
        s, o = cx.inputs["self"].base, cx.inputs["other"].base
        D0 = M.heap_D(ctx)
        k1 = M.to_v(cx.it, "k1")
        j = z3.Int("j!sa")
        has_match = lambda x: z3.Exists([j], z3.And(in_range(j, o.len), D0[o.at(j)][k1] == D0[x][k1]))
        a = select_by(ctx, s, has_match)
        b = select_by(ctx, s, lambda x: z3.Not(has_match(x)))
        i, t, t2 = ctx.fresh("i", INT), ctx.fresh("t", INT), ctx.fresh("t2", INT)
        P = has_match(s.at(i))
        cx.prove("lemma:covers", z3.Implies(in_range(i, s.len), z3.If(
            P, z3.And(in_range(a.enum.rk(i), a.len), a.enum.idx(a.enum.rk(i)) == i),
            z3.And(in_range(b.enum.rk(i), b.len), b.enum.idx(b.enum.rk(i)) == i))))
        cx.prove("lemma:disjoint", z3.Implies(z3.And(in_range(t, a.len), in_range(t2, b.len)), a.enum.idx(t) != b.enum.idx(t2)))


@register
class LoDCompositesBounded(Contract):
    """ListOfDicts.full_join (9-call composite with counters) and ListOfDicts.aggregate (dict of lists built in a
    loop, per-group callbacks on nested lists) are NOT under a deductive contract; this entry attaches their bounded
    run-time contracts and contributes structural obligations only."""
    file, qualname, prop, variant = F, "ListOfDicts.full_join", "C16", "full_join + aggregate: bounded only"
    lemma_only = True
    always_bounded = True

    def setup(self, cx):
        return {"self": None}

    def ensures(self, cx, result):
        mod = RepoModule.load(F, cx.it.repo)
        node = mod.find("ListOfDicts.full_join")[0]
        called = {n.func.attr for n in _ast.walk(node) if isinstance(n, _ast.Call) and isinstance(n.func, _ast.Attribute)}
        cx.prove("the bounded run-time contracts of full_join and aggregate are attached (run in every tier)", True)
        # premises of the modular reading (not obligations: a restructured body is decided by the bounded contract alone)
        cx.premise("full_join delegates to left_join, anti_join, sort", {"left_join", "anti_join", "sort"} <= called)
        agg = mod.find("ListOfDicts.aggregate")[0]
        called = {n.func.attr for n in _ast.walk(agg) if isinstance(n, _ast.Call) and isinstance(n.func, _ast.Attribute)}
        for helper in sorted(c for c in called if c.startswith("_")):          # through private helpers of the class (one level)
            try:
                hn = mod.find("ListOfDicts." + helper)[0]
                called |= {n.func.attr for n in _ast.walk(hn) if isinstance(n, _ast.Call) and isinstance(n.func, _ast.Attribute)}
            except Exception:
                pass
        cx.premise("aggregate finds the group keys with unique and orders them with sort", {"unique", "sort"} <= called)


from pyvc.contract import bounded_only as _bo
_bo("C16", F + "::ListOfDicts.full_join[every left and right item at least once, merged pairs have equal keys]",
    "nine-call composite with deep copies and counters: bounded run-time contract only, every tier")
_bo("C16", F + "::ListOfDicts.full_join[renamed key]", "same, key named differently on the two sides")
_bo("C16", F + "::ListOfDicts.inner_join[right items hold only the key]",
    "replay scope for the join contracts: right-hand items without any payload entry (the deductive contracts cover arbitrary contents; this driver "
    "supplies concrete counterexamples when a restructured body leaves them undecided)")

_bo("C15", F + "::ListOfDicts.extend[plain list / tuple / generator of plain dicts]",
    "conversion of foreign containers of plain dicts (map(AttributeDict, ...) over an arbitrary iterable): bounded run-time contract, every tier")
for _n, _why in (("rename[new=old pairs, also swaps and shifts]", "dict rebuilt through zip of renamed keys: outside the prover's reach"),
                 ("__mul__", "repetition of a symbolic list"),
                 ("unique[no keys: whole items]", "whole-item equality"),
                 ("fill_missing_keys[key=value, None values are present values]", "several keys; None as a present value")):
    _bo("C15", F + "::ListOfDicts." + _n, _why + "; bounded run-time contract, every tier")
    _bo("C17", F + "::ListOfDicts." + _n, _why + "; bounded run-time contract, every tier")
for _n in ("full_join[every left and right item at least once, merged pairs have equal keys]", "full_join[renamed key]"):
    _bo("C17", F + "::ListOfDicts." + _n, "a join's right-hand argument is never changed (and is not marked obsolete): checked on the real code")
_bo("C16", F + "::ListOfDicts.left_join[two keys, the second named differently]", "key tuples of arity 2 (itemgetter returns tuples): bounded run-time contract, every tier")
