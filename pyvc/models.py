# -*- coding: utf-8 -*-
"""Assumed contracts for Python builtins and the standard library (the trusted base),
and the generic operations of the interpreter (truthiness, equality, indexing, ...).

Every ModelFn used in a run is recorded in Ctx.used_models and listed in the evidence
under trusted_base."""
import ast
import z3

from .core import (INT, BOOL, V, VARR, NONE, ABSENT, TRUEV, FALSEV, Unsupported, PathAbort, PyRaise,
                   Seq, MList, Enum, filter_seq, is_z3, is_v, is_sym_int, is_sym_bool, is_intlike,
                   is_boollike, zint, zbool, conc, simp, add, sub, in_range, vint, intof, truthy, v_lt,
                   is_adict, is_dict, is_str, is_intv, is_callable)
from .interp import (Closure, BoundMethod, ModelFn, ModuleNS, TypeObj, ClassObj, Instance, PropertyObj,
                     ClassMethodObj, StaticMethodObj, GenValue, OutSeq, SMap, SSet, MSet, StarSeq,
                     SliceVal, PyList, SuperProxy, FString, FmtPart, Env)
from .loops import merge, merge_paths, subst

merge_many = merge_paths


def zbool_(x):
    return z3.BoolVal(x) if isinstance(x, bool) else x


# ---------------------------------------------------------------------------------------
# embedding into V
# ---------------------------------------------------------------------------------------
CURRENT = {"ctx": None}


def astype_kind_of(it, t):
    from .models_np import astype_kind
    return astype_kind(it, t)


def to_v(it, x):
    ctx = it.ctx if it is not None and hasattr(it, "ctx") else it
    if ctx is None:
        ctx = CURRENT["ctx"]
    if is_z3(x):
        if x.sort() == V:
            return x
        if x.sort() == INT:
            return vint(x)
        if x.sort() == BOOL:
            return z3.If(x, TRUEV, FALSEV)
    if x is None:
        return NONE
    if isinstance(x, bool):
        return TRUEV if x else FALSEV
    if isinstance(x, int):
        return vint(z3.IntVal(x))
    if isinstance(x, str):
        if ctx is None:
            raise Unsupported("string literal without context")
        return ctx.lit(x)
    if isinstance(x, tuple):
        return mk_tuple(ctx, [to_v(it, e) for e in x])
    if type(x).__name__ == "NPScalar":
        return x.term
    if isinstance(x, Instance) and getattr(x, "href", None) is not None:
        return x.href
    if isinstance(x, TypeObj):
        return type_tag(ctx, x.name)
    raise Unsupported(f"cannot embed {x!r} into V")


class_of = z3.Function("class_of", V, V)          # x.__class__ of an arbitrary value (uninterpreted)
module_of = z3.Function("module_of", V, V)        # t.__module__ of a class (uninterpreted)
_type_tag = z3.Function("type_tag", INT, V)
_type_tag_id = z3.Function("type_tag_id", V, INT)
_TAG_IDS = {}


def type_tag(ctx, name):
    """V value of a builtin / library class: distinct names are distinct classes; a class is not None."""
    if "_type_tag_ax" not in ctx.__dict__:
        ctx.__dict__["_type_tag_ax"] = True
        n = z3.Int("n!tt")
        ctx.axioms.append(z3.ForAll([n], z3.And(_type_tag_id(_type_tag(n)) == n, _type_tag(n) != NONE, _type_tag(n) != ABSENT),
                                    patterns=[_type_tag(n)]))
    if name not in _TAG_IDS:
        import hashlib
        _TAG_IDS[name] = int(hashlib.sha1(name.encode()).hexdigest()[:12], 16)
    return _type_tag(z3.IntVal(_TAG_IDS[name]))


_tuple_fns = {}


def mk_tuple(ctx, elems):
    """V value of a Python tuple: free constructor (equal iff component-wise equal)."""
    n = len(elems)
    if n not in _tuple_fns:
        f = z3.Function(f"tuple{n}", *([V] * n), V)
        projs = [z3.Function(f"tuple{n}_{i}", V, V) for i in range(n)]
        _tuple_fns[n] = (f, projs)
    f, projs = _tuple_fns[n]
    if n == 0:
        return z3.Const("tuple0", V)
    done = ctx.__dict__.setdefault("_tuple_axioms", set())
    if n not in done:
        done.add(n)
        xs = [z3.Const(f"x{i}!tp", V) for i in range(n)]
        t = f(*xs)
        ctx.axioms.append(z3.ForAll(xs, z3.And(*[p(t) == xs[i] for i, p in enumerate(projs)], t != NONE, t != ABSENT),
                                    patterns=[t]))
    return f(*elems)


# ---------------------------------------------------------------------------------------
# heap of dict objects
# ---------------------------------------------------------------------------------------
def heap_D(ctx):
    if "D" not in ctx.heap:
        ctx.heap["D"] = z3.Const("D0", z3.ArraySort(V, VARR))
    return ctx.heap["D"]


def heap_alloc(ctx):
    if "alloc" not in ctx.heap:
        ctx.heap["alloc"] = z3.Const("alloc0", z3.ArraySort(V, BOOL))
    return ctx.heap["alloc"]


def new_ref(ctx, base="ref"):
    al = heap_alloc(ctx)
    r = ctx.fresh(base, V)
    ctx.assumptions.append(z3.Not(al[r]))
    ctx.assumptions.append(r != NONE)
    ctx.assumptions.append(r != ABSENT)
    ctx.heap["alloc"] = z3.Store(al, r, True)
    nr = ctx.store.get(("newrefs",), {"refs": ()})
    ctx.store[("newrefs",)] = {"refs": nr["refs"] + (r,)}
    return r


def dict_contents(it, d):
    """VARR term with the contents of a dict-like value."""
    ctx = it.ctx
    if isinstance(d, SMap):
        return d.arr
    if is_v(d):
        return heap_D(ctx)[d]
    if isinstance(d, dict):
        arr = z3.K(V, ABSENT)
        for k, v in d.items():
            arr = z3.Store(arr, to_v(it, k), to_v(it, v))
        return arr
    raise Unsupported(f"not a dict: {d!r}")


def new_adict(it, contents):
    ctx = it.ctx
    r = new_ref(ctx, "adict")
    ctx.assumptions.append(is_adict(r))
    ctx.assumptions.append(is_dict(r))
    ctx.heap["D"] = z3.Store(heap_D(ctx), r, contents)
    return r


# ---------------------------------------------------------------------------------------
# generic operations
# ---------------------------------------------------------------------------------------
def truth(it, x):
    if isinstance(x, bool) or x is None or isinstance(x, (int, str, tuple, dict, float)):
        return bool(x)
    if is_sym_bool(x):
        return x
    if is_sym_int(x):
        return x != 0
    if is_v(x):
        return truthy(x)
    if isinstance(x, MList):
        return truth_len(x.seq.len)
    if isinstance(x, Seq):
        return truth_len(x.len)
    if isinstance(x, Instance) and getattr(x, "maybe_none", False):
        # a reference read from a heap field: None is falsy; a list/dict-like object is falsy when empty
        n = x.__dict__.setdefault("_ghost_len", it.ctx.fresh("len_of_ref", INT))
        it.ctx.assume(n >= 0)
        return z3.And(x.href != NONE, n != 0)
    if isinstance(x, Instance):
        ok, ln = it.class_attr(x.cls, "__len__")
        if ok:
            return truth_len(it.call(ln, [x], {}))
        b = x.base
        if isinstance(b, Seq):
            return truth_len(b.len)
        if hasattr(b, "length"):
            return truth_len(b.length())
        return True
    if isinstance(x, SymKw):
        return truth_len(x.keys.len)
    if isinstance(x, (Closure, BoundMethod, ModelFn, ClassObj, TypeObj)):
        return True
    if type(x).__name__ == "DType":
        return True                 # a NumPy dtype object is truthy
    if isinstance(x, MSet):
        e = z3.Const("e!truth", V)
        return z3.Exists([e], x.set.mem(e))
    raise Unsupported(f"truth of {x!r}")


def truth_len(n):
    n = conc(n)
    if isinstance(n, int):
        return n != 0
    return zint(n) != 0


def and_(it, a, b):
    if isinstance(a, bool):
        return b if a else False
    if isinstance(b, bool):
        return a if b else False
    return z3.And(a, b)


def not_(it, a):
    a = truth(it, a)
    if isinstance(a, bool):
        return not a
    return z3.Not(a)


def hashable(it, x):
    if is_z3(x):
        c = conc(x)
        if not is_z3(c):
            return c
        raise Unsupported("symbolic key in dict display")
    return x


def py_eq(it, a, b):
    """Python == (assumed: structural equality on V; see DESIGN 2.2 for NaN)."""
    if a is b and not is_z3(a):
        return True
    if isinstance(a, tuple) and isinstance(b, tuple):
        if len(a) != len(b):
            return False
        r = True
        for x, y in zip(a, b):
            r = and_(it, r, py_eq(it, x, y))
        return r
    if is_intlike(a) and is_intlike(b):
        return conc(zint(a) == zint(b))
    if is_boollike(a) and is_boollike(b):
        return conc(zbool(a) == zbool(b))
    if not is_z3(a) and not is_z3(b) and isinstance(a, (int, str, bool, type(None), float)) \
            and isinstance(b, (int, str, bool, type(None), float)):
        return a == b
    if is_v(a) or is_v(b):
        try:
            return conc(to_v(it, a) == to_v(it, b))
        except Unsupported:
            pass
    if isinstance(a, Instance) and isinstance(b, Instance):
        ok, eqm = it.class_attr(a.cls, "__eq__")
        if ok:
            return truth(it, it.call(eqm, [a, b], {}))
        return a is b
    if isinstance(a, (MList, Seq)) and isinstance(b, (MList, Seq)):
        raise Unsupported("list equality")
    if type(a) is not type(b) and not is_z3(a) and not is_z3(b):
        return False
    raise Unsupported(f"equality of {a!r} and {b!r}")


def compare(it, op, a, b):
    if isinstance(op, (ast.Eq, ast.NotEq, ast.Lt, ast.LtE, ast.Gt, ast.GtE)):
        if hasattr(a, "pyvc_compare"):
            return a.pyvc_compare(it, op, b, False)
        if hasattr(b, "pyvc_compare"):
            return b.pyvc_compare(it, op, a, True)
    if isinstance(op, ast.Eq):
        return py_eq(it, a, b)
    if isinstance(op, ast.NotEq):
        return not_(it, py_eq(it, a, b))
    if isinstance(op, (ast.Is, ast.IsNot)):
        r = py_is(it, a, b)
        return r if isinstance(op, ast.Is) else not_(it, r)
    if isinstance(op, (ast.In, ast.NotIn)):
        r = contains(it, b, a)
        return r if isinstance(op, ast.In) else not_(it, r)
    if is_intlike(a) and is_intlike(b) or (is_boollike(a) and is_intlike(b)) or (is_intlike(a) and is_boollike(b)):
        x, y = zint(a), zint(b)
        r = {ast.Lt: x < y, ast.LtE: x <= y, ast.Gt: x > y, ast.GtE: x >= y}[type(op)]
        return conc(r)
    if is_v(a) or is_v(b):
        x, y = to_v(it, a), to_v(it, b)
        if isinstance(op, ast.Lt):
            return v_lt(x, y)
        if isinstance(op, ast.Gt):
            return v_lt(y, x)
        if isinstance(op, ast.LtE):
            return z3.Or(v_lt(x, y), x == y)
        if isinstance(op, ast.GtE):
            return z3.Or(v_lt(y, x), x == y)
    if hasattr(a, "pyvc_compare"):
        return a.pyvc_compare(it, op, b, False)
    if hasattr(b, "pyvc_compare"):
        return b.pyvc_compare(it, op, a, True)
    raise Unsupported(f"comparison {type(op).__name__} of {a!r}, {b!r}")


def py_is(it, a, b):
    if a is None or b is None:
        other = b if a is None else a
        if other is None:
            return True
        if is_v(other):
            return other == NONE
        return False
    if is_v(a) and is_v(b):
        return a == b          # identity of heap references / interned singletons
    if is_v(a) or is_v(b):
        o = b if is_v(a) else a
        if isinstance(o, (bool,)):
            return to_v(it, a if is_v(a) else b) == to_v(it, o)
        return False
    if is_z3(a) or is_z3(b):
        o = b if is_z3(a) else a
        if isinstance(o, (Sentinel, Closure, BoundMethod, ModelFn, ClassObj, TypeObj, Instance, MList, MSet)) or \
                type(o).__name__ in ("NDArr", "DType"):
            return False        # an int/bool scalar is never one of these objects
        raise Unsupported("identity of symbolic scalars")
    return a is b


def contains(it, coll, x):
    ctx = it.ctx
    if isinstance(coll, str) and isinstance(x, str):
        return x in coll
    if isinstance(coll, (tuple, list)):
        r = False
        for e in coll:
            r = or_(it, r, py_eq(it, e, x))
        return r
    if isinstance(coll, dict):
        if not is_z3(x):
            return x in coll
        r = False
        for e in coll:
            r = or_(it, r, py_eq(it, e, x))
        return r
    if isinstance(coll, MList):
        return contains(it, coll.seq, x)
    if isinstance(coll, PyList):
        return contains(it, coll.items, x)
    if isinstance(coll, Seq):
        return seq_contains(it, coll, x)
    if isinstance(coll, (SMap,)):
        return coll.has(to_v(it, x))
    if isinstance(coll, SymKw):
        return seq_contains(it, coll.keys, x)
    if is_v(coll):
        return heap_D(ctx)[coll][to_v(it, x)] != ABSENT
    if isinstance(coll, MSet):
        return coll.set.mem(to_v(it, x))
    if isinstance(coll, SSet):
        return coll.mem(to_v(it, x))
    if isinstance(coll, Instance):
        ok, m = it.class_attr(coll.cls, "__contains__")
        if ok:
            return truth(it, it.call(m, [coll, x], {}))
        b = coll.base
        if isinstance(b, Seq):
            return seq_contains(it, b, x)
        if hasattr(b, "contains"):
            return b.contains(it, x)
        if hasattr(b, "pyvc_contains"):
            return b.pyvc_contains(it, x)
    if hasattr(coll, "pyvc_contains"):
        return coll.pyvc_contains(it, x)
    raise Unsupported(f"membership in {coll!r}")


def seq_contains(it, s, x):
    """x in s for a symbolic sequence: a membership predicate tied to the elements."""
    ctx = it.ctx
    n = conc(s.len)
    if isinstance(n, int) and n <= 8:
        r = False
        for i in range(n):
            r = or_(it, r, py_eq(it, s.at(i), x))
        return r
    if s.sort is None:
        raise Unsupported("membership in structured symbolic sequence")
    xv = x if (is_z3(x) and x.sort() == s.sort) else (to_v(it, x) if s.sort == V else zint(x))
    j = z3.Int("j!mem")
    w = ctx.fresh("w_mem", INT)
    # Exists j. 0<=j<n and s[j]==x   (skolem witness w for the positive direction)
    return z3.Exists([j], z3.And(in_range(j, s.len), s.at(j) == xv))


def or_(it, a, b):
    if isinstance(a, bool):
        return True if a else b
    if isinstance(b, bool):
        return True if b else a
    return z3.Or(a, b)


def unop(it, op, v):
    if isinstance(op, ast.Not):
        return not_(it, v)
    if isinstance(op, ast.USub):
        if is_intlike(v):
            return conc(-zint(v))
        if hasattr(v, "pyvc_unop"):
            return v.pyvc_unop(it, op)
    if isinstance(op, ast.Invert) and hasattr(v, "pyvc_unop"):
        return v.pyvc_unop(it, op)
    if isinstance(op, ast.UAdd) and is_intlike(v):
        return v
    raise Unsupported(f"unary {type(op).__name__} on {v!r}")


def binop(it, op, a, b, inplace=False):
    if hasattr(a, "pyvc_binop"):
        return a.pyvc_binop(it, op, b, False)
    if hasattr(b, "pyvc_binop"):
        return b.pyvc_binop(it, op, a, True)
    if is_intlike(a) and is_intlike(b):
        x, y = zint(a), zint(b)
        if isinstance(op, ast.Add):
            return conc(x + y)
        if isinstance(op, ast.Sub):
            return conc(x - y)
        if isinstance(op, ast.Mult):
            if isinstance(a, int) or isinstance(b, int):
                return conc(x * y)
            raise Unsupported("nonlinear multiplication")
    if isinstance(a, str) and isinstance(b, str) and isinstance(op, ast.Add):
        return a + b
    if isinstance(a, str) and isinstance(b, int) and isinstance(op, ast.Mult):
        return a * b
    if isinstance(op, ast.Add):
        if isinstance(a, tuple) and isinstance(b, tuple):
            return a + b
        if isinstance(a, (MList, Seq)) and isinstance(b, (MList, Seq)):
            sa, sb = as_seq(it, a), as_seq(it, b)
            return MList(it.ctx, seq_concat(sa, sb))
    if isinstance(op, ast.Sub) and isinstance(a, (SSet, MSet)) and isinstance(b, (SSet, MSet)):
        ma, mb = as_sset(a).mem, as_sset(b).mem
        return MSet(it.ctx, SSet(lambda x: z3.And(ma(x), z3.Not(mb(x)))))
    if isinstance(op, ast.BitAnd) and isinstance(a, (SSet, MSet)) and isinstance(b, (SSet, MSet)):
        ma, mb = as_sset(a).mem, as_sset(b).mem
        return MSet(it.ctx, SSet(lambda x: z3.And(ma(x), mb(x))))
    if isinstance(a, Instance):
        name = {ast.Add: "__add__", ast.Mult: "__mul__", ast.Sub: "__sub__"}.get(type(op))
        if name:
            ok, m = it.class_attr(a.cls, name)
            if ok:
                return it.call(m, [a, b], {})
    if isinstance(b, Instance):
        name = {ast.Add: "__radd__", ast.Mult: "__rmul__"}.get(type(op))
        if name:
            ok, m = it.class_attr(b.cls, name)
            if ok:
                return it.call(m, [b, a], {})
    raise Unsupported(f"binary {type(op).__name__} on {a!r}, {b!r}")


def as_sset(s):
    return s.set if isinstance(s, MSet) else s


def seq_concat(a, b):
    if isinstance(a, PyList) and isinstance(b, PyList):
        return PyList(a.items + b.items)
    if isinstance(a, PyList) and a.len == 0:
        return b
    if isinstance(b, PyList) and b.len == 0:
        return a
    a, b = unstructure(a), unstructure(b)
    return a.concat(b)


def unstructure(s):
    """PyList of z3 terms of one sort -> plain pointwise Seq."""
    if isinstance(s, PyList):
        items = s.items
        if items and all(is_z3(x) for x in items) and len({x.sort() for x in items}) == 1:
            srt = items[0].sort()

            def at(j, items=items):
                e = items[-1]
                for idx in range(len(items) - 2, -1, -1):
                    e = z3.If(j == idx, items[idx], e)
                return e
            return Seq(len(items), at, srt)
        if not items:
            return Seq(0, lambda j: NONE, V)
        raise Unsupported("mixed concrete list where a uniform sequence is needed")
    return s


def as_seq(it, x):
    """The sequence of elements of an iterable value."""
    kind, coll = iter_of(it, x)
    if kind == "concrete":
        return PyList(coll)
    if kind == "segments":
        acc = None
        for sg in coll:
            sg = PyList(sg) if isinstance(sg, list) else sg
            acc = sg if acc is None else seq_concat(acc, sg)
        return acc
    return coll


def iter_of(it, x):
    """-> ("concrete", python list) or ("seq", Seq)."""
    if isinstance(x, (tuple, list)):
        return "concrete", list(x)
    if isinstance(x, dict):
        return "concrete", list(x.keys())
    if isinstance(x, str):
        return "concrete", list(x)
    if isinstance(x, MList):
        return iter_of(it, x.seq)
    if isinstance(x, MSet):
        return "seq", set_enumeration(it, x.set)
    if isinstance(x, PyList):
        return "concrete", list(x.items)
    if isinstance(x, Seq):
        n = conc(x.len)
        if isinstance(n, int) and n <= 6 and not getattr(x, "keep_symbolic", False):
            return "concrete", [x.at(i) for i in range(n)]
        return "seq", x
    if isinstance(x, GenValue):
        out = x.seq
        if out.is_concrete():
            return "concrete", out.concrete()
        return "seq", out_to_seq(it, out)
    if isinstance(x, Instance):
        ok, m = it.class_attr(x.cls, "__iter__")
        if ok:
            return iter_of(it, it.call(m, [x], {}))
        b = x.base
        if isinstance(b, Seq):
            return iter_of(it, b)
        bt = it.base_type(x.cls)
        if bt is not None and "__iter__" in bt.methods:
            return iter_of(it, it.call(bt.methods["__iter__"], [x], {}))
        if hasattr(b, "pyvc_iter"):
            return iter_of(it, b.pyvc_iter(it))
    if isinstance(x, SymKw):
        return iter_of(it, x.keys)
    if hasattr(x, "pyvc_segments"):
        segs = x.pyvc_segments(it)
        if all(isinstance(sg, list) for sg in segs):
            return "concrete", [e for sg in segs for e in sg]
        if len(segs) == 1:
            return "seq", segs[0]
        return "segments", segs
    if hasattr(x, "pyvc_iter"):
        return iter_of(it, x.pyvc_iter(it))
    raise Unsupported(f"iteration over {x!r}")


def out_to_seq(it, out):
    segs = [PyList(s) if isinstance(s, list) else s for s in out.segs]
    if not segs:
        return PyList([])
    acc = segs[0]
    for s in segs[1:]:
        acc = seq_concat(acc, s)
    return acc


def list_from_out(it, out):
    if out.is_concrete():
        return MList(it.ctx, PyList(out.concrete()))
    return MList(it.ctx, out_to_seq(it, out))


def set_from_out(it, out):
    s = out_to_seq(it, out) if not out.is_concrete() else PyList(out.concrete())
    return make_set_from_seq(it, s)


def make_set(it, elems):
    return make_set_from_seq(it, PyList(elems))


def make_set_from_seq(it, s):
    s2 = s
    elems = list(s.items) if isinstance(s, PyList) else None

    def mem(x, s2=s2):
        r = seq_contains(it, s2, x) if not isinstance(s2, PyList) else contains(it, s2.items, x)
        return zbool(r) if not isinstance(r, bool) else z3.BoolVal(r)
    ms = MSet(it.ctx, SSet(mem))
    ms.elems = elems       # creation-time elements (used for len() of a freshly built set)
    ms.src_seq = s2
    return ms


def set_enumeration(it, sset):
    """Iteration order of a (finite) set: some duplicate-free sequence of exactly its members (order unknown)."""
    if getattr(sset, "_enum_seq", None) is not None:
        return sset._enum_seq
    ctx = it.ctx
    n = ctx.fresh("setlen", INT)
    at = ctx.fresh_fn("setelem", INT, V)
    pos = ctx.fresh_fn("setpos", V, INT)
    j, x = z3.Int("j!se"), z3.Const("x!se", V)
    ctx.axioms.append(n >= 0)
    ctx.axioms.append(z3.ForAll([j], z3.Implies(in_range(j, n), z3.And(zbool(sset.mem(at(j))), pos(at(j)) == j)), patterns=[at(j)]))
    ctx.axioms.append(z3.ForAll([x], z3.Implies(zbool(sset.mem(x)), z3.And(in_range(pos(x), n), at(pos(x)) == x)), patterns=[pos(x)]))
    mx = sset.mem(x)
    if z3.is_app(mx) and mx.decl().kind() == z3.Z3_OP_UNINTERPRETED:
        ctx.axioms.append(z3.ForAll([x], z3.Implies(mx, z3.And(in_range(pos(x), n), at(pos(x)) == x)), patterns=[mx]))
    s = Seq(n, lambda i: at(i), V, note="set iteration order")
    s.keep_symbolic = True
    sset._enum_seq = s
    ctx.used_models.add("iteration over a set: some duplicate-free enumeration of exactly its members (sets are finite)")
    return s


def unpack(it, v, n):
    if isinstance(v, (tuple, list)):
        if len(v) != n:
            raise PyRaise("ValueError", "unpack")
        return list(v)
    kind, coll = iter_of(it, v)
    if kind == "concrete":
        if len(coll) != n:
            raise PyRaise("ValueError", "unpack")
        return coll
    raise Unsupported(f"unpacking of {v!r}")


def py_len(it, x):
    if isinstance(x, (tuple, list, dict, str)):
        return len(x)
    if isinstance(x, MList):
        return conc(x.seq.len)
    if isinstance(x, Seq):
        return conc(x.len)
    if isinstance(x, Instance):
        ok, m = it.class_attr(x.cls, "__len__")
        if ok:
            return it.call(m, [x], {})
        b = x.base
        if isinstance(b, Seq):
            return conc(b.len)
        if hasattr(b, "length"):
            return conc(b.length())
        if hasattr(b, "pyvc_len"):
            return b.pyvc_len(it)
    if isinstance(x, SymKw):
        return conc(x.keys.len)
    if isinstance(x, MSet) and getattr(x, "elems", None) is not None:
        # number of distinct elements of a small concrete collection
        total = 0
        seen = []
        for e in x.elems:
            dup = False
            for s_ in seen:
                dup = or_(it, dup, py_eq(it, s_, e))
            total = add(total, 0 if dup is True else (1 if dup is False else z3.If(dup, 0, 1)))
            seen.append(e)
        return total
    if isinstance(x, MSet) and getattr(x, "src_seq", None) is not None and x.src_seq.sort is not None:
        from .models_np import stat_term
        from .core import intof
        n = intof(stat_term(it, "count_distinct", x.src_seq))
        it.ctx.assume(z3.And(n >= 0, n <= zint(x.src_seq.len)))
        it.ctx.used_models.add("len(set(seq)): the number of distinct elements (uninterpreted) - assumed")
        return n
    if isinstance(x, MSet):
        return set_enumeration(it, x.set).len
    if isinstance(x, GenValue):
        raise PyRaise("TypeError", "len of generator")
    if hasattr(x, "pyvc_len"):
        return x.pyvc_len(it)
    raise Unsupported(f"len of {x!r}")


def norm_index(it, idx, n, exc="IndexError"):
    """Python index normalisation with bounds check (raises IndexError on the failing path)."""
    ctx = it.ctx
    i = conc(idx)
    nn = conc(n)
    if isinstance(i, int) and isinstance(nn, int):
        if -nn <= i < nn:
            return i % nn if nn else 0
        raise PyRaise(exc, "index out of range")
    zi, zn = zint(i), zint(nn)
    ok = z3.And(zi >= -zn, zi < zn)
    if not ctx.branch(ok):
        raise PyRaise(exc, "index out of range")
    if isinstance(i, int):
        return i if i >= 0 else conc(zn + i)
    if ctx.valid(zi >= 0):
        return zi
    return z3.If(zi >= 0, zi, zi + zn)


def clamp_slice(it, sl, n):
    """Python slice (step None/1) -> (lo, hi) with 0 <= lo <= hi' semantics."""
    if sl.step is not None and conc(sl.step) != 1:
        raise Unsupported("slice step")
    zn = zint(n)

    def norm(x, default):
        if x is None:
            return default
        zx = zint(x)
        zx = z3.If(zx < 0, zx + zn, zx)
        return z3.If(zx < 0, 0, z3.If(zx > zn, zn, zx))
    lo = norm(sl.lo, z3.IntVal(0))
    hi = norm(sl.hi, zn)
    hi = z3.If(hi < lo, lo, hi)
    return conc(lo), conc(hi)


def opaque(it):
    """contracts over foreign objects (datetime, re.Match, ...): attributes, calls and subscripts of an opaque value are
    uninterpreted functions of the value (and arguments) instead of the item-dict interpretation"""
    return bool(getattr(it, "config", {}).get("opaque_objects"))


def opaque_call(it, f, args, kwargs):
    vs = [to_v(it, a) for a in args]
    for k in sorted(kwargs):
        vs.append(mk_tuple(it.ctx, [to_v(it, k), to_v(it, kwargs[k])]))
    fn = z3.Function(f"call{len(vs)}", V, *([V] * len(vs)), V)
    it.ctx.used_models.add("opaque objects: attribute / call / subscript are uninterpreted functions of the object and the arguments")
    return fn(f, *vs)


def getitem(it, obj, idx):
    ctx = it.ctx
    if is_v(obj) and opaque(it) and not isinstance(idx, SliceVal):
        return z3.Function("item_of", V, V, V)(obj, to_v(it, idx))
    if isinstance(obj, Instance):
        ok, m = it.class_attr(obj.cls, "__getitem__")
        if ok:
            return it.call(m, [obj, idx], {})
        bt = it.base_type(obj.cls)
        if bt is not None and "__getitem__" in bt.methods:
            return it.call(bt.methods["__getitem__"], [obj, idx], {})
    if isinstance(obj, SuperProxy):
        raise Unsupported("subscript of super()")
    if isinstance(obj, (tuple, list, str)):
        if isinstance(idx, SliceVal):
            lo, hi, st = conc(idx.lo), conc(idx.hi), conc(idx.step)
            if all(x is None or isinstance(x, int) for x in (lo, hi, st)):
                return obj[slice(lo, hi, st)]
            raise Unsupported("symbolic slice of tuple")
        i = conc(idx)
        if isinstance(i, int):
            try:
                return obj[i]
            except IndexError:
                raise PyRaise("IndexError", "tuple index")
        n = len(obj)
        if is_sym_bool(i):
            i = z3.If(i, 1, 0)
        i = norm_index(it, i, n)
        try:
            return merge_many([(zint(i) == j, x) for j, x in enumerate(obj)])
        except Unsupported:
            # elements that cannot be merged into one value (functions, ...): one path per position
            for j, x in enumerate(obj):
                if it.ctx.branch(zint(i) == j):
                    return x
            raise PathAbort()
    if isinstance(obj, dict):
        if is_z3(idx):
            raise Unsupported("symbolic key into concrete dict")
        if idx in obj:
            return obj[idx]
        raise PyRaise("KeyError", repr(idx))
    if isinstance(obj, MList):
        return seq_getitem(it, obj.seq, idx, wrap_list=True)
    if isinstance(obj, Seq):
        return seq_getitem(it, obj, idx, wrap_list=False)
    if is_v(obj):
        k = to_v(it, idx)
        val = heap_D(ctx)[obj][k]
        if not ctx.branch(val != ABSENT):
            raise PyRaise("KeyError", str(k))
        return val
    if isinstance(obj, SMap):
        k = to_v(it, idx)
        val = obj.get(k)
        if not ctx.branch(val != ABSENT):
            raise PyRaise("KeyError", str(k))
        return val
    if isinstance(obj, SymKw):
        raise Unsupported("subscript of symbolic kwargs")
    if hasattr(obj, "pyvc_getitem"):
        return obj.pyvc_getitem(it, idx)
    raise Unsupported(f"subscript of {obj!r}")


def seq_getitem(it, s, idx, wrap_list):
    if isinstance(idx, SliceVal):
        if isinstance(s, PyList) and all(x is None or isinstance(conc(x), int) for x in (idx.lo, idx.hi, idx.step)):
            r = PyList(s.items[slice(conc(idx.lo), conc(idx.hi), conc(idx.step))])
        else:
            if idx.step is not None and conc(idx.step) == -1 and idx.lo is None and idx.hi is None:
                r = unstructure(s).reversed() if not isinstance(s, PyList) else PyList(s.items[::-1])
            else:
                lo, hi = clamp_slice(it, idx, s.len)
                r = unstructure(s).slice(lo, hi)
        return MList(it.ctx, r)
    i = norm_index(it, idx, s.len)
    return s.at(i)


def setitem(it, obj, idx, v):
    ctx = it.ctx
    if isinstance(obj, Instance):
        ok, m = it.class_attr(obj.cls, "__setitem__")
        if ok:
            return it.call(m, [obj, idx, v], {})
        bt = it.base_type(obj.cls)
        if bt is not None and "__setitem__" in bt.methods:
            return it.call(bt.methods["__setitem__"], [obj, idx, v], {})
    if isinstance(obj, dict):
        if is_z3(idx):
            raise Unsupported("symbolic key into concrete dict")
        obj[idx] = v
        return
    if is_v(obj):
        D = heap_D(ctx)
        ctx.heap["D"] = z3.Store(D, obj, z3.Store(D[obj], to_v(it, idx), to_v(it, v)))
        return
    if isinstance(obj, MList):
        s = obj.seq
        if isinstance(s, PyList) and isinstance(conc(idx), int):
            items = list(s.items)
            try:
                items[conc(idx)] = v
            except IndexError:
                raise PyRaise("IndexError", "list assignment index out of range")
            obj.seq = PyList(items)
            return
        i = norm_index(it, idx, s.len)
        s = unstructure(s)
        vv = v if (is_z3(v) and v.sort() == s.sort) else (to_v(it, v) if s.sort == V else zint(v))
        obj.seq = Seq(s.len, lambda j, s=s: z3.If(j == zint(i), vv, s.at(j)), s.sort)
        return
    if hasattr(obj, "pyvc_setitem"):
        return obj.pyvc_setitem(it, idx, v)
    raise Unsupported(f"item assignment on {obj!r}")


def delitem(it, obj, idx):
    ctx = it.ctx
    if isinstance(obj, Instance):
        ok, m = it.class_attr(obj.cls, "__delitem__")
        if ok:
            return it.call(m, [obj, idx], {})
        bt = it.base_type(obj.cls)
        if bt is not None and "__delitem__" in bt.methods:
            return it.call(bt.methods["__delitem__"], [obj, idx], {})
    if is_v(obj):
        D = heap_D(ctx)
        k = to_v(it, idx)
        if not ctx.branch(D[obj][k] != ABSENT):
            raise PyRaise("KeyError", str(k))
        ctx.heap["D"] = z3.Store(D, obj, z3.Store(D[obj], k, ABSENT))
        return
    if isinstance(obj, dict):
        if idx in obj:
            del obj[idx]
            return
        raise PyRaise("KeyError", repr(idx))
    if hasattr(obj, "pyvc_delitem"):
        return obj.pyvc_delitem(it, idx)
    raise Unsupported(f"item deletion on {obj!r}")


def delattr(it, obj, name):
    if isinstance(obj, Instance):
        ok, m = it.class_attr(obj.cls, "__delattr__")
        if ok:
            return it.call(m, [obj, name], {})
        return object_delattr(it, obj, name)
    if is_v(obj):
        # attd.AttributeDict: attribute deletion = key deletion
        return delitem(it, obj, name)
    raise Unsupported(f"delattr on {obj!r}")


def object_delattr(it, obj, name):
    if name in obj.attrs:
        del obj.attrs[name]
        return None
    raise PyRaise("AttributeError", name)


def value_getattr(it, obj, name):
    """Attribute of a non-instance value: methods of dict refs, lists, sets, ..."""
    ctx = it.ctx
    if isinstance(obj, SuperProxy):
        return super_getattr(it, obj, name)
    table = None
    if is_v(obj) and name == "item" and getattr(it, "np_scalars", False):
        raise PyRaise("AttributeError", "'str' object has no attribute 'item'")      # a plain Python object, not a NumPy scalar
    if is_v(obj) and opaque(it) and not name.startswith("__"):
        return z3.Function("attr_" + name, V, V)(obj)
    if is_v(obj) and name == "__class__":
        return class_of(obj)
    if is_v(obj) and name == "__module__":
        return module_of(obj)
    if is_v(obj) or isinstance(obj, (SMap, dict)):
        table = DICT_METHODS
        if is_v(obj) and name not in table:
            # attd.AttributeDict attribute access = key access
            return getitem(it, obj, name)
    elif isinstance(obj, MList):
        table = LIST_METHODS
    elif isinstance(obj, MSet):
        table = SET_METHODS
    elif isinstance(obj, tuple):
        table = {}
    elif isinstance(obj, str):
        return str_method(it, obj, name)
    elif isinstance(obj, SymKw):
        table = SYMKW_METHODS
    elif isinstance(obj, PropertyObj):
        if name == "setter":
            return ModelFn("property.setter", lambda it_, a, k, obj=obj: PropertyObj(obj.fget, a[0]))
    elif isinstance(obj, TypeObj):
        if name in obj.methods:
            return obj.methods[name]
        if name == "__name__":
            return obj.name
    elif hasattr(obj, "pyvc_getattr"):
        return obj.pyvc_getattr(it, name)
    if table is not None and name in table:
        return BoundMethod(table[name], obj)
    raise Unsupported(f"attribute {name!r} of {obj!r}")


def super_getattr(it, sp, name):
    owner = sp.owner
    obj = sp.self_obj
    for b in owner.info.bases:
        bv = it.eval(b, Env(), owner.info.module)
        if isinstance(bv, ClassObj):
            found, v = it.class_attr(bv, name)
            if found:
                if isinstance(v, PropertyObj):
                    return it.call(v.fget, [obj], {})
                return it.bind(v, obj)
            bt = it.base_type(bv)
            if bt is not None and name in bt.methods:
                return BoundMethod(bt.methods[name], obj)
        elif isinstance(bv, TypeObj) and name in bv.methods:
            return BoundMethod(bv.methods[name], obj)
    if name in OBJECT_METHODS:
        return BoundMethod(OBJECT_METHODS[name], obj)
    raise Unsupported(f"super().{name}")


def str_method(it, s, name):
    if name in ("isidentifier", "upper", "lower", "strip", "startswith", "endswith", "format", "join",
                "replace", "split", "lstrip", "rstrip"):
        def fn(it_, args, kwargs, s=s, name=name):
            if any(is_z3(a) for a in args):
                raise Unsupported("str method on symbolic argument")
            return getattr(s, name)(*args, **kwargs)
        return ModelFn("str." + name, fn)
    raise Unsupported(f"str.{name}")


# ---------------------------------------------------------------------------------------
# symbolic **kwargs / key-value pair lists of symbolic arity
# ---------------------------------------------------------------------------------------
class SymKw:
    """Ordered mapping with a symbolic number of (distinct) keys: keys Seq(V), vals Seq."""
    def __init__(self, keys, vals):
        self.keys = keys
        self.vals = vals
        self.keys.keep_symbolic = True

    def pairs(self):
        ks, vs = self.keys, self.vals
        s = Seq(ks.len, lambda j: (ks.at(j), vs.at(j)), None)
        s.keep_symbolic = True
        return s


def _kw_items(it, args, kwargs):
    return args[0].pairs()


def _kw_keys(it, args, kwargs):
    return args[0].keys


def _kw_values(it, args, kwargs):
    return args[0].vals


SYMKW_METHODS = {"items": ModelFn("dict.items", _kw_items), "keys": ModelFn("dict.keys", _kw_keys),
                 "values": ModelFn("dict.values", _kw_values)}


# ---------------------------------------------------------------------------------------
# dict methods (heap dict refs, SMap values, concrete dicts)
# ---------------------------------------------------------------------------------------
class DictBase:
    pass


def _d_get(it, args, kwargs):
    d, k = args[0], args[1]
    default = args[2] if len(args) > 2 else kwargs.get("default", None)
    if isinstance(d, dict):
        if is_z3(k):
            # concrete dict, symbolic key: first matching key (keys are distinct)
            items = [(zbool_(py_eq(it, kk, k)), vv) for kk, vv in d.items()] + [(z3.BoolVal(True), default)]
            return merge_many(items)
        return d.get(k, default)
    arr = dict_contents(it, d)
    kv = to_v(it, k)
    val = arr[kv]
    if isinstance(default, dict) and not default:
        # d.get(k, {}) : result is used as a mapping
        return SMap(z3.If(val != ABSENT, heap_D(it.ctx)[val], z3.K(V, ABSENT)))
    return z3.If(val != ABSENT, val, to_v(it, default))


def _d_items(it, args, kwargs):
    d = args[0]
    if isinstance(d, dict):
        return list(d.items())
    return DictItems(dict_contents(it, d))


def _d_keys(it, args, kwargs):
    d = args[0]
    if isinstance(d, dict):
        return list(d.keys())
    return DictKeys(dict_contents(it, d))


def _d_values(it, args, kwargs):
    d = args[0]
    if isinstance(d, dict):
        return list(d.values())
    raise Unsupported("values() of symbolic dict")


class DictItems:
    """items() view of a symbolic dict: iteration order is not modelled; only uses that
    are order-insensitive are supported (see models.dict_comp)."""
    def __init__(self, arr):
        self.arr = arr


class DictKeys:
    def __init__(self, arr):
        self.arr = arr

    def pyvc_contains(self, it, x):
        return self.arr[to_v(it, x)] != ABSENT


def _d_update(it, args, kwargs):
    d, other = args[0], args[1]
    ctx = it.ctx
    if isinstance(d, dict):
        if isinstance(other, dict):
            d.update(other)
            return None
        raise Unsupported("concrete dict updated with symbolic dict")
    if not is_v(d):
        raise Unsupported("update of immutable map")
    new = dict_contents(it, other)
    D = heap_D(ctx)
    old = D[d]
    k = z3.Const("k!upd", V)
    merged = z3.Lambda([k], z3.If(new[k] != ABSENT, new[k], old[k]))
    ctx.heap["D"] = z3.Store(D, d, merged)
    return None


def _d_setdefault(it, args, kwargs):
    d, k = args[0], args[1]
    default = args[2] if len(args) > 2 else None
    if isinstance(d, dict):
        if is_z3(k):
            raise Unsupported("symbolic key into concrete dict")
        return d.setdefault(k, default)
    ctx = it.ctx
    if is_v(d):
        D = heap_D(ctx)
        kv = to_v(it, k)
        cur = D[d][kv]
        if ctx.branch(cur != ABSENT):
            return cur
        dv = to_v(it, default)
        ctx.heap["D"] = z3.Store(D, d, z3.Store(D[d], kv, dv))
        return dv
    raise Unsupported("setdefault on symbolic dict")


def _d_pop(it, args, kwargs):
    d, k = args[0], args[1]
    if isinstance(d, dict):
        if k in d:
            return d.pop(k)
        if len(args) > 2:
            return args[2]
        raise PyRaise("KeyError", repr(k))
    ctx = it.ctx
    if is_v(d):
        D = heap_D(ctx)
        kv = to_v(it, k)
        val = D[d][kv]
        if ctx.branch(val != ABSENT):
            ctx.heap["D"] = z3.Store(D, d, z3.Store(D[d], kv, ABSENT))
            return val
        if len(args) > 2:
            return args[2]
        raise PyRaise("KeyError", str(kv))
    raise Unsupported("pop on symbolic map")


def _d_copy(it, args, kwargs):
    d = args[0]
    if isinstance(d, dict):
        return dict(d)
    raise Unsupported("copy of symbolic dict")


DICT_METHODS = {"get": ModelFn("dict.get", _d_get), "items": ModelFn("dict.items", _d_items),
                "keys": ModelFn("dict.keys", _d_keys), "values": ModelFn("dict.values", _d_values),
                "update": ModelFn("dict.update", _d_update), "setdefault": ModelFn("dict.setdefault", _d_setdefault),
                "pop": ModelFn("dict.pop", _d_pop), "copy": ModelFn("dict.copy", _d_copy)}


def dict_comp(it, n, env, f):
    """Dict comprehensions.  Supported shapes:
       {k: v for k, v in <dict>.items() if cond}   (identity key)  -> pointwise map
       {key(x): val(x) for x in <sequence>}                       -> IndexMap (last write wins)
       anything over a concrete iterable                          -> concrete dict"""
    ctx = it.ctx
    if len(n.generators) != 1:
        raise Unsupported("nested dict comprehension")
    g = n.generators[0]
    src = it.ev(g.iter, env, f)
    if isinstance(src, DictItems):
        if not (isinstance(g.target, ast.Tuple) and len(g.target.elts) == 2 and isinstance(n.key, ast.Name)
                and isinstance(g.target.elts[0], ast.Name) and n.key.id == g.target.elts[0].id):
            raise Unsupported("dict comprehension over items() with computed key")
        kc = ctx.fresh("kc", V)
        e = Env(parent=env)
        e.vars[g.target.elts[0].id] = kc
        e.vars[g.target.elts[1].id] = src.arr[kc]
        # evaluate guard and value for an arbitrary key (no forking allowed to escape)
        def thunk():
            for cond in g.ifs:
                c = truth(it, it.ev(cond, e, f))
                if not ctx.branch(c):
                    return None
            return (to_v(it, it.ev(n.value, e, f)),)
        res = ctx.explore(thunk)
        items = []
        for conds, kind, val, full in res:
            if kind == "raise":
                raise Unsupported("exception inside dict comprehension")
            c = z3.And(*conds) if conds else z3.BoolVal(True)
            items.append((c, ABSENT if val is None else val[0]))
        body = merge_many(items) if items else ABSENT
        body = z3.If(src.arr[kc] != ABSENT, body, ABSENT)
        kb = z3.Const("k!dc", V)
        return SMap(z3.Lambda([kb], z3.substitute(body, (kc, kb))))
    kind, coll = iter_of(it, src)
    if kind == "concrete":
        d = {}
        for x in coll:
            e = Env(parent=env)
            it.assign(g.target, x, e, f)
            okc = True
            for cond in g.ifs:
                if not ctx.branch(truth(it, it.ev(cond, e, f))):
                    okc = False
                    break
            if okc:
                d[hashable(it, it.ev(n.key, e, f))] = it.ev(n.value, e, f)
        return d
    # symbolic sequence: last write wins
    if g.ifs:
        raise Unsupported("filtered dict comprehension over symbolic sequence")
    # a scan over reversed(seq) where later writes win = the FIRST occurrence in seq wins
    first_wins = getattr(coll, "rev_of", None) is not None
    if first_wins:
        coll = coll.rev_of
    kk = z3.Int(ctx.fresh_name("kdc"))
    e = Env(parent=env)
    it.assign(g.target, coll.at(kk), e, f)
    snap = ctx.snapshot()
    ctx.loop_vars.append(kk)
    try:
        ctx.assume(in_range(kk, coll.len))
        res = ctx.explore(lambda: (to_v(it, it.ev(n.key, e, f)), it.ev(n.value, e, f)))
    finally:
        ctx.loop_vars.pop()
    ctx.restore(snap)
    if len(res) != 1 or res[0][1] != "ok":
        # e.g. itemgetter raising KeyError for some element: handled by the caller's precondition
        raise Unsupported("dict comprehension body forks or raises")
    conds, _, (kproto, vproto), full = res[0]
    facts = [a for a in full[0] if not a.eq(z3.simplify(in_range(kk, coll.len)))]
    if facts:
        ctx.assumptions.append(z3.ForAll([kk], z3.Implies(in_range(kk, coll.len), z3.And(*facts))))
    im = IndexMap(it, coll.len, lambda j: subst(kproto, kk, j), lambda j: subst(vproto, kk, j), first_wins=first_wins)
    it.last_index_map = im        # ghost: lets a contract name the lookup table
    return im


class IndexMap:
    """{key(j): val(j) for j in range(n)} - later entries overwrite earlier ones, so the entry for key x comes
    from the LAST index j with key(j) == x (assumed semantics of dict comprehension = sequential assignment).
    With first_wins (the source was reversed(seq), indices refer to seq) it is the FIRST index."""
    def __init__(self, it, n, key, val, first_wins=False):
        from .core import forall
        ctx = it.ctx
        self.n, self.key, self.val, self.first_wins = n, key, val, first_wins
        self.last = ctx.fresh_fn("firstidx" if first_wins else "lastidx", V, INT)
        x = z3.Const("x!im", V)
        j = z3.Int("j!im")
        nn = zint(n)
        li = self.last
        ctx.assumptions.append(z3.ForAll([x], z3.Or(
            z3.And(li(x) == -1),
            z3.And(0 <= li(x), li(x) < nn, key(li(x)) == x)), patterns=[li(x)]))
        bound = z3.And(li(key(j)) >= 0, li(key(j)) <= j) if first_wins else z3.And(li(key(j)) >= j, li(key(j)) < nn)
        ctx.assumptions.append(forall([j], z3.Implies(z3.And(0 <= j, j < nn), bound), patterns=[key(j)]))

    def has(self, x):
        return self.last(x) >= 0

    def pyvc_contains(self, it, x):
        return self.has(to_v(it, x))

    def lookup(self, x):
        return self.val(self.last(x))

    def pyvc_getitem(self, it, idx):
        x = to_v(it, idx)
        if not it.ctx.branch(self.has(x)):
            raise PyRaise("KeyError", str(x))
        return self.lookup(x)

    def pyvc_getattr(self, it, name):
        if name == "get":
            def get(it_, args, kwargs, self=self):
                x = to_v(it_, args[0])
                default = args[1] if len(args) > 1 else None
                if it_.ctx.branch(self.has(x)):
                    return self.lookup(x)
                return default
            return ModelFn("dict.get", get)
        raise Unsupported(f"IndexMap.{name}")


# ---------------------------------------------------------------------------------------
# list / set methods
# ---------------------------------------------------------------------------------------
def _l_append(it, args, kwargs):
    lst, x = args
    s = lst.seq
    if isinstance(s, PyList):
        lst.seq = PyList(s.items + [x])
    else:
        lst.seq = seq_concat(s, PyList([x]))
    return None


def _l_insert(it, args, kwargs):
    lst, i, x = args
    s = lst.seq
    if isinstance(s, PyList) and isinstance(conc(i), int):
        items = list(s.items)
        items.insert(conc(i), x)
        lst.seq = PyList(items)
        return None
    s = unstructure(s)
    n = zint(s.len)
    zi = zint(i)
    pos = z3.If(zi < 0, z3.If(zi + n < 0, 0, zi + n), z3.If(zi > n, n, zi))
    xv = x if (is_z3(x) and x.sort() == s.sort) else (to_v(it, x) if s.sort == V else zint(x))
    lst.seq = Seq(conc(n + 1), lambda j, s=s: z3.If(j < pos, s.at(j), z3.If(j == pos, xv, s.at(j - 1))), s.sort)
    return None


def _l_pop(it, args, kwargs):
    lst = args[0]
    s = lst.seq
    if isinstance(s, PyList):
        items = list(s.items)
        if not items:
            raise PyRaise("IndexError", "pop from empty list")
        i = conc(args[1]) if len(args) > 1 else -1
        if not isinstance(i, int):
            raise Unsupported("pop at symbolic index")
        v = items.pop(i)
        lst.seq = PyList(items)
        return v
    raise Unsupported("pop from symbolic list")


LIST_METHODS = {"append": ModelFn("list.append", _l_append), "insert": ModelFn("list.insert", _l_insert),
                "pop": ModelFn("list.pop", _l_pop)}


def _s_add(it, args, kwargs):
    st, x = args
    old = st.set.mem
    xv = to_v(it, x)
    st.set = SSet(lambda y, old=old, xv=xv: z3.Or(old(y), y == xv))
    return None


def _s_copy(it, args, kwargs):
    return MSet(it.ctx, args[0].set)


def _s_discard(it, args, kwargs):
    st, x = args
    old = st.set.mem
    xv = to_v(it, x)
    st.set = SSet(lambda y, old=old, xv=xv: z3.And(zbool(old(y)), y != xv))
    return None


def _s_pop(it, args, kwargs):
    """set.pop(): removes and returns an arbitrary member (the first of the unknown iteration order)"""
    st = args[0]
    en = set_enumeration(it, st.set)
    if not it.ctx.branch(zint(en.len) > 0):
        raise PyRaise("KeyError", "pop from an empty set")
    x = en.at(0)
    old = st.set.mem
    st.set = SSet(lambda y, old=old, x=x: z3.And(zbool(old(y)), y != x))
    return x


SET_METHODS = {"add": ModelFn("set.add", _s_add), "copy": ModelFn("set.copy", _s_copy),
               "discard": ModelFn("set.discard", _s_discard), "pop": ModelFn("set.pop", _s_pop)}


# ---------------------------------------------------------------------------------------
# object / list / dict base-class methods for repo classes
# ---------------------------------------------------------------------------------------
def _obj_getattribute(it, args, kwargs):
    obj, name = args
    if is_z3(name):
        raise Unsupported("symbolic attribute name")
    return it.instance_getattr(obj, name, plain=True)


def _obj_setattr(it, args, kwargs):
    obj, name, value = args
    obj.attrs[name] = value
    return None


def _obj_delattr(it, args, kwargs):
    obj, name = args
    return object_delattr(it, obj, name)


OBJECT_METHODS = {"__getattribute__": ModelFn("object.__getattribute__", _obj_getattribute),
                  "__setattr__": ModelFn("object.__setattr__", _obj_setattr),
                  "__delattr__": ModelFn("object.__delattr__", _obj_delattr)}


def _list_init(it, args, kwargs):
    obj = args[0]
    src = args[1] if len(args) > 1 else ()
    obj.base = unstructure_if_v(as_seq(it, src))
    return None


def unstructure_if_v(s):
    if isinstance(s, PyList) and s.items and all(is_v(x) for x in s.items):
        return unstructure(s)
    return s


def _list_getitem(it, args, kwargs):
    obj, idx = args
    s = obj.base
    if isinstance(idx, SliceVal):
        return seq_getitem(it, s, idx, wrap_list=True)
    return seq_getitem(it, s, idx, wrap_list=False)


def _list_setitem(it, args, kwargs):
    obj, idx, v = args
    tmp = MList(it.ctx, obj.base)
    setitem(it, tmp, idx, v)
    obj.base = tmp.seq
    return None


def _list_len(it, args, kwargs):
    return conc(args[0].base.len)


LIST_TYPE = TypeObj("list", ctor=lambda it, args, kwargs: MList(it.ctx, as_seq(it, args[0]) if args else PyList([])),
                    methods={"__init__": ModelFn("list.__init__", _list_init),
                             "__getitem__": ModelFn("list.__getitem__", _list_getitem),
                             "__setitem__": ModelFn("list.__setitem__", _list_setitem),
                             "__len__": ModelFn("list.__len__", _list_len),
                             **OBJECT_METHODS})


# ---------------------------------------------------------------------------------------
# builtins
# ---------------------------------------------------------------------------------------
def _isinstance(it, args, kwargs):
    x, t = args
    if isinstance(t, tuple):
        r = False
        for tt in t:
            r = or_(it, r, _isinstance(it, [x, tt], {}))
        return r
    name = t.name if isinstance(t, (TypeObj, ClassObj)) else None
    if name is None:
        raise Unsupported(f"isinstance with {t!r}")
    if hasattr(x, "pyvc_isinstance"):
        return x.pyvc_isinstance(it, t)
    if name == "slice":
        return isinstance(x, SliceVal)
    if type(x).__name__ == "DType":
        from .models_np import kind_is
        if name == "StringDType":
            return kind_is(x.kind, "string")
        return False
    if isinstance(x, Instance):
        if getattr(x, "maybe_none", False):
            # a reference read from a heap field: None or an instance of the field's class
            return and_(it, x.href != NONE, it.is_subclass(x.cls, t) if isinstance(t, ClassObj) else False)
        if isinstance(t, ClassObj):
            return it.is_subclass(x.cls, t)
        bt = it.base_type(x.cls)
        return bt is not None and bt.name == name
    if is_v(x):
        preds = {"AttributeDict": is_adict, "dict": is_dict, "str": is_str, "int": is_intv}
        if name in preds:
            return preds[name](x)
        if isinstance(t, ClassObj):
            return False if name in ("ListOfDicts", "DataFrame", "Vector", "DataFrameColumn") and \
                it.ctx.valid(z3.Or(is_dict(x), is_str(x), x == NONE)) else _unknown_isinstance(it, x, name)
        return _unknown_isinstance(it, x, name)
    py = {"int": lambda v: is_intlike(v), "str": lambda v: isinstance(v, str),
          "bool": lambda v: is_boollike(v), "tuple": lambda v: isinstance(v, tuple),
          "list": lambda v: isinstance(v, (MList,)), "dict": lambda v: isinstance(v, (dict, SMap)),
          "float": lambda v: isinstance(v, float), "AttributeDict": lambda v: False,
          "ndarray": lambda v: type(v).__name__ == "NDArr", "date": lambda v: False, "datetime": lambda v: False,
          "timedelta": lambda v: False, "bytes": lambda v: isinstance(v, bytes)}
    if name in py:
        return py[name](x)
    if isinstance(t, ClassObj):
        return False
    if hasattr(x, "pyvc_isinstance"):
        return x.pyvc_isinstance(it, t)
    raise Unsupported(f"isinstance({x!r}, {name})")


def _unknown_isinstance(it, x, name):
    f = z3.Function(f"isinstance_{name}", V, BOOL)
    if name in ("list", "tuple", "int", "str", "bool", "float"):
        # a dict instance is never an instance of these (incompatible layouts / distinct builtins)
        return z3.And(z3.Not(is_dict(x)), x != NONE, f(x))
    return f(x)


# classes the models know by name; (sub, super) pairs of the ones related by inheritance (assumed: CPython / NumPy class
# hierarchy).  Used only for issubclass / np.issubdtype on a *symbolic* class value.
KNOWN_CLASSES = ("bool", "int", "float", "str", "bytes", "object", "date", "datetime", "timedelta", "str_", "bool_", "bytes_",
                 "float64", "int64", "datetime64", "timedelta64", "object_")
SUBCLASS = {("bool", "int"), ("str_", "str"), ("float64", "float"), ("datetime", "date"), ("bytes_", "bytes")}
# np.issubdtype(cls, np.floating / np.integer) for a class (assumed: NumPy scalar-type hierarchy; a Python class that is not
# a NumPy scalar type is first mapped by np.dtype: float -> float64, int -> int64, bool -> bool_, everything else object)
SUBDTYPE = {"floating": ("float", "float64"), "integer": ("int", "int64", "timedelta64")}


def _class_pred(ctx, fname, members):
    f = z3.Function(fname, V, BOOL)
    done = ctx.__dict__.setdefault("_class_pred_ax", set())
    if fname not in done:
        done.add(fname)
        for n in KNOWN_CLASSES:
            fact = f(type_tag(ctx, n))
            ctx.axioms.append(fact if n in members else z3.Not(fact))
    return f


def _issubclass(it, args, kwargs):
    x, t = args
    if isinstance(t, tuple):
        r = False
        for tt in t:
            r = or_(it, r, _issubclass(it, [x, tt], {}))
        return r
    if not isinstance(t, TypeObj):
        raise Unsupported(f"issubclass(.., {t!r})")
    members = {t.name} | {a for a, b in SUBCLASS if b == t.name}
    if isinstance(x, TypeObj):
        return x.name in members or t.name == "object"
    if is_v(x):
        if t.name == "object":
            return True
        it.ctx.used_models.add("issubclass on a symbolic class: known builtin / NumPy classes by table, others uninterpreted")
        return _class_pred(it.ctx, "issubclass_" + t.name, members)(x)
    raise Unsupported(f"issubclass({x!r}, ..)")


def _callable(it, args, kwargs):
    x = args[0]
    if isinstance(x, (Closure, BoundMethod, ModelFn, ClassObj, TypeObj)) or hasattr(x, "pyvc_call"):
        return True
    if x is None or isinstance(x, (int, str, tuple, dict, bool)) or is_sym_int(x) or is_sym_bool(x):
        return False
    if is_v(x):
        return is_callable(x)
    if isinstance(x, (MList, Seq, SMap, SymKw, Instance)):
        return False
    if type(x).__name__ in ("NDArr", "DType", "Sentinel"):
        return False
    raise Unsupported(f"callable({x!r})")


def _len(it, args, kwargs):
    return py_len(it, args[0])


def _min(it, args, kwargs):
    if len(args) == 2 and is_intlike(args[0]) and is_intlike(args[1]):
        a, b = args
        if isinstance(a, int) and isinstance(b, int):
            return min(a, b)
        return conc(z3.If(zint(a) <= zint(b), zint(a), zint(b)))
    raise Unsupported("min")


def _max(it, args, kwargs):
    if len(args) == 1:
        kind, coll = iter_of(it, args[0])
        if kind != "concrete":
            raise Unsupported("max over a symbolic collection")
        if not coll:
            if "default" in kwargs:
                return kwargs["default"]
            raise PyRaise("ValueError", "max() arg is an empty sequence")
        m = coll[0]
        for x in coll[1:]:
            m = _max(it, [m, x], {})
        return m
    if len(args) == 2 and is_intlike(args[0]) and is_intlike(args[1]):
        a, b = args
        if isinstance(a, int) and isinstance(b, int):
            return max(a, b)
        return conc(z3.If(zint(a) >= zint(b), zint(a), zint(b)))
    raise Unsupported("max")


def _range(it, args, kwargs):
    if len(args) == 1:
        lo, hi = 0, args[0]
    elif len(args) == 2:
        lo, hi = args
    else:
        raise Unsupported("range with step")
    if isinstance(lo, int) and isinstance(conc(hi), int):
        return list(range(lo, conc(hi)))
    n = z3.If(zint(hi) - zint(lo) >= 0, zint(hi) - zint(lo), 0)
    s = Seq(conc(n), lambda j: conc(zint(lo) + j), INT, note="range")
    s.keep_symbolic = True
    return s


def _reversed(it, args, kwargs):
    kind, coll = iter_of(it, args[0])
    if kind == "concrete":
        return list(reversed(coll))
    return unstructure(coll).reversed()


def _enumerate(it, args, kwargs):
    kind, coll = iter_of(it, args[0])
    start = kwargs.get("start", args[1] if len(args) > 1 else 0)
    if kind == "concrete":
        return [(add(start, i), x) for i, x in enumerate(coll)]
    s = Seq(coll.len, lambda j: (conc(zint(start) + j), coll.at(j)), None)
    return s


def _zip(it, args, kwargs):
    its = [iter_of(it, a) for a in args]
    if all(k == "concrete" for k, _ in its):
        return list(zip(*[c for _, c in its]))
    seqs = [PyList(c) if k == "concrete" else c for k, c in its]
    n = seqs[0].len
    for s in seqs[1:]:
        n = conc(z3.If(zint(n) <= zint(s.len), zint(n), zint(s.len)))
    return Seq(n, lambda j: tuple(s.at(j) for s in seqs), None)


def _map(it, args, kwargs):
    fn = args[0]
    if len(args) != 2:
        raise Unsupported("map with several iterables")
    kind, coll = iter_of(it, args[1])
    if kind == "concrete":
        return [it.call(fn, [x], {}) for x in coll]
    return map_seq(it, fn, coll)


def map_seq(it, fn, coll):
    """[fn(x) for x in coll] for symbolic coll, via the loop rule."""
    out = OutSeq()
    from .interp import Frame
    fr = Frame(None, True)
    fr.out = out
    it.frames.append(fr)
    try:
        cl = fr.closure = _MapClosure()
        seg = it.exec_sym_loop(coll, lambda x, e: e.vars.__setitem__("x!map", x),
                               lambda e: it.frames[-1].out.emit(it.call(fn, [e.vars["x!map"]], {})),
                               [], Env(), cl, ("map", id(fn)), collect=True)
    finally:
        it.frames.pop()
    return seg if seg is not None else PyList([])


class _MapClosure:
    name = "<map>"
    owner = None
    module = None
    node = None


def _list(it, args, kwargs):
    if not args:
        return MList(it.ctx, PyList([]))
    return MList(it.ctx, as_seq(it, args[0]))


def _tuple(it, args, kwargs):
    if not args:
        return ()
    kind, coll = iter_of(it, args[0])
    if kind == "concrete":
        return tuple(coll)
    return coll      # symbolic-arity tuple == immutable sequence


def _set(it, args, kwargs):
    if not args:
        return MSet(it.ctx, SSet(lambda x: z3.BoolVal(False)))
    a = args[0]
    if is_v(a) or isinstance(a, SMap):
        arr = dict_contents(it, a)
        return MSet(it.ctx, SSet(lambda x: arr[x] != ABSENT))
    if isinstance(a, MSet):
        return MSet(it.ctx, a.set)
    return make_set_from_seq(it, as_seq(it, a))


def _dict(it, args, kwargs):
    if not args:
        return dict(kwargs)
    a = args[0]
    if isinstance(a, dict):
        d = dict(a)
        d.update(kwargs)
        return d
    kind, coll = iter_of(it, a)
    if kind == "concrete":
        d = {}
        for kv in coll:
            k, v = unpack(it, kv, 2)
            d[hashable(it, k)] = v
        d.update(kwargs)
        return d
    raise Unsupported("dict() of symbolic pairs")


def _dict_fromkeys(it, args, kwargs):
    keys = args[0]
    val = args[1] if len(args) > 1 else None
    kind, coll = iter_of(it, keys)
    if kind == "concrete":
        return {hashable(it, k): val for k in coll}
    ks = unstructure(coll)
    q = z3.Int("q!fk")
    first = lambda k: z3.Not(z3.Exists([q], z3.And(0 <= q, q < k, ks.at(q) == ks.at(k))))
    uniq = filter_seq(it.ctx, ks.len, first, lambda k: ks.at(k), ks.sort)
    uniq.keep_symbolic = True
    uniq.first_of = ks
    parts = getattr(coll, "parts", None) or getattr(ks, "parts", None)
    if parts is not None:
        a, b = unstructure(parts[0]), unstructure(parts[1])
        fa = lambda k: z3.Not(z3.Exists([q], z3.And(0 <= q, q < k, a.at(q) == a.at(k))))
        fb = lambda k: z3.And(z3.Not(z3.Exists([q], z3.And(0 <= q, q < zint(a.len), a.at(q) == b.at(k)))),
                              z3.Not(z3.Exists([q], z3.And(0 <= q, q < k, b.at(q) == b.at(k)))))
        from .core import Enum
        Enum.link_split(it.ctx, uniq.enum, a.len, b.len, fa, fb)
    return SymKw(uniq, Seq(uniq.len, lambda j: val, None))


def _any(it, args, kwargs):
    kind, coll = iter_of(it, args[0])
    if kind == "concrete":
        r = False
        for x in coll:
            r = or_(it, r, truth(it, x))
        return r
    j = z3.Int("j!any")
    return z3.Exists([j], z3.And(in_range(j, coll.len), zbool(truth(it, coll.at(j)))))


def _all(it, args, kwargs):
    kind, coll = iter_of(it, args[0])
    if kind == "concrete":
        r = True
        for x in coll:
            r = and_(it, r, truth(it, x))
        return r
    j = z3.Int("j!all")
    return z3.ForAll([j], z3.Implies(in_range(j, coll.len), zbool(truth(it, coll.at(j)))))


def _print(it, args, kwargs):
    it.ctx.printed.append(tuple(args))
    return None


def _hasattr(it, args, kwargs):
    obj, name = args
    if type(obj).__name__ == "NPScalar" and name == "item":
        return obj.has_item()
    try:
        it.getattr(obj, name)
        return True
    except PyRaise as e:
        if e.exc == "AttributeError":
            return False
        raise


def _getattr(it, args, kwargs):
    obj, name = args[0], args[1]
    try:
        return it.getattr(obj, name)
    except PyRaise as e:
        if e.exc == "AttributeError" and len(args) > 2:
            return args[2]
        raise


def _property(it, args, kwargs):
    return PropertyObj(args[0])


def _classmethod(it, args, kwargs):
    return ClassMethodObj(args[0])


def _staticmethod(it, args, kwargs):
    return StaticMethodObj(args[0])


class Sentinel:
    def __init__(self, name):
        self.name = name

    def __repr__(self):
        return f"<class {self.name}>"


def _dir(it, args, kwargs):
    """dir(instance): attribute names of the class hierarchy plus the instance attributes."""
    obj = args[0]
    if not isinstance(obj, Instance):
        raise Unsupported("dir() of non-instance")
    names = set(obj.attrs.keys())
    for c in it.mro(obj.cls):
        if isinstance(c, ClassObj):
            names.update(c.info.methods.keys())
            names.update(c.info.attrs.keys())
            pref = f"_{c.info.name.lstrip('_')}"
            names.update(pref + n for n in list(c.info.methods) + list(c.info.attrs) if n.startswith("__") and not n.endswith("__"))
        elif isinstance(c, TypeObj):
            py = {"dict": dict, "list": list, "object": object}.get(c.name)
            if py is not None:
                names.update(dir(py))
    names.update(dir(object))
    return MList(it.ctx, PyList(sorted(names)))


_pyhash = z3.Function("pyhash", V, INT)


def _hash(it, args, kwargs):
    """hash(x): a function of the value - equal values have equal hashes, nothing more (NOT injective)."""
    return _pyhash(to_v(it, args[0]))


def _type(it, args, kwargs):
    if len(args) == 3:
        return Sentinel(args[0])
    x = args[0]
    if isinstance(x, Instance):
        return x.cls
    if x is None:
        return TypeObj("NoneType")
    raise Unsupported("type()")


def _next(it, args, kwargs):
    x = args[0]
    if hasattr(x, "pyvc_next"):
        return x.pyvc_next(it)
    kind, coll = iter_of(it, x)
    if kind == "concrete":
        if coll:
            return coll[0]
        if len(args) > 1:
            return args[1]
        raise PyRaise("StopIteration", "")
    first = coll[0] if kind == "segments" else coll
    if isinstance(first, list):
        return first[0]
    if it.ctx.branch(zint(first.len) > 0):
        return first.at(0)
    if kind == "segments" and len(coll) > 1:
        raise Unsupported("next() past an empty family")
    if len(args) > 1:
        return args[1]
    raise PyRaise("StopIteration", "")


def _iter(it, args, kwargs):
    return args[0]


def _sorted(it, args, kwargs):
    from . import speclib
    return speclib.py_sorted(it, args, kwargs)


def _attrdict(it, args, kwargs):
    ctx = it.ctx
    if not args:
        return new_adict(it, dict_contents(it, dict(kwargs)))
    src = args[0]
    if is_v(src) or isinstance(src, (SMap, dict)):
        return new_adict(it, dict_contents(it, src))
    raise Unsupported(f"AttributeDict({src!r})")


ATTRDICT = TypeObj("AttributeDict", ctor=_attrdict)
def _dict_type():
    from .models_dict import DICT_BASE_METHODS
    return TypeObj("dict", ctor=_dict, methods={"fromkeys": ModelFn("dict.fromkeys", _dict_fromkeys),
                                                **DICT_BASE_METHODS, **OBJECT_METHODS})


DICT_TYPE = None


def _get_dict_type():
    global DICT_TYPE
    if DICT_TYPE is None:
        DICT_TYPE = _dict_type()
    return DICT_TYPE


def make_builtins(it):
    b = {
        "isinstance": ModelFn("isinstance", _isinstance), "issubclass": ModelFn("issubclass", _issubclass), "callable": ModelFn("callable", _callable),
        "len": ModelFn("len", _len), "min": ModelFn("min", _min), "max": ModelFn("max", _max),
        "range": ModelFn("range", _range), "reversed": ModelFn("reversed", _reversed),
        "enumerate": ModelFn("enumerate", _enumerate), "zip": ModelFn("zip", _zip), "map": ModelFn("map", _map),
        "list": LIST_TYPE, "tuple": TypeObj("tuple", ctor=_tuple), "set": TypeObj("set", ctor=_set),
        "dict": _get_dict_type(), "any": ModelFn("any", _any), "all": ModelFn("all", _all),
        "print": ModelFn("print", _print), "hasattr": ModelFn("hasattr", _hasattr),
        "getattr": ModelFn("getattr", _getattr), "property": ModelFn("property", _property),
        "classmethod": ModelFn("classmethod", _classmethod), "staticmethod": ModelFn("staticmethod", _staticmethod),
        "type": ModelFn("type", _type), "dir": ModelFn("dir", _dir), "hash": ModelFn("hash", _hash), "next": ModelFn("next", _next), "iter": ModelFn("iter", _iter),
        "sorted": ModelFn("sorted", _sorted),
        "slice": TypeObj("slice"), "bytes": TypeObj("bytes"), "int": TypeObj("int"), "str": TypeObj("str", ctor=_str_ctor), "bool": TypeObj("bool"), "float": TypeObj("float"),
        "object": TypeObj("object", methods=dict(OBJECT_METHODS)),
        "True": True, "False": False, "None": None,
        "TypeError": TypeObj("TypeError"), "ValueError": TypeObj("ValueError"),
        "IndexError": TypeObj("IndexError"), "KeyError": TypeObj("KeyError"),
        "AttributeError": TypeObj("AttributeError"), "Exception": TypeObj("Exception"),
        "NotImplementedError": TypeObj("NotImplementedError"), "LookupError": TypeObj("LookupError"),
    }
    return b


def _str_ctor(it, args, kwargs):
    """str(x): concrete for concrete Python values, else an uninterpreted function of the value (equal values have
    equal strings; nothing else is known)."""
    if not args:
        return ""
    x = args[0]
    if isinstance(x, (str, int, bool)) or x is None:
        return str(x)
    f = z3.Function("str_of", V, V)
    return f(to_v(it, x))


# ---------------------------------------------------------------------------------------
# modules
# ---------------------------------------------------------------------------------------
def _wraps(it, args, kwargs):
    wrapped = args[0]

    def deco(it_, a, kw):
        f = a[0]
        if isinstance(f, Closure):
            f.wrapped = wrapped
            f.name_display = getattr(wrapped, "name", None)
        return f
    return ModelFn("functools.wraps(..)", deco)


def _chain(it, args, kwargs):
    if len(args) == 1 and isinstance(args[0], StarSeq):
        raise Unsupported("chain(*symbolic)")
    seqs = [as_seq(it, a) for a in args]
    acc = seqs[0] if seqs else PyList([])
    for s in seqs[1:]:
        acc = seq_concat(acc, s)
    return acc


class Counter:
    def __init__(self, start):
        self.n = start

    def pyvc_next(self, it):
        raise Unsupported("itertools.count state")


def _itemgetter(it, args, kwargs):
    from . import speclib
    return speclib.ItemGetter(it, args)


is_deepcopy = z3.Function("is_deepcopy", V, BOOL)      # ghost predicate: the object is the result of copy.deepcopy


def _deepcopy(it, args, kwargs):
    x = args[0]
    ctx = it.ctx
    if is_v(x):
        # copy.deepcopy of an item dict: fresh dict with equal contents (values are treated as
        # immutable / deep-copied to equal values: assumed)
        r = new_ref(ctx, "dcopy")
        D = heap_D(ctx)
        ctx.assumptions.append(is_deepcopy(r))          # ghost: this object came out of copy.deepcopy (nothing nested in it is shared)
        ctx.assumptions.append(is_adict(r) == is_adict(x))
        ctx.assumptions.append(is_dict(r) == is_dict(x))
        ctx.heap["D"] = z3.Store(D, r, D[x])
        return r
    if isinstance(x, Instance):
        ok, m = it.class_attr(x.cls, "__deepcopy__")
        if ok:
            return it.call(m, [x], {})
    raise Unsupported("deepcopy")


class Partial:
    """functools.partial(func, *args, **kwargs)"""
    def __init__(self, func, args, kwargs):
        self.func, self.args, self.kwargs = func, list(args), dict(kwargs)

    def pyvc_call(self, it, args, kwargs):
        return it.call(self.func, self.args + list(args), {**self.kwargs, **kwargs})


def make_module(it, modname):
    if modname == "functools":
        return ModuleNS("functools", {"wraps": ModelFn("functools.wraps", _wraps),
                                      "partial": ModelFn("functools.partial", lambda it_, a, k: Partial(a[0], a[1:], k)),
                                      "lru_cache": ModelFn("functools.lru_cache", lambda it_, a, k: ModelFn("lru_cache(..)", lambda i2, a2, k2: a2[0]))})
    if modname == "itertools":
        return ModuleNS("itertools", {"chain": ModelFn("itertools.chain", _chain)})
    if modname == "operator":
        return ModuleNS("operator", {"itemgetter": ModelFn("operator.itemgetter", _itemgetter)})
    if modname == "copy":
        return ModuleNS("copy", {"deepcopy": ModelFn("copy.deepcopy", _deepcopy)})
    if modname == "attd":
        return ModuleNS("attd", {"AttributeDict": ATTRDICT})
    if modname == "dataiter":
        return ModuleNS("dataiter", getter=_dataiter_get)
    if modname.startswith("dataiter."):
        return it.repo_module(modname.replace(".", "/") + ".py")
    if modname in ("json", "csv", "pickle", "random", "sys", "codecs", "math", "statistics", "collections",
                   "datetime", "numpy", "numpy.dtypes", "warnings", "numba", "numba.extending", "re"):
        from . import models_lib
        return models_lib.make_module(it, modname)
    raise Unsupported(f"module {modname} not modelled")


def _dataiter_get(it, name):
    if name in ("deco", "util", "dtypes", "vector", "data_frame", "list_of_dicts", "aggregate", "dt", "regex",
                "geojson", "io"):
        return it.repo_module(f"dataiter/{name}.py")
    home = {"ListOfDicts": "list_of_dicts", "DataFrame": "data_frame", "DataFrameColumn": "data_frame",
            "Vector": "vector", "GeoJSON": "geojson"}
    if name in home:
        m = it.repo_module(f"dataiter/{home[name]}.py")
        return it.class_obj(m.classes[name])
    cfg = it.__dict__.setdefault("config", {})
    if name in cfg:
        return cfg[name]
    if name.startswith(("DEFAULT_", "PRINT_")):
        # configuration constants: arbitrary positive ints unless the contract fixes them
        v = it.ctx.fresh("cfg_" + name, INT)
        it.ctx.assume(v >= 1)
        cfg[name] = v
        return v
    if name in ("USE_NUMBA", "USE_NUMBA_CACHE"):
        v = it.ctx.fresh("cfg_" + name, BOOL)
        cfg[name] = v
        return v
    raise Unsupported(f"dataiter.{name}")
