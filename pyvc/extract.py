# -*- coding: utf-8 -*-
"""Mechanical extraction of the functions under contract from the repository's
*current* source text.  Dropped by extraction: docstrings, comments, type
annotations, functools.wraps metadata.  Nothing else is rewritten."""
import ast
import hashlib
import os

REPO = os.environ.get("VERIF_REPO", "/repo")


class ClassInfo:
    def __init__(self, node, module):
        self.node = node
        self.name = node.name
        self.module = module
        self.methods = {}      # name -> [FunctionDef, ...] (property setter shares the name)
        self.attrs = {}        # class-level simple assignments: name -> expr node
        for st in node.body:
            if isinstance(st, ast.FunctionDef):
                self.methods.setdefault(st.name, []).append(st)
            elif isinstance(st, ast.Assign) and len(st.targets) == 1 and isinstance(st.targets[0], ast.Name):
                self.attrs[st.targets[0].id] = st.value
        self.bases = node.bases


def strip_doc(fn):
    if (fn.body and isinstance(fn.body[0], ast.Expr) and isinstance(fn.body[0].value, ast.Constant)
            and isinstance(fn.body[0].value.value, str)):
        fn.body = fn.body[1:] or [ast.Pass()]


class RepoModule:
    _cache = {}

    def __init__(self, relpath, repo=None):
        self.repo = repo or REPO
        self.relpath = relpath
        self.modname = relpath[:-3].replace("/", ".")
        with open(os.path.join(self.repo, relpath), encoding="utf-8") as f:
            self.src = f.read()
        self.tree = ast.parse(self.src)
        self.functions = {}
        self.classes = {}
        self.imports = {}
        self.assigns = {}
        for n in ast.walk(self.tree):
            if isinstance(n, (ast.FunctionDef, ast.ClassDef)):
                strip_doc(n)
        self._scan(self.tree.body)

    def _scan(self, body):
        for st in body:
            if isinstance(st, ast.FunctionDef):
                self.functions[st.name] = st
            elif isinstance(st, ast.ClassDef):
                self.classes[st.name] = ClassInfo(st, self)
            elif isinstance(st, ast.Import):
                for a in st.names:
                    self.imports[a.asname or a.name.split(".")[0]] = ("module", a.name if a.asname else a.name.split(".")[0])
            elif isinstance(st, ast.ImportFrom):
                for a in st.names:
                    self.imports[a.asname or a.name] = ("from", st.module, a.name)
            elif isinstance(st, ast.Assign) and len(st.targets) == 1 and isinstance(st.targets[0], ast.Name):
                self.assigns[st.targets[0].id] = st.value
            elif isinstance(st, ast.Try):
                # aggregate.py: try: from numba import njit ... except: dummy definitions.
                # The 'try' branch is what runs when Numba is in use; both define the same names.
                self._scan(st.body)

    @classmethod
    def load(cls, relpath, repo=None):
        key = (repo or REPO, relpath)
        if key not in cls._cache:
            cls._cache[key] = RepoModule(relpath, repo)
        return cls._cache[key]

    def find(self, qualname):
        """FunctionDef nodes for 'func' or 'Class.method' (a list: property getter/setter)."""
        parts = qualname.split(".")
        if len(parts) == 1:
            return [self.functions[parts[0]]]
        return self.classes[parts[0]].methods[parts[1]]


def source_hash(node):
    return hashlib.sha256(ast.dump(node, include_attributes=False).encode()).hexdigest()[:16]
