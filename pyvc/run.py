# -*- coding: utf-8 -*-
"""Check driver: verify every contract of a property, decide, write evidence.

Exit status: 0 held / 1 violation (a VIOLATION line is printed) / 2 undecided /
3 checker error."""
import argparse
import hashlib
import glob
import importlib
import json
import multiprocessing as mp
import os
import subprocess
import sys
import time

HERE = os.path.dirname(os.path.dirname(os.path.abspath(__file__)))
VENV_PY = "/venv/bin/python"
CONTRACT_MODULES = ["contracts.list_of_dicts", "contracts.io", "contracts.aggregate", "contracts.data_frame",
                    "contracts.vector", "contracts.construct", "contracts.grouping", "contracts.geojson", "contracts.dtregex", "contracts.deco"]


def load_contracts():
    from pyvc.contract import REGISTRY
    for m in CONTRACT_MODULES:
        path = os.path.join(HERE, m.replace(".", "/") + ".py")
        if os.path.exists(path):
            importlib.import_module(m)
    close_over_callees(REGISTRY)
    return REGISTRY


# properties of helper functions that callers only use through a callee contract although the helper has several names
CALLEE_ALIASES = {"Vector.na_dtype": ["Vector.na_value"], "DataFrame.__init__": ["DataFrame.__init__", "DataFrameColumn.__new__"]}
_closed = set()


def close_over_callees(reg):
    """Verification is modular: a caller verified against a callee CONTRACT does not notice a change inside the callee.  So every
    contract that proves a function used as a callee contract elsewhere is also checked under the properties of those callers
    (its `also` list is extended) - transitively."""
    if id(reg) in _closed:
        return
    _closed.add(id(reg))
    by_qual = {}
    for c in reg:
        by_qual.setdefault(c.qualname, []).append(c)
        by_qual.setdefault(c.qualname.split(".")[-1], []).append(c)
    changed = True
    rounds = 0
    while changed and rounds < 5:
        changed = False
        rounds += 1
        for c in reg:
            props = {c.prop} | set(getattr(c, "also", ()) or ())
            for q in list(getattr(c, "callees", None) or {}):
                names = [q] + CALLEE_ALIASES.get(q, [])
                for nm in names:
                    for d in by_qual.get(nm, []):
                        if d is c or d.file != c.file and "." not in nm:
                            continue
                        have = {d.prop} | set(getattr(d, "also", ()) or ())
                        new = props - have
                        if new:
                            d.also = tuple(sorted(set(getattr(d, "also", ()) or ()) | new))
                            changed = True


def _verify_one(idx_repo_timeout):
    idx, repo, timeout_ms = idx_repo_timeout[:3]
    if len(idx_repo_timeout) > 3:
        os.environ["PYVC_INPROC_MS"] = str(idx_repo_timeout[3])
    from pyvc.contract import verify
    reg = load_contracts()
    try:
        return verify(reg[idx], repo=repo, timeout_ms=timeout_ms)
    except BaseException as e:      # pragma: no cover
        from pyvc.contract import FunctionResult
        r = FunctionResult(reg[idx])
        r.status, r.reason = "error", f"{type(e).__name__}: {e}"
        return r


def known_findings():
    path = os.path.join(HERE, "KNOWN_FINDINGS.jsonl")
    out = []
    if os.path.exists(path):
        for line in open(path):
            line = line.strip()
            if line and not line.startswith("#"):
                out.append(json.loads(line))
    return out


def run_bounded(prop, contracts, repo, tier, seed, only=None, replay=None):
    """Run the concrete small-scope drivers (real code under /venv python).  Returns dict
    contract-name -> {evaluations, failures:[...]}.  Labelled bounded; never counted as proved."""
    req = {"repo": repo, "tier": tier, "seed": seed, "contracts": contracts, "replay": replay}
    env = dict(os.environ)
    env["PYTHONPATH"] = repo + os.pathsep + HERE
    env["DATAITER_USE_NUMBA"] = "false"     # the driver process itself; Numba workers are separate processes
    env["PYTHONDONTWRITEBYTECODE"] = "1"
    p = subprocess.run([VENV_PY, "-m", "bounded.driver"], input=json.dumps(req), capture_output=True,
                       text=True, cwd=HERE, env=env, timeout=3600)
    if p.returncode != 0:
        return {"__error__": p.stderr[-3000:]}
    try:
        return json.loads(p.stdout.strip().splitlines()[-1])
    except Exception as e:
        return {"__error__": f"bad driver output: {e}: {p.stdout[-500:]} {p.stderr[-1500:]}"}


def bounded_only_property(prop, tier, seed, repo, t0, args):
    """A property none of whose functions is under a deductive contract: only bounded run-time contracts on the real code.
    Evidence level 'exploration' (never 'proof'); a failing input is a VIOLATION with a replay file."""
    import re
    from pyvc.contract import BOUNDED_ONLY
    names = sorted(BOUNDED_ONLY[prop])
    bounded = run_bounded(prop, names, repo, tier, seed)
    if "__error__" in bounded:
        print("bounded driver error:", bounded["__error__"], file=sys.stderr)
        return 3
    known = [k for k in known_findings() if k.get("property") == prop and k.get("status") == "open"]
    os.makedirs(os.path.join(HERE, "replays", prop), exist_ok=True)
    vio_lines, known_lines = [], []
    evaluations = distinct = 0
    samples = []
    for name in names:
        b = bounded.get(name, {})
        evaluations += b.get("evaluations", 0)
        distinct += b.get("distinct_nontrivial", 0)
        samples += [dict(s_, driver=name) for s_ in b.get("samples", [])[:2]]
        reported = False
        for fl in b.get("failures", []):
            hit = None
            for k in known:
                if k.get("contract") == name and k.get("clause_regex") and re.search(k["clause_regex"], fl.get("clause", "")):
                    hit = k
            if hit is not None:
                if hit["what"] not in known_lines:
                    known_lines.append(hit["what"])
                continue
            if reported:
                continue
            reported = True
            fn = os.path.join("replays", prop, "b" + hid(name, fl.get("clause", "")) + ".json")
            with open(os.path.join(HERE, fn), "w") as f:
                json.dump({"property": prop, "contract": name, "obligation": "bounded-run-time-contract: " + fl.get("clause", ""),
                           "failing_input": fl}, f, indent=1, default=str)
            vio_lines.append(f"VIOLATION property={prop} replay={os.path.join(HERE, fn)}")
        if not b.get("evaluations"):
            print(f"ERROR no evaluations by bounded driver {name}")
            return 3
    wall = time.time() - t0
    ev = {"property_id": prop, "tier": tier, "seed": seed, "level": "exploration",
          "coverage": {"evaluations": evaluations, "distinct_nontrivial": distinct,
                       "rule": "distinct JSON-encoded driver inputs that are not the empty collection (counted per driver, summed)",
                       "samples": samples or [{"note": "no samples"}],
                       "bounded_only_no_deductive_contract": BOUNDED_ONLY[prop],
                       "drivers": {n: {k_: v_ for k_, v_ in bounded.get(n, {}).items() if k_ not in ("failures", "samples")} for n in names},
                       "explanation": "no function of this property is under a deductive contract (see DESIGN.md): bounded run-time contracts on the real "
                                      "code only - a stand-in, labelled bounded, never counted as proved",
                       "exhaustive": False},
          "assumptions": ["the stated bounds of the drivers; Python / NumPy / json of the installed versions"],
          "wall_s": round(wall, 2), "violations": len(vio_lines)}
    evdir = "evidence" if os.path.realpath(repo) == "/repo" else os.path.join("replays", "scratch-evidence")
    os.makedirs(os.path.join(HERE, evdir), exist_ok=True)
    with open(os.path.join(HERE, evdir, f"{prop}.json"), "w") as f:
        json.dump(ev, f, indent=1, default=str)
    for w in known_lines:
        print(f"KNOWN-FINDING: property={prop} {w}")
    print(f"{prop}: bounded only: {evaluations} evaluations over {len(names)} drivers ({distinct} distinct non-trivial inputs); "
          f"{len(vio_lines)} violations; {wall:.1f}s")
    for l in vio_lines:
        print(l)
    return 1 if vio_lines else 0


def main(argv=None):
    ap = argparse.ArgumentParser()
    ap.add_argument("prop")
    ap.add_argument("--tier", default=os.environ.get("VERIF_TIER", "quick"), choices=["quick", "thorough"])
    ap.add_argument("--replay", default=None)
    ap.add_argument("--jobs", type=int, default=min(16, os.cpu_count() or 4))
    ap.add_argument("-v", action="store_true")
    args = ap.parse_args(argv)
    prop = args.prop
    tier = args.tier
    seed = int(os.environ.get("VERIF_SEED", "0") or 0)
    repo = os.environ.get("VERIF_REPO", "/repo")
    t0 = time.time()
    os.environ["PYVC_PROP"] = prop
    sys.path.insert(0, HERE)
    reg = load_contracts()
    mine = [(i, c) for i, c in enumerate(reg) if c.prop == prop or prop in getattr(c, "also", ())]

    if args.replay:
        rp = json.load(open(args.replay))
        res = run_bounded(prop, [rp["contract"]], repo, tier, seed, replay=rp)
        if "__error__" in res:
            print(res["__error__"])
            return 3
        fails = res.get(rp["contract"], {}).get("failures", [])
        if fails:
            print(f"VIOLATION property={prop} replay={args.replay}")
            print(json.dumps(fails[0])[:2000])
            return 1
        print("replay: input no longer fails")
        return 0

    if not mine:
        from pyvc.contract import BOUNDED_ONLY
        if BOUNDED_ONLY.get(prop):
            return bounded_only_property(prop, tier, seed, repo, t0, args)
        print(f"no contracts registered for {prop}")
        return 3
    timeout_ms = 10000 if tier == "quick" else 60000
    with mp.Pool(min(args.jobs, len(mine))) as pool:
        asyncs = [(c, pool.apply_async(_verify_one, ((i, repo, timeout_ms),))) for i, c in mine]
        results = []
        for c, a in asyncs:
            try:
                results.append(a.get(timeout=600 if tier == "quick" else 3600))
            except mp.TimeoutError:
                from pyvc.contract import FunctionResult
                r = FunctionResult(c)
                r.status, r.reason = "undecided", "verification timed out"
                results.append(r)

    # ---- retry: an 'unknown' may be an artefact of solver budgets under load (16 workers + CLI solvers);
    # contracts with unknown obligations are verified once more, one at a time, with a doubled budget
    retry = [k for k, r in enumerate(results) if any(o["status"] == "unknown" for o in r.obligations)]
    if retry and len(retry) <= 12:
        with mp.Pool(2) as pool:
            # retry: doubled CLI budget and a 4x in-process budget (an obligation the in-process solver normally discharges in
            # milliseconds can exceed 2 s when all cores are busy)
            redo = [(k, pool.apply_async(_verify_one, ((mine[k][0], repo, timeout_ms * 2, 8000),))) for k in retry]
            for k, a in redo:
                try:
                    r2 = a.get(timeout=1200)
                except mp.TimeoutError:
                    continue
                bad_old = sum(1 for o in results[k].obligations if o["status"] != "unsat")
                bad_new = sum(1 for o in r2.obligations if o["status"] != "unsat")
                if r2.status == "ok" and bad_new < bad_old:
                    results[k] = r2

    # ---- decide ----------------------------------------------------------------------------
    known = [k for k in known_findings() if k.get("property") == prop and k.get("status") == "open"]
    obligations = discharged = 0
    failing = []          # (result, obligation)
    undecided = []
    errors = []
    for r in results:
        if r.status == "error":
            errors.append(r)
        elif r.status == "undecided":
            undecided.append((r, None))
        for o in r.obligations:
            obligations += 1
            if o["status"] == "unsat":
                discharged += 1
            else:
                failing.append((r, o))

    # bounded drivers: always in thorough tier; in quick tier only for contracts with open obligations
    need = sorted({r.contract for r, o in failing} | {r.contract for r, _ in undecided}
                  | {c.name() for _, c in mine if getattr(c, "always_bounded", False)})
    # every bounded run-time contract of the property runs in BOTH tiers (quick: small scope, ~1-30 s per property; thorough:
    # larger scope): the concrete clause of a driver may say more than the contract proves (CPython cross-check), and a quick
    # check that skips it is blind there
    bounded_targets = [c.name() for _, c in mine]
    from pyvc.contract import BOUNDED_ONLY
    bounded_only_names = sorted(BOUNDED_ONLY.get(prop, {}))
    bounded_targets = list(bounded_targets) + [n for n in bounded_only_names if n not in bounded_targets]
    bounded = {}
    if bounded_targets:
        bounded = run_bounded(prop, bounded_targets, repo, tier, seed)
        if "__error__" in bounded:
            print("bounded driver error:", bounded["__error__"], file=sys.stderr)
            errors.append(None)
            bounded = {}

    os.makedirs(os.path.join(HERE, "replays", prop), exist_ok=True)
    violations = []
    known_hits = []
    # failures of bounded run-time contracts that are listed findings (identified by contract + clause pattern)
    import re
    for name, b in bounded.items():
        if name.startswith("__"):
            continue
        rest = []
        for fl in b.get("failures", []):
            hit = None
            for k in known:
                if k.get("contract") == name and k.get("clause_regex") and re.search(k["clause_regex"], fl.get("clause", "")):
                    hit = k
                    break
            if hit is not None:
                known_hits.append((hit, None, {"name": "bounded-run-time-contract", "case": fl.get("clause", "")}))
            else:
                rest.append(fl)
        b["failures"] = rest
    undecided_names = []
    reported = set()

    def match_known(contract, obname, case, witness=None):
        for k in known:
            if k.get("clause_regex"):
                continue        # identifies failures of a bounded run-time contract by clause only (handled above)
            if k.get("contract") == contract and (k.get("obligation") in (None, obname)) and \
                    (k.get("case") in (None, case)):
                return k
        return None

    for r, o in failing:
        b = bounded.get(r.contract, {})
        fails = b.get("failures", [])
        k = match_known(r.contract, o["name"], o["case"])
        if k is not None and (fails or o["status"] == "sat" or k.get("no_witness_needed")):
            known_hits.append((k, r, o))
            continue
        key = (r.contract, o["name"], o["case"])
        if key in reported:
            continue
        reported.add(key)
        if fails:
            violations.append((r, o, fails[0]))
        elif o["status"] == "sat":
            violations.append((r, o, None))
        else:
            undecided_names.append(f"{r.contract}::{o['name']}[{o['case']}] ({o['status']}: {o['detail'][:80]})")
    for r, _ in undecided:
        b = bounded.get(r.contract, {})
        fails = b.get("failures", [])
        k = match_known(r.contract, None, None)
        if fails and k is None:
            violations.append((r, {"name": "bounded-run-time-contract", "case": "", "status": "n/a",
                                   "detail": r.reason}, fails[0]))
        elif k is not None and fails:
            known_hits.append((k, r, {"name": "bounded-run-time-contract", "case": ""}))
        else:
            undecided_names.append(f"{r.contract}: {r.reason[:200]}")
    # cross-check: CPython falsifies something the prover discharged => engine/contract bug
    engine_bugs = []
    for name, b in bounded.items():
        if name.startswith("__"):
            continue
        if b.get("failures"):
            if not any(r.contract == name for r, o in failing) and not any(r.contract == name for r, _ in undecided):
                k = match_known(name, None, None)
                if k is None:
                    engine_bugs.append((name, b["failures"][0]))

    vio_lines = []
    for r, o, fail in violations:
        fn = os.path.join("replays", prop, hid(r.contract, o["name"], o["case"]) + ".json")
        rp = {"property": prop, "contract": r.contract, "obligation": o["name"], "case": o["case"],
              "source_hash": r.source_hash, "solver_status": o["status"], "solver_output": o["detail"],
              "failing_input": fail}
        with open(os.path.join(HERE, fn), "w") as f:
            json.dump(rp, f, indent=1, default=str)
        line = f"VIOLATION property={prop} replay={os.path.join(HERE, fn)}"
        if fail is None:
            line += " no-failing-input-found"
        vio_lines.append(line)
    for name, fail in engine_bugs:
        fn = os.path.join("replays", prop, "x" + hid(name) + ".json")
        rp = {"property": prop, "contract": name, "obligation": "bounded-run-time-contract (prover discharged all "
              "obligations of this contract but the real code falsifies its concrete clause)", "failing_input": fail}
        with open(os.path.join(HERE, fn), "w") as f:
            json.dump(rp, f, indent=1, default=str)
        vio_lines.append(f"VIOLATION property={prop} replay={os.path.join(HERE, fn)}")

    printed_known = set()
    for k, r, o in known_hits:
        if k["what"] not in printed_known:
            printed_known.add(k["what"])
            print(f"KNOWN-FINDING: property={prop} {k['what']}")

    # ---- evidence --------------------------------------------------------------------------------
    wall = time.time() - t0
    trusted = sorted({m for r in results for m in r.used_models})
    for m in trusted:
        if m.startswith("PREMISE LOST"):
            print("PREMISE-LOST property=" + prop + " " + m[len("PREMISE LOST "):])
    bounded_summary = {n: {kk: vv for kk, vv in b.items() if kk != "failures"} | {"failures": len(b.get("failures", []))}
                       for n, b in bounded.items() if not n.startswith("__")}
    backends = {}
    for r in results:
        for o in r.obligations:
            if o["status"] == "unsat":
                backends[o.get("backend", "?")] = backends.get(o.get("backend", "?"), 0) + 1
    samples = []
    for r in results[:6]:
        for o in r.obligations[:3]:
            samples.append({"contract": r.contract, "obligation": o["name"], "case": o["case"], "path": o["path"],
                            "status": o["status"], "solver_s": o["time"], "backend": o.get("backend")})
    ev = {
        "property_id": prop, "tier": tier, "seed": seed, "level": "proof",
        "coverage": {
            "obligations": obligations - sum(1 for k_, r_, o_ in known_hits if r_ is not None), "discharged": discharged,
            "known_finding_bounded_failures": sum(1 for k_, r_, o_ in known_hits if r_ is None),
            "obligations_including_known_findings": obligations,
            "explanation": "obligations = proof obligations generated from /repo's current source that are expected to hold; "
                           "obligations failing for a defect listed in KNOWN_FINDINGS.jsonl are counted separately under "
                           "known_finding_obligations and are not discharged",
            "checker_cmd": f"./check {prop} --tier {tier}  (pyvc: ast->z3 VC generator over /repo's current source; z3 {z3_version()})",
            "trusted_base": trusted + ASSUMED_SEMANTICS,
            "functions_under_contract": [{"contract": r.contract, "source_hash": r.source_hash, "paths": r.paths,
                                          "obligations": len(r.obligations),
                                          "discharged": sum(1 for o in r.obligations if o["status"] == "unsat"),
                                          "status": r.status, "reason": r.reason[:300], "solver_s": round(r.solver_time, 2)}
                                         for r in results],
            "known_finding_obligations": sum(1 for k_, r_, o_ in known_hits if r_ is not None),
            "undecided": undecided_names,
            "bounded_stand_ins": bounded_summary,
            "bounded_only_no_deductive_contract": BOUNDED_ONLY.get(prop, {}),
            "samples": samples,
            "backends": backends,
            "solver_s": round(sum(r.solver_time for r in results), 2),
        },
        "assumptions": ASSUMED_SEMANTICS + trusted,
        "wall_s": round(wall, 2),
        "violations": len(vio_lines),
    }
    # evidence of runs against a scratch copy (mutation / seeded-change experiments) must not replace the evidence
    # of the real tree
    evdir = "evidence" if os.path.realpath(repo) == "/repo" else os.path.join("replays", "scratch-evidence")
    os.makedirs(os.path.join(HERE, evdir), exist_ok=True)
    with open(os.path.join(HERE, evdir, f"{prop}.json"), "w") as f:
        json.dump(ev, f, indent=1, default=str)

    if args.v or vio_lines or undecided_names or errors:
        for r in results:
            print(f"# {r.contract}: {r.status} {r.reason[:300]} paths={r.paths} wall={r.wall:.1f}s")
            for o in r.obligations:
                if o["status"] != "unsat" or args.v:
                    print(f"#    {o['status']:7s} {o['name']} [{o['case']}] path={o['path']} {o['time']}s {o['detail'][:160]}")
    print(f"{prop}: {discharged}/{obligations} obligations discharged over {len(results)} contracts; "
          f"{len(known_hits)} known-finding obligations/failures; {len(undecided_names)} undecided; "
          f"{len(vio_lines)} violations; {wall:.1f}s")
    if errors:
        for r in errors:
            if r is not None:
                print(f"ERROR {r.contract}: {r.reason}")
    if vio_lines:
        # a violation (failed obligation with the failing input replayed on the real code) stands whatever else happened:
        # an engine error on another contract of the same run does not hide it
        for l in vio_lines:
            print(l)
        return 1
    if errors:
        return 3
    if undecided_names:
        for u in undecided_names:
            print("UNDECIDED", u)
        return 2
    if obligations == 0:
        print("no obligations generated (vacuous)")
        return 3
    return 0


ASSUMED_SEMANTICS = [
    "Python ints are mathematical integers",
    "dict preserves insertion order; dict comprehension / update = sequential assignment (last write wins)",
    "== on opaque values is an equivalence consistent with hash (NaN/NaT excluded where stated)",
    "generators are consumed to exhaustion before control returns to the decorator wrapper (eager evaluation)",
    "user callbacks are pure and deterministic functions of their argument and of the item contents",
    "extraction drops docstrings, comments, annotations and functools.wraps metadata only",
]


def hid(*parts):
    return hashlib.sha256(repr(parts).encode()).hexdigest()[:10]


def z3_version():
    try:
        import z3
        return z3.get_version_string()
    except Exception:
        return "?"


if __name__ == "__main__":
    sys.exit(main())
