# -*- coding: utf-8 -*-
"""Modelled third-party / stdlib modules other than the core builtins."""
import z3
from .core import INT, BOOL, V, NONE, Unsupported, PyRaise
from .interp import ModelFn, ModuleNS, TypeObj
from . import models as M


def make_module(it, modname):
    if modname == "numpy":
        from .models_np import make_np
        return make_np(it)
    if modname == "numpy.dtypes":
        from .models_np import DType

        def string_dtype(it_, args, kwargs):
            d = DType("string", "string")
            d.na_object = kwargs.get("na_object", None)
            return d
        return ModuleNS("numpy.dtypes", {"StringDType": TypeObj("StringDType", ctor=string_dtype)})
    if modname == "numba":
        ident = ModelFn("numba.njit(..)", lambda i, a, k: a[0])
        return ModuleNS("numba", {"njit": ModelFn("numba.njit", lambda i, a, k: ident if not a else a[0]),
                                  "types": ModuleNS("numba.types", {n: TypeObj("numba." + n) for n in
                                                                    ("Float", "NPDatetime", "NPTimedelta", "UnicodeType", "Integer", "Boolean")})})
    if modname == "numba.extending":
        return ModuleNS("numba.extending", {"overload": ModelFn("numba.extending.overload", lambda i, a, k: ModelFn("overload(..)", lambda i2, a2, k2: a2[0]))})
    if modname == "math":
        return ModuleNS("math", {"inf": INF})
    if modname == "json":
        return ModuleNS("json", {})
    if modname == "datetime":
        return ModuleNS("datetime", {"date": TypeObj("date"), "datetime": TypeObj("datetime"), "timedelta": TypeObj("timedelta")})
    if modname == "re":
        def refn(name):
            def f(it_, args, kwargs):
                # re.<name>(...): an uninterpreted pure function of all its arguments (keywords by name)
                vs = [M.to_v(it_, a) for a in args]
                for k in sorted(kwargs):
                    vs.append(M.mk_tuple(it_.ctx, [M.to_v(it_, k), M.to_v(it_, kwargs[k])]))
                fn = z3.Function(f"re_{name}_{len(args)}_{'_'.join(sorted(kwargs))}", *([V] * len(vs)), V)
                return fn(*vs)
            return ModelFn("re." + name + " [uninterpreted pure function of its arguments]", f)
        return ModuleNS("re", {n: refn(n) for n in ("findall", "fullmatch", "match", "search", "split", "sub", "subn")})
    if modname in ("csv", "pickle", "random", "sys", "codecs", "statistics", "collections", "warnings"):
        return ModuleNS(modname, {"filterwarnings": ModelFn("warnings.filterwarnings", lambda i, a, k: None)})
    raise Unsupported(f"module {modname}")


class _Inf:
    def __repr__(self):
        return "inf"


INF = _Inf()
