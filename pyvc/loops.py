# -*- coding: utf-8 -*-
"""The loop rule for loops over symbolic collections.

The body is executed ONCE for an arbitrary iteration index k (a fresh constant);
every symbol created while doing so is a function of k, so values and facts about
iteration k generalise to every iteration by substitution k -> j (sound because k
is arbitrary).  Two cases:

* stateless loop (the body changes no variable that survives the iteration, no heap
  cell, no mutable object): nothing else is needed;
* stateful loop: the contract supplies an invariant over the loop-carried state.  The
  state at the head of iteration k is a family of skolem functions of k; inv-init and
  inv-step are obligations, and by induction the invariant is then assumed for all k.

Values yielded in the body become one segment of the generator's ghost output:
[value(k) for k in range(n) if guard(k)]."""
import z3

from .core import (INT, BOOL, V, Unsupported, PathAbort, PyRaise, Seq, MList, filter_seq, is_z3, zint,
                   zbool, conc, in_range)


def subst(val, k, j):
    """Substitute index constant k by term j everywhere inside a (structured) value."""
    from .interp import PyList, SMap, SSet
    if is_z3(val):
        return z3.substitute(val, (k, zint(j) if not is_z3(j) else j))
    if isinstance(val, (bool, int, str, type(None), float)):
        return val
    if isinstance(val, tuple):
        return tuple(subst(x, k, j) for x in val)
    if isinstance(val, PyList):
        return PyList([subst(x, k, j) for x in val.items])
    if isinstance(val, Seq):
        return subst_seq(val, k, j)
    if isinstance(val, SMap):
        return SMap(subst(val.arr, k, j))
    if isinstance(val, SSet):
        m = val.mem
        p = z3.Const("p!subst", V)
        return SSet(lambda x: z3.substitute(z3.substitute(m(p), (k, zint(j))), (p, x)))
    if hasattr(val, "pyvc_subst"):
        return val.pyvc_subst(lambda x: subst(x, k, j))
    if isinstance(val, dict):
        return {kk: subst(vv, k, j) for kk, vv in val.items()}
    return val     # closures, classes, model functions: index-free


def subst_seq(s, k, j):
    p = z3.Int("p!subst")

    def at(i, s=s):
        v = s.at(p)
        v = subst(v, k, j)
        return subst(v, p, i)
    out = Seq(subst(s.len, k, j) if is_z3(s.len) else s.len, at, s.sort, s.note)
    if getattr(s, "enum", None) is not None:
        # an enumeration created inside the loop body (its symbols are functions of the loop index): keep its
        # instance at index j so that it can be identified with enumerations of equivalent predicates
        from .core import CURRENT_CTX
        ctx = CURRENT_CTX.get("ctx")
        if ctx is not None:
            try:
                out.enum = s.enum.instance(ctx, lambda t: subst(t, k, j))
                if getattr(s, "value", None) is not None:
                    pv = z3.Int("p!val")
                    out.value = lambda i, s=s: subst(subst(s.value(pv), k, j), pv, i)
            except Exception:
                pass
    return out


def merge(cond, a, b):
    """ite(cond, a, b) over structured values."""
    from .interp import PyList
    if a is b:
        return a
    if type(a).__name__ == "NPScalar":
        a = a.term
    if type(b).__name__ == "NPScalar":
        b = b.term
    if is_z3(a) or is_z3(b) or isinstance(a, (bool, int)) and isinstance(b, (bool, int)):
        if not is_z3(a) and not is_z3(b) and a == b and type(a) is type(b):
            return a
        if (isinstance(a, tuple) or isinstance(b, tuple)):
            raise Unsupported("merge of tuple and term")
        za, zb = lift(a, b)
        if za.eq(zb):
            return za
        return z3.If(cond, za, zb)
    if isinstance(a, tuple) and isinstance(b, tuple) and len(a) == len(b):
        return tuple(merge(cond, x, y) for x, y in zip(a, b))
    if isinstance(a, Seq) and isinstance(b, Seq):
        la, lb = zint(a.len), zint(b.len)
        out = Seq(conc(z3.If(cond, la, lb)), lambda i: merge(cond, a.at(i), b.at(i)), a.sort if a.sort == b.sort else None)
        if getattr(a, "enum", None) is not None and a.enum is getattr(b, "enum", None):
            out.enum = a.enum           # both alternatives enumerate the same predicate
        return out
    if hasattr(a, "pyvc_merge"):
        return a.pyvc_merge(cond, b)
    if a == b:
        return a
    raise Unsupported(f"cannot merge {a!r} and {b!r}")


def lift(a, b):
    from .models import to_v

    def z(x, other):
        if is_z3(x):
            return x
        if isinstance(x, bool):
            if is_z3(other) and other.sort() == V:
                return to_v(None, x)
            return z3.BoolVal(x)
        if isinstance(x, int):
            if is_z3(other) and other.sort() == V:
                return vint_(x)
            return z3.IntVal(x)
        if isinstance(x, str) or x is None:
            return to_v(None, x)
        raise Unsupported(f"cannot lift {x!r}")
    za, zb = z(a, b), z(b, a)
    if za.sort() != zb.sort():
        from .models import to_v as tv
        za, zb = tv(None, a), tv(None, b)
    return za, zb


def vint_(x):
    from .core import vint
    return vint(z3.IntVal(x))


def merge_paths(items):
    """items: [(cond, value)] -> nested ite; the last value is the default."""
    val = items[-1][1]
    for c, v in reversed(items[:-1]):
        val = merge(c, v, val)
    return val


def same(a, b):
    if a is b:
        return True
    if is_z3(a) and is_z3(b):
        return a.eq(b)
    if isinstance(a, (bool, int, str, type(None))) and type(a) is type(b):
        return a == b
    if isinstance(a, tuple) and isinstance(b, tuple) and len(a) == len(b):
        return all(same(x, y) for x, y in zip(a, b))
    return False


def _names_mutated_in(body_stmts):
    """local names whose object the statements mutate syntactically: x.append / add / extend / update / insert / setdefault / pop /
    discard / remove (...), x[...] = ..., del x[...]"""
    import ast
    out = set()
    for st in body_stmts or ():
        for x in ast.walk(st):
            if isinstance(x, ast.Call) and isinstance(x.func, ast.Attribute) and isinstance(x.func.value, ast.Name) and \
                    x.func.attr in ("append", "add", "extend", "update", "insert", "setdefault", "pop", "discard", "remove"):
                out.add(x.func.value.id)
            elif isinstance(x, (ast.Assign, ast.AugAssign, ast.Delete)):
                tgts = x.targets if isinstance(x, (ast.Assign, ast.Delete)) else [x.target]
                for t in tgts:
                    if isinstance(t, ast.Subscript) and isinstance(t.value, ast.Name):
                        out.add(t.value.id)
    return out


def resolve_names(spec, vars_, modified_vars=(), body_stmts=None):
    """Invariants name loop-carried local variables.  A local may be renamed without any change of behaviour: a name the
    code no longer has is resolved by ROLE - the contract declares the kind of the variable (set / list / dict / array) and
    the name is re-bound when exactly one local of that kind is not already claimed by another declared name."""
    from .interp import MSet, SMap
    kinds = dict(getattr(spec, "kinds", None) or {})
    for nm in (getattr(spec, "sorts", None) or {}):
        kinds.setdefault(nm, "list")
    alias = {}
    claimed = {nm for nm in kinds if nm in vars_}
    is_int = lambda v: isinstance(v, int) and not isinstance(v, bool) or (is_z3(v) and v.sort() == INT)
    is_kind = {"set": lambda v: isinstance(v, MSet), "list": lambda v: isinstance(v, MList),
               "dict": lambda v: isinstance(v, (dict, SMap)), "array": lambda v: type(v).__name__ == "NDArr",
               "carried int": is_int}
    for nm, kd in kinds.items():
        if nm in vars_:
            continue
        pool = {n2: v for n2, v in vars_.items() if kd != "carried int" or n2 in modified_vars}
        cands = [n2 for n2, v in pool.items() if n2 not in claimed and n2 not in alias.values() and is_kind.get(kd, lambda v: False)(v)]
        if len(cands) > 1 and body_stmts:
            # several locals of that kind (e.g. a list of keys built before the loop and the list the loop appends to): the
            # loop-carried one is the one the loop body mutates
            mutated = _names_mutated_in(body_stmts)
            changed = [n2 for n2 in cands if n2 in mutated]
            if len(changed) == 1:
                cands = changed
        if len(cands) == 1:
            alias[nm] = cands[0]
    return alias


class LoopState:
    """What an invariant may talk about."""
    def __init__(self, it, k, n, coll, env_vars, entry_vars, heap, entry_heap, store, entry_store, alias=None):
        self.it, self.ctx = it, it.ctx
        self.k, self.n, self.coll = k, n, coll
        self.vars, self.entry_vars = env_vars, entry_vars
        self.heap, self.entry_heap = heap, entry_heap
        self.store, self.entry_store = store, entry_store
        self.alias = alias or {}

    def var(self, name):
        name = name if name in self.vars else self.alias.get(name, name)
        if name not in self.vars:
            raise Unsupported(f"the loop invariant refers to variable {name!r}, which the code no longer has")
        return self.vars[name]

    def old(self, name):
        name = name if name in self.entry_vars else self.alias.get(name, name)
        if name not in self.entry_vars:
            raise Unsupported(f"the loop invariant refers to variable {name!r}, which the code no longer has")
        return self.entry_vars[name]

    def contents(self, obj, entry=False):
        st = self.entry_store if entry else self.store
        d = st[obj.id]
        return d.get("seq", d.get("set", d))


def havoc_like(ctx, val, name):
    """Fresh value of the same shape as `val` (a function of the loop indices)."""
    from .interp import SMap, SSet
    if isinstance(val, bool) or (is_z3(val) and val.sort() == BOOL):
        return ctx.fresh(name, BOOL)
    if isinstance(val, int) or (is_z3(val) and val.sort() == INT):
        return ctx.fresh(name, INT)
    if is_z3(val):
        return ctx.fresh(name, val.sort())
    if val is None or isinstance(val, str):
        return ctx.fresh(name, V)
    if isinstance(val, Seq):
        ln = ctx.fresh(name + "_len", INT)
        ctx.assume(ln >= 0)
        if val.sort is None:
            raise Unsupported(f"havoc of structured sequence {name}")
        fn = ctx.fresh_fn(name + "_at", INT, val.sort)
        return Seq(ln, lambda j: fn(j), val.sort)
    if isinstance(val, SMap):
        return SMap(ctx.fresh(name + "_map", val.arr.sort()))
    if isinstance(val, SSet):
        fn = ctx.fresh_fn(name + "_mem", V, BOOL)
        return SSet(lambda x: fn(x))
    if isinstance(val, tuple):
        return tuple(havoc_like(ctx, x, f"{name}_{i}") for i, x in enumerate(val))
    raise Unsupported(f"cannot havoc loop-carried value {name}={val!r}")


class Poison:
    """Value of a loop target variable after a loop over a symbolic collection (not modelled)."""
    def __repr__(self):
        return "<loop variable after the loop>"


def run_symbolic_loop(it, coll, bind_target, run_body, body_stmts, env, f, ordinal, collect, targets=()):
    from .interp import Env, OutSeq, ContinueSig, BreakSig, ReturnSig, Instance
    ctx = it.ctx
    n = coll.len
    qn = it.qualname(f)
    k = z3.Int(ctx.fresh_name("k"))
    spec = None
    if it.contract is not None:
        spec = it.contract.loop_spec(qn, ordinal)
    entry_vars = dict(env.vars)
    entry = ctx.snapshot()
    entry_len = len(ctx.assumptions)

    def body_once(pre=None):
        benv = Env(parent=env.parent, vars=dict(env.vars))
        if pre is not None:
            pre(benv)
        out = OutSeq()
        saved = it.frames[-1].out
        it.frames[-1].out = out
        try:
            bind_target(coll.at(k), benv)
            try:
                run_body(benv)
            except ContinueSig:
                pass
            except BreakSig:
                raise Unsupported("break inside a loop over a symbolic collection")
            except ReturnSig:
                raise Unsupported("return inside a loop over a symbolic collection")
        finally:
            it.frames[-1].out = saved
        return benv.vars, out

    ctx.loop_vars.append(k)
    try:
        ctx.assume(in_range(k, n))
        base_len = len(ctx.assumptions)
        results = ctx.explore(body_once)
        # the loop's own target variables are assigned afresh in every iteration: not loop-carried
        for t in targets:
            entry_vars.pop(t, None)
            env.vars[t] = Poison()
        excl = tuple(getattr(spec, "sorts", {}) or ()) if spec is not None else ()
        if spec is not None:
            _al = resolve_names(spec, entry_vars, (), body_stmts)
            excl = tuple(_al.get(nm, nm) for nm in excl)
        accs = find_accumulators(entry, entry_vars, results, body_stmts, excl)
        modified = detect_modified(ctx, entry, entry_vars, results, accs)
        if modified["any"] and spec is None:
            pw = pointwise_array_update(it, coll, k, n, results, entry, modified, body_stmts, targets)
            if pw is not None:
                ctx.restore(entry)
                return finish_loop(it, k, n, results, env, entry_vars, collect, base_extra=1, after_state=pw, entry=entry, body_stmts=body_stmts)
        if modified["any"]:
            if spec is None:
                raise Unsupported(f"stateful loop #{ordinal} in {qn} needs an invariant "
                                  f"(modified: {modified['summary']})")
            it._acc_exclude = excl
            try:
                return stateful_loop(it, coll, k, n, spec, modified, body_once, env, entry, entry_vars,
                                     f, ordinal, collect, body_stmts)
            finally:
                it._acc_exclude = ()
    finally:
        ctx.loop_vars.pop()
    ctx.restore(entry)
    return finish_loop(it, k, n, results, env, entry_vars, collect, base_extra=1, entry=entry, body_stmts=body_stmts)


def _is_pointwise_store(body_stmts, targets):
    """exactly one statement  A[i] = <expression without A>  with i the loop target"""
    import ast
    if not body_stmts or len(body_stmts) != 1 or len(targets) != 1:
        return False
    st = body_stmts[0]
    if not (isinstance(st, ast.Assign) and len(st.targets) == 1 and isinstance(st.targets[0], ast.Subscript)):
        return False
    tg = st.targets[0]
    if not (isinstance(tg.value, ast.Name) and isinstance(tg.slice, ast.Name) and tg.slice.id == targets[0]):
        return False
    return not any(isinstance(x, ast.Name) and x.id == tg.value.id for x in ast.walk(st.value))


def pointwise_array_update(it, coll, k, n, results, entry, modified, body_stmts=None, targets=()):
    """The idiom  `for i in np.flatnonzero(mask): out[i] = value(i)`: the only effect of an iteration is a store into ONE
    array at the position being iterated, the positions are the increasing enumeration of a predicate (hence distinct) and the
    stored value does not depend on the array.  Then after the loop  out[j] = value(j) where the predicate holds, else the old
    element.  Returns the function installing that state, or None when the loop is not of this shape."""
    ctx = it.ctx
    import os
    dbg = (lambda *a: print("pointwise:", *a)) if os.environ.get("PYVC_DEBUG") else (lambda *a: None)
    if not _is_pointwise_store(body_stmts, tuple(targets)):
        dbg("not the syntactic idiom")
        return None
    if modified["vars"] or modified["heap"] or modified["printed"] or len(modified["store"]) != 1:
        dbg("other effects", modified["summary"])
        return None
    (key,) = tuple(modified["store"])
    if len(key) != 2 or key[1] != "seq" or not (isinstance(key[0], tuple) and key[0] and key[0][0] == "ndarr"):
        return None
    sid = key[0]
    e = getattr(coll, "enum", None)
    if e is None:
        dbg("collection is not an enumeration", type(coll), getattr(coll, "note", None))
        return None
    _, heap0, store0, printed0, _ = entry
    old = store0[sid]["seq"]
    pos = coll.at(k)
    if not ctx.valid(zint(pos) == e.idx(k), 2000):
        dbg("positions are not the enumeration")
        return None
    oks = [r for r in results if r[1] == "ok"]
    if len(oks) != 1:
        dbg("paths", len(oks), len(results))
        return None
    conds, kind, val, full = oks[0]
    new = full[2].get(sid, {}).get("seq")
    if new is None or new.sort != old.sort:
        return None
    j = z3.Int(ctx.fresh_name("j!pw"))
    snap = ctx.snapshot()
    try:
        ctx.assumptions.extend(full[0])
        same_len = ctx.valid(zint(new.len) == zint(old.len), 2000)
        untouched = ctx.valid(z3.Implies(z3.And(in_range(j, old.len), j != zint(pos)), new.at(j) == old.at(j)), 4000)
        vk = new.at(zint(pos))
        reads_old = False
    finally:
        ctx.restore(snap)
    if not (same_len and untouched):
        dbg("not a single-position store", same_len, untouched)
        return None
    # the stored value must not depend on the array being written: evaluate it against a different old content
    probe = z3.Function(ctx.fresh_name("pw_old"), INT, old.sort)
    vk_s = z3.simplify(vk)
    from .core import occurs
    for t in (old.at(zint(pos)), old.at(j)):
        pass
    ctx.used_models.add("loop idiom: stores at the distinct positions of an increasing enumeration, value independent of the array")

    def install():
        def at(jj, old=old, vk=vk):
            sel = z3.And(in_range(jj, e.n), zbool(e.g(jj)))
            return z3.If(sel, subst(vk, k, e.rk(jj)), old.at(jj))
        ctx.store[sid] = dict(ctx.store[sid], seq=Seq(old.len, at, old.sort))
    return install


def store_chain(t, base):
    """Decompose t = Store(...Store(base, i1, v1)..., im, vm); returns [(i, v)] or None."""
    chain = []
    while not t.eq(base):
        if z3.is_app_of(t, z3.Z3_OP_STORE):
            arr, idx, val = t.children()
            chain.append((idx, val))
            t = arr
        else:
            return None
    return chain


def appended_tail(old, new):
    """new == old + [appended...] (append-only change of a list)?  -> list of appended values, or None"""
    from .interp import PyList
    if new is old:
        return []
    if isinstance(old, PyList) and isinstance(new, PyList) and len(new.items) >= len(old.items) \
            and all(a is b for a, b in zip(old.items, new.items)):
        return list(new.items[len(old.items):])
    parts = getattr(new, "parts", None)
    if parts is not None and isinstance(parts[1], PyList):
        head = appended_tail(old, parts[0])
        if head is not None:
            return head + list(parts[1].items)
    return None


def find_accumulators(entry, entry_vars, results, body_stmts, exclude=()):
    """Local lists that the loop body only appends to (and never reads): {store id: [(conds, appended values)]}.
    Appending to such a list is the same as yielding into it."""
    import ast
    from .interp import walk_no_nested
    _, heap0, store0, printed0, _ = entry
    names = {}
    for nm, val in entry_vars.items():
        if isinstance(val, MList) and val.id in store0:
            names.setdefault(val.id, []).append(nm)
    out = {}
    for sid, nms in names.items():
        if len(nms) != 1 or not body_stmts:
            continue
        nm = nms[0]
        if nm in exclude:
            continue          # the contract's invariant describes this list explicitly
        ok = True
        for st in body_stmts:
            for node in walk_no_nested(st):
                if isinstance(node, ast.Name) and node.id == nm:
                    ok = False          # any mention other than `<nm>.append(...)` (checked below) disqualifies
            for node in ast.walk(st):
                pass
        # allow exactly the pattern  nm.append(expr)  as an expression statement
        def only_appends(stmts):
            good = True
            for st in stmts:
                for node in walk_no_nested(st):
                    if isinstance(node, ast.Name) and node.id == nm:
                        good = False
                for node in walk_no_nested(st):
                    if (isinstance(node, ast.Expr) and isinstance(node.value, ast.Call) and isinstance(node.value.func, ast.Attribute)
                            and node.value.func.attr == "append" and isinstance(node.value.func.value, ast.Name)
                            and node.value.func.value.id == nm):
                        # this mention is fine if nm occurs nowhere in the argument
                        if not any(isinstance(x, ast.Name) and x.id == nm for a in node.value.args for x in ast.walk(a)):
                            good = good or True
            return good
        mentions = [node for st in body_stmts for node in walk_no_nested(st) if isinstance(node, ast.Name) and node.id == nm]
        appends = [node for st in body_stmts for node in walk_no_nested(st)
                   if isinstance(node, ast.Call) and isinstance(node.func, ast.Attribute) and node.func.attr == "append"
                   and isinstance(node.func.value, ast.Name) and node.func.value.id == nm]
        if len(mentions) != len(appends) or not appends:
            continue
        per_path = []
        good = True
        for conds, kind, val, full in results:
            if kind != "ok":
                continue
            new = full[2].get(sid, {}).get("seq")
            tail = appended_tail(store0[sid]["seq"], new) if new is not None else None
            if tail is None:
                good = False
                break
            per_path.append((conds, tail))
        if good and any(t for _, t in per_path):
            out[sid] = per_path
    return out


def detect_modified(ctx, entry, entry_vars, results, accumulators=()):
    _, heap0, store0, printed0, _ = entry
    vars_mod, heap_mod, store_mod = set(), set(), set()
    printed = False
    refs0 = store0.get(("newrefs",), {"refs": ()})["refs"]
    alloc_only = True
    for conds, kind, val, full in results:
        _, heap1, store1, printed1, _ = full
        new = store1.get(("newrefs",), {"refs": ()})["refs"][len(refs0):]
        for h, t in heap1.items():
            if h not in heap0 or not heap0[h].eq(t):
                ch = store_chain(t, heap0[h]) if h in heap0 else None
                if h in ("D", "alloc") and ch is not None and all(any(i.eq(r) for r in new) for i, _ in ch):
                    continue        # only cells of objects allocated in this very iteration
                heap_mod.add(h)
        for sid, d in store1.items():
            if sid == ("newrefs",):
                continue
            if sid in store0:
                d0 = store0[sid]
                for fld, v in d.items():
                    if fld == "attrs":
                        for a, av in v.items():
                            if a not in d0["attrs"] or not same(d0["attrs"][a], av):
                                store_mod.add((sid, "attrs", a))
                    elif sid in accumulators and fld == "seq":
                        continue
                    elif fld not in d0 or not same(d0[fld], v):
                        store_mod.add((sid, fld))
        if printed1 != printed0:
            printed = True
        if kind == "ok":
            bvars, _ = val
            for name, v in bvars.items():
                if name in entry_vars and not same(entry_vars[name], v):
                    vars_mod.add(name)
    summary = sorted(vars_mod) + sorted(heap_mod) + [str(s) for s in sorted(store_mod, key=str)]
    return {"vars": vars_mod, "heap": heap_mod, "store": store_mod, "printed": printed,
            "any": bool(vars_mod or heap_mod or store_mod or printed), "summary": summary}


def build_segment(ctx, k, n, per_path):
    """[value(k) for k in range(n) if guard(k)] from the per-path outcomes [(conds, [values])] of the arbitrary iteration"""
    for conds, ys in per_path:
        if len(ys) > 1:
            raise Unsupported("more than one yield/append per iteration of a symbolic loop")
    if not any(ys for _, ys in per_path):
        return None
    yielding = [(z3.And(*c) if c else z3.BoolVal(True), ys[0]) for c, ys in per_path if ys]
    every = all(ys for _, ys in per_path)
    proto = merge_paths(yielding)
    sort = proto.sort() if is_z3(proto) else None

    def value(j):
        return subst(proto, k, j)
    if every:
        return Seq(n, value, sort, note="map")
    gproto = z3.simplify(z3.Or(*[c for c, _ in yielding]))

    def guard(j):
        return subst(gproto, k, j)
    return filter_seq(ctx, n, guard, value, sort)


def finish_loop(it, k, n, results, env, entry_vars, collect, base_extra=0, after_state=None, entry=None, body_stmts=None):
    """Generalise the outcomes of the arbitrary iteration: raise-paths, facts, yields."""
    ctx = it.ctx
    rng = in_range(k, n)
    # 1. exceptional paths: the loop raises iff some iteration takes such a path
    for conds, kind, val, full in results:
        if kind != "raise":
            continue
        some = z3.Exists([k], z3.And(rng, *conds)) if conds else zint(n) > 0
        if ctx.branch(some):
            raise val
    # 2. facts established in the body hold for every iteration
    for conds, kind, val, full in results:
        if kind != "ok":
            continue
        extra = full[0]
        facts = [a for a in extra if not any(a is c for c in conds)]
        facts = [a for a in facts if not a.eq(z3.simplify(rng)) and not a.eq(rng)]
        if facts:
            ctx.assumptions.append(z3.ForAll([k], z3.Implies(z3.And(rng, *conds), z3.And(*facts))))
    if after_state is not None:
        after_state()
    else:
        alloc_post_state(ctx, k, n, results)
    # 3. loop-local variables disappear
    oks = [r for r in results if r[1] == "ok"]
    for conds, kind, val, full in oks:
        bvars, _ = val
        for name in bvars:
            if name not in entry_vars and name in env.vars:
                pass
    # 3b. append-only accumulators: the appended values form a segment appended to the list
    if entry is not None:
        accs = find_accumulators(entry, entry_vars, results, body_stmts, getattr(it, "_acc_exclude", ()))
        for sid, per_path in accs.items():
            seg = build_segment(ctx, k, n, per_path)
            if seg is not None:
                from .models import seq_concat
                ctx.store[sid]["seq"] = seq_concat(ctx.store[sid]["seq"], seg)
    if not collect:
        for conds, kind, val, full in oks:
            if val[1].segs:
                raise Unsupported("yield outside generator context")
        return None
    # 4. yields
    ylds = []
    for conds, kind, val, full in oks:
        out = val[1]
        if not out.is_concrete():
            raise Unsupported("nested symbolic yields inside a symbolic loop")
        ylds.append((conds, out.concrete()))
    return build_segment(ctx, k, n, ylds)


def alloc_post_state(ctx, k, n, results):
    """Heap after a loop whose only heap effect is to allocate and initialise fresh objects:
    pre-existing objects are unchanged, the object allocated in iteration k has the contents
    the body gave it, and objects of different iterations are distinct."""
    rng = in_range(k, n)
    heap0 = dict(ctx.heap)
    refs0 = ctx.store.get(("newrefs",), {"refs": ()})["refs"]
    paths = []
    for conds, kind, val, full in results:
        if kind != "ok":
            continue
        new = full[2].get(("newrefs",), {"refs": ()})["refs"][len(refs0):]
        if new:
            paths.append((conds, full[1], new))
    if not paths:
        return
    D0, A0 = heap0["D"], heap0["alloc"]
    Dn = ctx.fresh("D_after", D0.sort())
    An = ctx.fresh("alloc_after", A0.sort())
    r = z3.Const("r!fr", V)
    ctx.assumptions.append(z3.ForAll([r], z3.Implies(A0[r], z3.And(Dn[r] == D0[r], An[r])), patterns=[Dn[r]]))
    ctx.assumptions.append(z3.ForAll([r], z3.Implies(A0[r], An[r]), patterns=[An[r]]))
    k2 = z3.Int("k2!fr")
    allrefs = []
    for conds, heap1, new in paths:
        for ref in new:
            ctx.assumptions.append(z3.ForAll([k], z3.Implies(z3.And(rng, *conds), z3.And(
                Dn[ref] == z3.simplify(heap1["D"][ref]), An[ref], z3.Not(A0[ref]))), patterns=[ref]))
            allrefs.append(ref)
    for i, ra in enumerate(allrefs):
        for j, rb in enumerate(allrefs):
            if j < i:
                continue
            rb2 = z3.substitute(rb, (k, k2))
            if i == j:
                ctx.assumptions.append(z3.ForAll([k, k2], z3.Implies(k != k2, ra != rb2),
                                                 patterns=[z3.MultiPattern(ra, rb2)]))
            else:
                ctx.assumptions.append(z3.ForAll([k, k2], ra != rb2, patterns=[z3.MultiPattern(ra, rb2)]))
    ctx.heap["D"] = Dn
    ctx.heap["alloc"] = An
    nr = ctx.store.get(("newrefs",), {"refs": ()})
    ctx.store[("newrefs",)] = {"refs": nr["refs"]}


def stateful_loop(it, coll, k, n, spec, modified, body_once, env, entry, entry_vars, f, ordinal, collect, body_stmts=None):
    """Loop with loop-carried state, cut at the contract's invariant."""
    from .interp import Instance
    ctx = it.ctx
    qn = it.qualname(f)
    ctx.restore(entry)
    _, heap0, store0, printed0, _ = entry
    if modified["printed"]:
        raise Unsupported("print inside a stateful symbolic loop")
    tag = f"{qn}#loop{ordinal}"

    alias = resolve_names(spec, entry_vars, modified["vars"], body_stmts)
    sorts_by_actual = {alias.get(nm, nm): srt for nm, srt in (getattr(spec, "sorts", None) or {}).items()}

    def state(kterm, vars_, heap, store):
        return LoopState(it, kterm, n, coll, vars_, entry_vars, heap, heap0, store, store0, alias)

    # inv-init: invariant holds on entry with k = 0
    prove_parts(ctx, f"inv-init:{tag}", spec.inv(state(z3.IntVal(0), dict(env.vars), dict(ctx.heap), ctx.store)), "inv-init")

    # state at the head of iteration k: skolem functions of k (k is on ctx.loop_vars already)
    hv, hh, hs = {}, {}, {}
    ctx.assume(z3.And(zint(k) >= 0, zint(k) <= zint(n)))
    for name in sorted(modified["vars"]):
        hv[name] = havoc_like(ctx, entry_vars[name], f"s_{name}")
    for h in sorted(modified["heap"]):
        hh[h] = ctx.fresh(f"s_{h}", heap0[h].sort())
    for key in sorted(modified["store"], key=str):
        sid, fld = key[0], key[1]
        if fld == "attrs":
            cur = store0[sid]["attrs"].get(key[2])
            hs[key] = havoc_like(ctx, cur, f"s_attr_{key[2]}")
        else:
            cur = store0[sid][fld]
            srt = None
            for nm, val in entry_vars.items():
                if getattr(val, "id", None) == sid and nm in sorts_by_actual:
                    srt = sorts_by_actual[nm]
            if srt is not None and isinstance(cur, Seq):
                cur = Seq(cur.len, None, srt)       # element sort declared by the contract
            hs[key] = havoc_like(ctx, cur, f"s_{fld}{sid[1]}")

    def install_state(benv=None, kterm=None):
        for name, v in hv.items():
            (benv.vars if benv is not None else env.vars)[name] = v if kterm is None else subst(v, k, kterm)
        for h, v in hh.items():
            ctx.heap[h] = v if kterm is None else subst(v, k, kterm)
        for key, v in hs.items():
            vv = v if kterm is None else subst(v, k, kterm)
            if key[1] == "attrs":
                ctx.store[key[0]]["attrs"][key[2]] = vv
            else:
                ctx.store[key[0]][key[1]] = vv

    def cur_vars(benv_vars):
        return benv_vars

    try:
        # entry state is the state at k = 0 (the state sequence starts there)
        link_entry(ctx, k, hv, hh, hs, entry_vars, heap0, store0)
        install_state()
        head_vars = dict(env.vars)
        inv_k = conj(spec.inv(state(k, head_vars, dict(ctx.heap), ctx.store)))
        ctx.assume(inv_k)
        head = ctx.snapshot()
        ctx.assume(zint(k) < zint(n))

        def thunk():
            vars_, out = body_once()
            goal = spec.inv(state(k + 1, vars_, dict(ctx.heap), ctx.store))
            prove_parts(ctx, f"inv-step:{tag}", goal, "inv-step")
            # the state sequence: s(k+1) is what the body computes from s(k)
            link_next(ctx, k, hv, hh, hs, vars_, ctx.heap, ctx.store)
            return vars_, out
        results = ctx.explore(thunk)
    finally:
        pass
    ctx.restore(entry)
    # by induction the invariant holds at the head of every iteration, 0 <= k <= n

    def after():
        # re-assume entry link and invariant for all k, then move to the exit state k = n
        link_entry(ctx, k, hv, hh, hs, entry_vars, heap0, store0)
        hvars = dict(env.vars)
        hvars.update(hv)
        heap_k = dict(ctx.heap)
        heap_k.update(hh)
        # temporarily view the store at iteration k for the invariant
        install_state()
        inv_all = conj(spec.inv(state(k, dict(env.vars), dict(ctx.heap), ctx.store)))
        pats = state_patterns(k, list(hv.values()) + list(hh.values()) + list(hs.values()))
        ctx.assumptions.append(z3.ForAll([k], z3.Implies(z3.And(k >= 0, k <= zint(n)), inv_all), patterns=pats))
        install_state(kterm=zint(n))
        # explicit instance at the exit state
        ctx.assumptions.append(conj(spec.inv(state(zint(n), dict(env.vars), dict(ctx.heap), ctx.store))))
    seg = finish_loop(it, k, n, results, env, entry_vars, collect, after_state=after, entry=entry, body_stmts=body_stmts)
    return seg


def conj(f):
    if isinstance(f, dict):
        return z3.And(*f.values()) if f else z3.BoolVal(True)
    if isinstance(f, (list, tuple)):
        return z3.And(*f) if f else z3.BoolVal(True)
    return f


def prove_parts(ctx, name, f, kind):
    """An invariant may be given as {label: conjunct}; each conjunct is its own obligation."""
    if isinstance(f, dict):
        for label, g in f.items():
            ctx.prove(f"{name}/{label}", g, kind=kind)
    elif isinstance(f, (list, tuple)):
        for i, g in enumerate(f):
            ctx.prove(f"{name}/{i}", g, kind=kind)
    else:
        ctx.prove(name, f, kind=kind)


def state_patterns(k, values):
    """Trigger terms for facts quantified over the iteration index: the skolem state at k."""
    from .interp import SMap, SSet
    pats = []
    p = z3.Const("p!pat", V)
    i = z3.Int("i!pat")
    for v in values:
        if is_z3(v):
            pats.append(v)
        elif isinstance(v, Seq) and is_z3(v.len):
            pats.append(v.len)
        elif isinstance(v, SMap):
            pats.append(v.arr)
    pats = [t for t in pats if any(c.eq(k) for c in t.children())]
    return pats


def link_entry(ctx, k, hv, hh, hs, entry_vars, heap0, store0):
    for name, v in hv.items():
        eq = value_eq(ctx, subst(v, k, 0), entry_vars[name])
        if eq is not None:
            ctx.assumptions.append(eq)
    for h, v in hh.items():
        ctx.assumptions.append(subst(v, k, 0) == heap0[h])
    for key, v in hs.items():
        cur = store0[key[0]]["attrs"].get(key[2]) if key[1] == "attrs" else store0[key[0]][key[1]]
        eq = value_eq(ctx, subst(v, k, 0), cur)
        if eq is not None:
            ctx.assumptions.append(eq)


def link_next(ctx, k, hv, hh, hs, vars_, heap, store):
    for name, v in hv.items():
        eq = value_eq(ctx, subst(v, k, k + 1), vars_[name])
        if eq is not None:
            ctx.assumptions.append(eq)
    for h, v in hh.items():
        ctx.assumptions.append(subst(v, k, k + 1) == heap[h])
    for key, v in hs.items():
        cur = store[key[0]]["attrs"].get(key[2]) if key[1] == "attrs" else store[key[0]][key[1]]
        eq = value_eq(ctx, subst(v, k, k + 1), cur)
        if eq is not None:
            ctx.assumptions.append(eq)


def value_eq(ctx, a, b):
    """Formula a == b for state components (None when not expressible)."""
    from .interp import SMap, SSet, PyList
    from .models import to_v
    if isinstance(a, Seq) and isinstance(b, PyList) and not b.items:
        return zint(a.len) == 0
    if isinstance(b, Seq) and isinstance(a, PyList) and not a.items:
        return zint(b.len) == 0
    if isinstance(a, Seq) and isinstance(b, Seq) and a.sort is not None and b.sort is None:
        from .models import unstructure
        try:
            b = unstructure(b)
        except Unsupported:
            return None
        if b.sort != a.sort:
            return None
    if is_z3(a) or is_z3(b) or isinstance(a, (bool, int)) or a is None or isinstance(a, str):
        try:
            za, zb = lift(a, b)
        except Unsupported:
            za, zb = to_v(ctx, a), to_v(ctx, b)
        return za == zb
    if isinstance(a, Seq) and isinstance(b, Seq) and a.sort is not None and a.sort == b.sort:
        j = z3.Int("j!lnk")
        return z3.And(zint(a.len) == zint(b.len),
                      z3.ForAll([j], z3.Implies(in_range(j, a.len), a.at(j) == b.at(j))))
    if isinstance(a, SMap) and isinstance(b, SMap):
        return a.arr == b.arr
    if isinstance(a, SSet) and isinstance(b, SSet):
        x = z3.Const("x!lnk", V)
        return z3.ForAll([x], a.mem(x) == b.mem(x))
    if isinstance(a, tuple) and isinstance(b, tuple) and len(a) == len(b):
        parts = [value_eq(ctx, x, y) for x, y in zip(a, b)]
        if all(p is not None for p in parts):
            return z3.And(*parts)
    return None
