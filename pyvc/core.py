# -*- coding: utf-8 -*-
"""pyvc core: verification context, path exploration, obligations, value universe.

Runs under python3-vt (z3-solver).  Nothing here imports the repository: the
code under verification is only ever read as text (see extract.py).
"""
import itertools
import time
import z3

INT = z3.IntSort()
BOOL = z3.BoolSort()
V = z3.DeclareSort("V")            # every Python object that is not tracked as int/bool
VARR = z3.ArraySort(V, V)          # contents of a dict: key -> value (ABSENT = no entry)

NONE = z3.Const("None", V)
ABSENT = z3.Const("ABSENT", V)
TRUEV = z3.Const("True_v", V)
FALSEV = z3.Const("False_v", V)

# uninterpreted vocabulary over V ------------------------------------------------
vint = z3.Function("vint", INT, V)        # embedding of ints into V
intof = z3.Function("intof", V, INT)
truthy = z3.Function("truthy", V, BOOL)   # bool(x)
v_lt = z3.Function("v_lt", V, V, BOOL)    # x < y on non-None comparable values
litid = z3.Function("litid", V, INT)      # distinct ids for literal constants
is_adict = z3.Function("is_adict", V, BOOL)   # object is an attd.AttributeDict
is_dict = z3.Function("is_dict", V, BOOL)     # object is a dict (or subclass)
is_str = z3.Function("is_str", V, BOOL)
is_intv = z3.Function("is_intv", V, BOOL)
is_callable = z3.Function("is_callable", V, BOOL)


CURRENT_CTX = {"ctx": None}


class Unsupported(Exception):
    """Construct outside the supported subset -> the function is *undecided*."""


class PathAbort(Exception):
    """Current path is infeasible; stop it silently."""


class PyRaise(Exception):
    """The code under verification raises a Python exception on this path."""
    def __init__(self, exc, msg=""):
        super().__init__(f"{exc}: {msg}")
        self.exc = exc
        self.msg = msg


def is_z3(x):
    return isinstance(x, z3.ExprRef)


def is_sym_bool(x):
    return isinstance(x, z3.BoolRef)


def is_sym_int(x):
    return isinstance(x, z3.ArithRef) and x.sort() == INT


def is_v(x):
    return isinstance(x, z3.ExprRef) and x.sort() == V


def is_intlike(x):
    return (isinstance(x, int) and not isinstance(x, bool)) or is_sym_int(x)


def is_boollike(x):
    return isinstance(x, bool) or is_sym_bool(x)


def zint(x):
    if isinstance(x, bool):
        return z3.IntVal(1 if x else 0)
    if isinstance(x, int):
        return z3.IntVal(x)
    if is_sym_int(x):
        return x
    if is_sym_bool(x):
        return z3.If(x, 1, 0)
    raise Unsupported(f"not an int: {x!r}")


def zbool(x):
    if isinstance(x, bool):
        return z3.BoolVal(x)
    if is_sym_bool(x):
        return x
    raise Unsupported(f"not a bool: {x!r}")


def simp(t):
    return z3.simplify(t) if is_z3(t) else t


def conc(t):
    """Concrete Python value of a z3 term if it simplifies to a literal, else the term."""
    if not is_z3(t):
        return t
    t = z3.simplify(t)
    if z3.is_true(t):
        return True
    if z3.is_false(t):
        return False
    if z3.is_int_value(t):
        return t.as_long()
    return t


class Obligation:
    __slots__ = ("name", "kind", "assumptions", "goal", "status", "detail", "time", "key", "case", "backend")

    def __init__(self, name, kind, assumptions, goal, key, case=None):
        self.name = name
        self.kind = kind
        self.assumptions = assumptions
        self.goal = goal
        self.status = None      # "unsat"(discharged) | "sat" | "unknown"
        self.detail = ""
        self.time = 0.0
        self.key = key
        self.case = case
        self.backend = "trivial"


class Frame:
    __slots__ = ("prefix", "trace", "alts", "conds")

    def __init__(self, prefix):
        self.prefix = list(prefix)
        self.trace = []
        self.alts = []
        self.conds = []


class Ctx:
    """One verification context = one function under contract."""

    def __init__(self, timeout_ms=10000, feas_timeout_ms=1500, max_paths=400):
        self.timeout_ms = timeout_ms
        self.feas_timeout_ms = feas_timeout_ms
        self.max_paths = max_paths
        self.assumptions = []          # path condition + assumed facts, in order
        self.axioms = []               # global facts (literal constants); never retracted
        self.frames = []
        self.obligs = {}               # key -> Obligation
        self.counter = itertools.count()
        self.names = {}
        self.store = {}                # id -> dict of mutable fields of model objects
        self.heap = {}                 # name -> z3 array term (current version)
        self.printed = []              # ghost: strings printed
        self.lits = {}                 # literal constants -> V const
        self.used_models = set()       # names of assumed library contracts used
        self.notes = []
        self.solver_time = 0.0
        self.n_paths = 0
        self.case = None               # current contract case label
        self.cover = {}                # cover name -> reached?
        self.loop_vars = []            # indices of the enclosing symbolic loops
        self.undischarged = 0
        CURRENT_CTX["ctx"] = self
        self._init_axioms()

    # -- symbols ---------------------------------------------------------------
    def fresh_name(self, base):
        n = self.names.get(base, 0)
        self.names[base] = n + 1
        return f"{base}!{n}" if n else base

    def fresh(self, base, sort):
        """Fresh symbol; inside a symbolic loop body it is a function of the loop
        indices, so that facts about it generalise over iterations by substitution."""
        if self.loop_vars:
            f = z3.Function(self.fresh_name(base), *([INT] * len(self.loop_vars)), sort)
            return f(*self.loop_vars)
        return z3.Const(self.fresh_name(base), sort)

    def fresh_fn(self, base, *sorts):
        lv = list(self.loop_vars)
        f = z3.Function(self.fresh_name(base), *([INT] * len(lv)), *sorts)
        if not lv:
            return f
        return lambda *a: f(*lv, *a)

    def lit(self, value):
        """V constant for a Python literal (str / small tokens); distinct per value."""
        key = (type(value).__name__, value)
        if key not in self.lits:
            c = z3.Const(f"lit:{type(value).__name__}:{value!r}", V)
            self.lits[key] = c
            idx = len(self.lits)
            # facts about literal constants are global: they survive path restoration
            self.axioms.append(litid(c) == idx)
            if isinstance(value, str):
                self.axioms.append(is_str(c))
                self.axioms.append(truthy(c) == z3.BoolVal(bool(value)))
        return self.lits[key]

    def _init_axioms(self):
        i = z3.Int("i!ax")
        self.assumptions += [
            litid(NONE) == -1, litid(ABSENT) == -2, litid(TRUEV) == -3, litid(FALSEV) == -4,
            z3.ForAll([i], intof(vint(i)) == i, patterns=[vint(i)]),
            z3.ForAll([i], litid(vint(i)) == -10, patterns=[vint(i)]),
            z3.ForAll([i], is_intv(vint(i)), patterns=[vint(i)]),
            z3.ForAll([i], truthy(vint(i)) == (i != 0), patterns=[vint(i)]),
            z3.Not(truthy(NONE)), truthy(TRUEV), z3.Not(truthy(FALSEV)),
            z3.Not(is_adict(NONE)), z3.Not(is_dict(NONE)), z3.Not(is_str(NONE)),
        ]

    # -- snapshots (for nested exploration) ----------------------------------------
    def snapshot(self):
        return (len(self.assumptions), dict(self.heap), copy_store(self.store), list(self.printed), self.case)

    def restore(self, snap):
        n, heap, store, printed, case = snap
        del self.assumptions[n:]
        self.heap = dict(heap)
        self.store = copy_store(store)
        self.printed = list(printed)
        self.case = case

    # -- assumptions / solving ---------------------------------------------------
    def assume(self, f):
        if isinstance(f, bool):
            if not f:
                raise PathAbort()
            return
        f = z3.simplify(f)
        if z3.is_true(f):
            return
        if z3.is_false(f):
            raise PathAbort()
        self.assumptions.append(f)

    def _check(self, extra, timeout_ms):
        # in-process calls use E-matching only (no model-based instantiation): z3's wall-clock timeout is
        # not reliable inside MBQI, and an in-process hang cannot be killed
        s = z3.SimpleSolver()
        s.set("timeout", int(timeout_ms))
        s.set("smt.mbqi", False)
        s.add(*self.axioms)
        s.add(*self.assumptions)
        s.add(*extra)
        t0 = time.time()
        r = s.check()
        self.solver_time += time.time() - t0
        return r, s

    def feasible(self, cond):
        """Over-approximate satisfiability.  Quantified assumptions are used by E-matching
        only (mbqi off): z3 then answers unsat or unknown quickly instead of searching for a
        model of the quantified axioms; unknown counts as feasible.  An infeasible path that
        is explored anyway only yields obligations that hold vacuously."""
        s = z3.SimpleSolver()
        s.set("timeout", int(self.feas_timeout_ms))
        s.set("smt.mbqi", False)
        s.add(*self.axioms)
        s.add(*self.assumptions)
        s.add(cond)
        t0 = time.time()
        r = s.check()
        self.solver_time += time.time() - t0
        return r != z3.unsat

    def valid(self, cond, timeout_ms=None):
        """True iff assumptions entail cond (quick check, used by models for case splits)."""
        if isinstance(cond, bool):
            return cond
        c = z3.simplify(cond)
        if z3.is_true(c):
            return True
        if z3.is_false(c):
            return False
        r, _ = self._check([z3.Not(c)], timeout_ms or self.feas_timeout_ms)
        return r == z3.unsat

    def branch(self, cond):
        """Fork on a symbolic condition; returns the Python bool taken on this path."""
        if isinstance(cond, bool):
            return cond
        cond = z3.simplify(zbool(cond))
        if z3.is_true(cond):
            return True
        if z3.is_false(cond):
            return False
        if not self.frames:
            raise Unsupported("branch outside exploration")
        fr = self.frames[-1]
        pos = len(fr.trace)
        if pos < len(fr.prefix):
            d = fr.prefix[pos]
        else:
            can_t = self.feasible(cond)
            can_f = self.feasible(z3.Not(cond))
            if can_t and can_f:
                d = True
                fr.alts.append(fr.trace + [False])
            elif can_t:
                d = True
            elif can_f:
                d = False
            else:
                raise PathAbort()
        fr.trace.append(d)
        c = cond if d else z3.Not(cond)
        fr.conds.append(c)
        self.assumptions.append(c)
        return d

    def explore(self, thunk):
        """Run thunk() along every feasible path; returns [(conds, kind, value, snapshot)].
        kind in {"ok","raise"}.  The context is restored to its entry state afterwards;
        callers re-install a returned snapshot to continue on one outcome."""
        entry = self.snapshot()
        work = [[]]
        results = []
        npaths = 0
        while work:
            prefix = work.pop()
            self.restore(entry)
            fr = Frame(prefix)
            self.frames.append(fr)
            out = None
            try:
                val = thunk()
                out = ("ok", val)
            except PyRaise as e:
                out = ("raise", e)
            except PathAbort:
                out = None
            finally:
                self.frames.pop()
            work.extend(fr.alts)
            npaths += 1
            if npaths > self.max_paths:
                raise Unsupported("too many paths")
            if out is not None:
                results.append((list(fr.conds), out[0], out[1], self.snapshot_full(entry)))
        self.restore(entry)
        return results

    def snapshot_full(self, entry):
        n = entry[0]
        return (list(self.assumptions[n:]), dict(self.heap), copy_store(self.store), list(self.printed), self.case)

    def install(self, full):
        extra, heap, store, printed, case = full
        self.assumptions.extend(extra)
        self.heap = dict(heap)
        self.store = copy_store(store)
        self.printed = list(printed)
        self.case = case

    # -- obligations ---------------------------------------------------------------
    def path_sig(self):
        return tuple(tuple(f.trace) for f in self.frames)

    def prove(self, name, goal, kind="post"):
        """Record obligation `name` (assumptions |= goal), try to discharge it now,
        then continue under the assumption that it holds."""
        structural = isinstance(goal, bool)
        if structural:
            goal = z3.BoolVal(goal)
        goal_s = z3.simplify(goal)
        cnt = sum(1 for k in self.obligs if k[0] == name and k[1] == self.path_sig())
        key = (name, self.path_sig(), cnt)
        if key not in self.obligs:
            ob = Obligation(name, kind, None, goal, key, self.case)
            self.obligs[key] = ob
            if z3.is_true(goal_s):
                ob.status, ob.detail = "unsat", "trivial"
            else:
                t0 = time.time()
                if structural:
                    # a concrete (Python-level) fact about the execution that is false on this path:
                    # it holds only if the path itself is infeasible
                    r, _s = self._check([], 2000)
                    status, detail, backend = ("unsat", "path infeasible", "z3-api") if r == z3.unsat else \
                        ("sat", "structural clause is false on a path not shown infeasible", "structural")
                else:
                    # once several obligations of this contract are open, the tree is broken (or the contract is):
                    # do not spend the full three-back-end budget on every further one
                    budget = self.timeout_ms if self.undischarged < 6 else 0
                    status, detail, backend = discharge(self.axioms + self.assumptions, goal, budget, name)
                    if status != "unsat":
                        self.undischarged += 1
                ob.time = time.time() - t0
                self.solver_time += ob.time
                ob.status, ob.detail, ob.backend = status, detail, backend
        if not z3.is_true(goal_s) and not z3.is_false(goal_s):
            self.assume(goal)
        return self.obligs[key]

    def covered(self, name):
        self.cover[name] = True


def copy_store(store):
    out = {}
    for k, v in store.items():
        d = dict(v)
        if "attrs" in d:
            d["attrs"] = dict(d["attrs"])
        out[k] = d
    return out


def discharge(assumptions, goal, timeout_ms, name="ob"):
    """Decide assumptions |= goal.  Returns (status, detail, backend) with status in
    unsat (discharged) / sat / unknown.  Order: z3 in-process (short budget), then the
    z3 5.1 command line on the exported SMT-LIB2 text, then cvc5; hard kill on timeout."""
    import os
    import subprocess
    import tempfile
    s = z3.SimpleSolver()
    inproc = int(os.environ.get("PYVC_INPROC_MS", "2000"))      # the retry pass of run.py raises this (machine under load)
    quick = min(inproc, int(timeout_ms)) if timeout_ms > 0 else inproc
    s.set("timeout", quick)
    s.set("smt.mbqi", False)
    s.add(*assumptions)
    s.add(z3.Not(goal))
    r = s.check()
    if r == z3.unsat:
        return "unsat", "", "z3-api"
    if r == z3.sat:
        try:
            return "sat", model_summary(s.model()), "z3-api"
        except Exception as e:     # pragma: no cover
            return "sat", f"(model unavailable: {e})", "z3-api"
    if timeout_ms <= 0:
        return "unknown", "in-process attempt only (budget for this contract used up): " + s.reason_unknown(), "z3-api"
    text = s.to_smt2()
    dump = os.environ.get("PYVC_DUMP")
    d = dump or tempfile.mkdtemp(prefix="pyvc")
    os.makedirs(d, exist_ok=True)
    fn = os.path.join(d, "".join(c if c.isalnum() else "_" for c in name)[:50] + f"_{os.getpid()}_{abs(hash(text)) % 10**6}.smt2")
    with open(fn, "w") as fh:
        fh.write(text)
    detail = s.reason_unknown()
    status, backend = "unknown", "z3-api"
    secs = max(1, int(timeout_ms / 1000))
    try:
        # both command-line back ends run concurrently on the exported text; the first definitive answer wins and the
        # other process is killed (a slow back end no longer delays the other one's proof)
        import time as _time
        procs = []
        # three back ends: z3 with its default configuration, z3 restricted to E-matching (the configuration of the in-process
        # attempt, but with the full budget: an obligation the in-process solver normally discharges within its 2 s can exceed
        # them on a loaded machine), and cvc5
        for cmd, be in ((["z3-new", f"-T:{secs}", fn], "z3-cli"), (["z3-new", "smt.mbqi=false", f"-T:{secs}", fn], "z3-cli-ematching"),
                        (["/usr/bin/cvc5", f"--tlimit={secs * 1000}", fn], "cvc5")):
            try:
                procs.append((be, subprocess.Popen(cmd, stdout=subprocess.PIPE, stderr=subprocess.DEVNULL, text=True)))
            except OSError as e:
                detail += f"; {be}: {e}"
        deadline = _time.time() + secs + 5
        answers = {}
        try:
            while procs and _time.time() < deadline:
                for be, p in list(procs):
                    if p.poll() is None:
                        continue
                    procs.remove((be, p))
                    out = [l.strip() for l in (p.stdout.read() or "").splitlines()]
                    # the verdict is the first line that is one (solvers may print warnings before it)
                    ans = next((l for l in out if l in ("unsat", "sat", "unknown", "timeout")), out[0] if out else "")
                    answers[be] = ans
                    if ans == "unsat":
                        return "unsat", "", be
                    if ans == "sat":
                        return "sat", f"({be} reports sat; no model extracted)", be
                if procs:
                    _time.sleep(0.02)
        finally:
            for be, p in procs:
                answers.setdefault(be, "timeout")
                try:
                    p.kill()
                    p.wait(timeout=5)
                except Exception:
                    pass
        for be in ("z3-cli", "z3-cli-ematching", "cvc5"):
            if be in answers:
                detail += f"; {be}: {answers[be][:60]}"
    finally:
        if not dump:
            try:
                os.remove(fn)
                os.rmdir(d)
            except OSError:
                pass
    return status, detail, backend


_hq_cache = {}


def has_quantifier(t):
    key = t.get_id()
    if key in _hq_cache:
        return _hq_cache[key]
    todo = [t]
    seen = set()
    r = False
    while todo:
        x = todo.pop()
        i = x.get_id()
        if i in seen:
            continue
        seen.add(i)
        if z3.is_quantifier(x):
            r = True
            break
        todo.extend(x.children())
    _hq_cache[key] = r
    return r


def model_summary(m, limit=60):
    items = []
    for d in m.decls():
        if d.arity() == 0:
            n = d.name()
            if n.startswith("k!") or "!ax" in n:
                continue
            items.append(f"{n}={m[d]}")
    items.sort()
    return "; ".join(items[:limit])


# ---------------------------------------------------------------------------------------
# Sequences: pointwise (length, element function).  Immutable values.
# ---------------------------------------------------------------------------------------
class Seq:
    """Finite sequence given by a length term and an element function of the index.
    `sort` is the z3 sort of the elements (V, INT or BOOL)."""

    def __init__(self, length, at, sort=V, note=""):
        self.len = length
        self._at = at
        self.sort = sort
        self.note = note

    def at(self, j):
        return self._at(zint(j) if not is_sym_int(j) else j)

    def length(self):
        return self.len

    @staticmethod
    def of_list(ctx, items, sort=V):
        items = list(items)
        n = len(items)

        def at(j, items=items):
            if not items:
                return ctx.fresh("undef", sort)
            e = items[-1]
            for idx in range(len(items) - 2, -1, -1):
                e = z3.If(j == idx, items[idx], e)
            return e
        return Seq(n, at, sort)

    def concat(self, other):
        a, b = self, other
        if a.sort != b.sort:
            raise Unsupported("concat of different element sorts")
        la = a.len

        def at(j):
            return z3.If(j < zint(la), a.at(j), b.at(j - zint(la)))
        r = Seq(add(a.len, b.len), at, a.sort)
        r.parts = (a, b)
        return r

    def map(self, f, sort=None):
        return Seq(self.len, lambda j: f(self.at(j)), sort or self.sort)

    def reversed(self):
        n = self.len
        r = Seq(n, lambda j: self.at(zint(n) - 1 - j), self.sort)
        r.rev_of = self
        return r

    def clone(self):
        """Same sequence as a new object (keeps the structural hints of enumerations)."""
        c = Seq(self.len, self._at, self.sort, self.note)
        for a in ("enum", "guard", "value", "src_len", "index_enum", "perm", "src"):
            if hasattr(self, a):
                setattr(c, a, getattr(self, a))
        return c

    def slice(self, lo, hi):
        """Elements lo..hi-1 (already clamped by the caller: 0<=lo<=hi<=len)."""
        return Seq(sub(hi, lo), lambda j: self.at(zint(lo) + j), self.sort)


def add(a, b):
    r = zint(a) + zint(b)
    return conc(r)


def sub(a, b):
    return conc(zint(a) - zint(b))


def in_range(j, n):
    return z3.And(zint(j) >= 0, zint(j) < zint(n))


class Enum:
    """Increasing enumeration of {i in [0,n) | g(i)}: cnt, idx(j), rk(i) with the
    defining axioms assumed (a definitional extension: such cnt/idx/rk exist and are
    unique for every finite n and every predicate g)."""
    cache_attr = "_enum_cache"

    @staticmethod
    def of(ctx, n, g):
        cache = ctx.__dict__.setdefault(Enum.cache_attr, {})
        k0 = z3.Int("k!enum")
        body = z3.simplify(z3.And(in_range(k0, n), zbool(g(k0))))
        key = canon_str(body)
        if key in cache:
            e, pos, first = cache[key]
            if pos is None or (pos < len(ctx.assumptions) and ctx.assumptions[pos] is first):
                return e
        # an enumeration whose predicate does not mention the indices of the enclosing symbolic loops is
        # the same in every iteration: define it once, globally (the axioms are definitional)
        deps = [lv for lv in ctx.loop_vars if occurs(lv, body)]
        is_global = not deps
        saved = ctx.loop_vars
        ctx.loop_vars = list(deps)
        try:
            e = Enum()
            e.n = n
            e.g = g
            e.cnt = ctx.fresh("cnt", INT)
            e.idx = ctx.fresh_fn("idx", INT, INT)
            e.rk = ctx.fresh_fn("rk", INT, INT)
            e.cb = ctx.fresh_fn("cntbelow", INT, INT)    # number of selected positions below i (0 <= i <= n)
        finally:
            ctx.loop_vars = saved
        ax = e.axioms()
        if not is_global:
            # the predicate mentions indices of enclosing symbolic loops: the symbols are functions of those indices
            # and the (definitional) axioms hold for every value of them
            ax = [z3.ForAll(deps, a) for a in ax]
        ctx.axioms.extend(ax)
        cache[key] = (e, None, None)
        Enum.link_equivalent(ctx, e, cache)
        return e

    @staticmethod
    def family(ctx, name, params, n_of, g_of):
        """A family of enumerations indexed by integer parameters: for all values p of the parameters, the increasing
        enumeration of {q < n_of(p) | g_of(p, q)}.  The symbols are functions of the parameters (definitional for every
        value), so two uses with syntactically equal parameter terms denote the same enumeration.  `name` identifies the
        family (the caller guarantees that equal names mean equal n_of / g_of)."""
        fams = ctx.__dict__.setdefault("_enum_families", {})
        m = len(params)
        ps = [z3.Int(f"p{i}!fam") for i in range(m)]
        q0 = z3.Int("q!fam")
        # the family is identified by its name AND by the (canonical text of the) range and predicate
        name = name + "#" + str(abs(hash(canon_str(z3.simplify(zint(n_of(ps)))) + "|" + canon_str(z3.simplify(zbool(g_of(ps, q0)))))) % 10**9)
        if name not in fams:
            F = {k: z3.Function(ctx.fresh_name(f"{k}_{name}"), *([INT] * (m + extra)), INT)
                 for k, extra in (("cnt", 0), ("idx", 1), ("rk", 1), ("cntbelow", 1))}
            proto = Enum()
            proto.n = n_of(ps)
            proto.g = lambda q, ps=ps: g_of(ps, q)
            proto.cnt = F["cnt"](*ps)
            proto.idx = lambda j, ps=ps: F["idx"](*ps, j)
            proto.rk = lambda j, ps=ps: F["rk"](*ps, j)
            proto.cb = lambda j, ps=ps: F["cntbelow"](*ps, j)
            ctx.axioms.extend(z3.ForAll(ps, a) for a in proto.axioms())
            fams[name] = F
        F = fams[name]
        pz = [zint(p) for p in params]
        e = Enum()
        e.n = n_of(pz)
        e.g = lambda q: g_of(pz, q)
        e.cnt = F["cnt"](*pz)
        e.idx = lambda j: F["idx"](*pz, zint(j))
        e.rk = lambda j: F["rk"](*pz, zint(j))
        e.cb = lambda j: F["cntbelow"](*pz, zint(j))
        return e

    def assume_total(self, ctx, instances=()):
        """Modus ponens on the axiom "(forall i < n. g(i)) => cnt == n and idx(j) == j": to be called right after the
        premise has been PROVED for an arbitrary i (fresh constant), i.e. for all i.  `instances`: index terms at which the
        universal conclusion is also stated explicitly (its trigger may be unusable when the family parameters contain ite)."""
        j = z3.Int("j!ax")
        nn = zint(self.n)
        ctx.assumptions.append(self.cnt == z3.If(nn >= 0, nn, 0))
        ctx.assumptions.append(safe_forall([j], z3.Implies(z3.And(0 <= j, j < nn), self.idx(j) == j), [self.idx(j)], None))
        for t in instances:
            ctx.assumptions.append(z3.Implies(z3.And(0 <= zint(t), zint(t) < nn), z3.And(self.idx(zint(t)) == zint(t), self.rk(zint(t)) == zint(t))))

    def axioms(self):
        """The defining axioms of the enumeration (cnt, idx, rk, cntbelow)."""
        e, n, g = self, self.n, self.g
        j, j2, i = z3.Ints("j!ax j2!ax i!ax")
        nn = zint(n)
        gi = zbool(g(i))
        trig = [e.rk(i)] + [t for t in pattern_terms(gi, i)]
        ax = [
            e.cnt >= 0, e.cnt <= z3.If(nn >= 0, nn, 0),
            safe_forall([j], z3.Implies(z3.And(0 <= j, j < e.cnt),
                                        z3.And(0 <= e.idx(j), e.idx(j) < nn, zbool(g(e.idx(j))),
                                               e.rk(e.idx(j)) == j)), [e.idx(j)], None),
            safe_forall([j, j2], z3.Implies(z3.And(0 <= j, j < j2, j2 < e.cnt), e.idx(j) < e.idx(j2)),
                        [z3.MultiPattern(e.idx(j), e.idx(j2))], None),
            safe_forall([i], z3.Implies(z3.And(0 <= i, i < nn, gi),
                                        z3.And(0 <= e.rk(i), e.rk(i) < e.cnt, e.idx(e.rk(i)) == i)), trig, [e.rk(i)]),
            # monotone rank: number of selected positions below i
            safe_forall([i, j], z3.Implies(z3.And(0 <= i, i < j, j < nn, zbool(g(i)), zbool(g(j))),
                                           e.rk(i) < e.rk(j)),
                        [z3.MultiPattern(e.rk(i), e.rk(j))], None),
            z3.Implies(z3.ForAll([i], z3.Implies(z3.And(0 <= i, i < nn), gi)),
                       z3.And(e.cnt == z3.If(nn >= 0, nn, 0),
                              safe_forall([j], z3.Implies(z3.And(0 <= j, j < nn), e.idx(j) == j), [e.idx(j)], None))),
        ]
        ax += [e.cb(0) == 0, z3.Implies(nn >= 0, e.cb(nn) == e.cnt),
               safe_forall([i], z3.Implies(z3.And(0 <= i, i < nn, gi), e.rk(i) == e.cb(i)), [e.rk(i)], None)]
        return ax

    def instance(self, ctx, fn):
        """The enumeration obtained by substituting (e.g. a loop index) inside this one; its axioms are instances of
        facts already assumed for every value of the substituted index, so they are assumed as well; it takes part in
        the uniqueness linking like any other enumeration."""
        p = z3.Int("p!inst")
        e2 = Enum()
        e2.n = fn(self.n) if is_z3(self.n) else self.n
        e2.g = lambda i, s_=self: z3.substitute(fn(zbool(s_.g(p))), (p, zint(i)))
        e2.cnt = fn(self.cnt)
        e2.idx = lambda j, s_=self: z3.substitute(fn(s_.idx(p)), (p, zint(j)))
        e2.rk = lambda j, s_=self: z3.substitute(fn(s_.rk(p)), (p, zint(j)))
        e2.cb = lambda j, s_=self: z3.substitute(fn(s_.cb(p)), (p, zint(j)))
        cache = ctx.__dict__.setdefault(Enum.cache_attr, {})
        k0 = z3.Int("k!enum")
        key = canon_str(z3.simplify(z3.And(in_range(k0, e2.n), zbool(e2.g(k0)))))
        if key in cache:
            ex, pos, first = cache[key]
            if pos is None or (pos < len(ctx.assumptions) and ctx.assumptions[pos] is first):
                return ex if ex.cnt.eq(e2.cnt) else e2
        ax = e2.axioms()
        pos = len(ctx.assumptions)
        ctx.assumptions.extend(ax)
        cache[key] = (e2, pos, ax[0])
        Enum.link_equivalent(ctx, e2, cache)
        return e2

    @staticmethod
    def link_split(ctx, total, A, B, g_left, g_right):
        """Enumeration of a concatenated range (meta-lemma, by uniqueness of increasing enumerations):
        if total enumerates {k < A+B | g(k)}, g agrees with g_left on [0,A) and with g_right(.-A) on
        [A, A+B), then total = enumeration(A, g_left) followed by A + enumeration(B, g_right).
        Applied only when both agreements are proved under the current assumptions."""
        kf = z3.Int(ctx.fresh_name("k!spl"))
        ok1 = ctx.valid(z3.Implies(in_range(kf, A), zbool(total.g(kf)) == zbool(g_left(kf))), 4000)
        ok2 = ctx.valid(z3.Implies(in_range(kf, B), zbool(total.g(zint(A) + kf)) == zbool(g_right(kf))), 4000)
        if not (ok1 and ok2):
            return None
        left = Enum.of(ctx, A, g_left)
        right = Enum.of(ctx, B, g_right)
        j = z3.Int("j!ax")
        ctx.assumptions.append(total.cnt == left.cnt + right.cnt)
        ctx.assumptions.append(z3.ForAll([j], z3.Implies(z3.And(0 <= j, j < left.cnt), total.idx(j) == left.idx(j)),
                                         patterns=[total.idx(j)]))
        ctx.assumptions.append(z3.ForAll([j], z3.Implies(z3.And(0 <= j, j < right.cnt),
                                                         total.idx(left.cnt + j) == zint(A) + right.idx(j)),
                                         patterns=[right.idx(j)]))
        ctx.assumptions.append(z3.ForAll([j], z3.Implies(z3.And(left.cnt <= j, j < total.cnt),
                                                         total.idx(j) == zint(A) + right.idx(j - left.cnt)),
                                         patterns=[total.idx(j)]))
        ctx.used_models.add("meta-lemma: the increasing enumeration over a concatenated range is the concatenation of the two enumerations")
        return left, right

    def unfold(self, i):
        """Instance of the recursive definition of cntbelow at position i (definitional axiom)."""
        nn = zint(self.n)
        return z3.Implies(z3.And(0 <= i, i < nn),
                          z3.And(self.cb(i + 1) == self.cb(i) + z3.If(zbool(self.g(i)), 1, 0), self.cb(i) >= 0, self.cb(i) <= i))

    @staticmethod
    def link_conditional(ctx, e1, e2):
        """The uniqueness meta-lemma as an implication (no hypothesis to prove now, so it is path independent): IF the
        ranges are equal and the predicates agree on the range THEN the two enumerations coincide."""
        if e1 is e2:
            return
        done = ctx.__dict__.setdefault("_enum_cond_links", set())
        key = (id(e1), id(e2))
        if key in done or (key[1], key[0]) in done:
            return
        done.add(key)
        k, j, i = z3.Int("k!cl"), z3.Int("j!ax"), z3.Int("i!ax")
        hyp = z3.And(zint(e1.n) == zint(e2.n),
                     z3.ForAll([k], z3.Implies(in_range(k, e1.n), zbool(e1.g(k)) == zbool(e2.g(k)))))
        ctx.axioms.append(z3.Implies(hyp, z3.And(
            e1.cnt == e2.cnt,
            z3.ForAll([j], e1.idx(j) == e2.idx(j), patterns=[e1.idx(j)]),
            z3.ForAll([j], e1.idx(j) == e2.idx(j), patterns=[e2.idx(j)]),
            z3.ForAll([i], e1.rk(i) == e2.rk(i), patterns=[e1.rk(i)]),
            z3.ForAll([i], e1.rk(i) == e2.rk(i), patterns=[e2.rk(i)]))))
        ctx.used_models.add("meta-lemma: increasing enumerations of equivalent predicates over one range coincide")

    @staticmethod
    def link_equivalent(ctx, e, cache):
        """Uniqueness of enumerations (meta-lemma, by induction on the range): two increasing enumerations
        of extensionally equal predicates over the same range coincide.  Applied only when the equivalence
        of the predicates is *proved* under the current assumptions."""
        kf = z3.Int(ctx.fresh_name("k!lnk"))
        for key, (e1, pos, first) in list(cache.items()):
            if e1 is e:
                continue
            if pos is not None and not (pos < len(ctx.assumptions) and ctx.assumptions[pos] is first):
                continue
            # cheap pre-filter: the two ranges must be provably equal
            n_eq = z3.simplify(zint(e1.n) == zint(e.n))
            if z3.is_false(n_eq) or not ctx.valid(n_eq, 600):
                continue
            same = z3.Implies(in_range(kf, e.n), zbool(e1.g(kf)) == zbool(e.g(kf)))
            if ctx.valid(same, 6000):
                j, i = z3.Ints("j!ax i!ax")
                ctx.assumptions.append(e1.cnt == e.cnt)
                ctx.assumptions.append(z3.ForAll([j], e1.idx(j) == e.idx(j), patterns=[e1.idx(j)]))
                ctx.assumptions.append(z3.ForAll([j], e1.idx(j) == e.idx(j), patterns=[e.idx(j)]))
                ctx.assumptions.append(z3.ForAll([i], e1.rk(i) == e.rk(i), patterns=[e1.rk(i)]))
                ctx.assumptions.append(z3.ForAll([i], e1.rk(i) == e.rk(i), patterns=[e.rk(i)]))
                ctx.used_models.add("meta-lemma: increasing enumerations of equivalent predicates over one range coincide")
                continue
            compl = z3.Implies(in_range(kf, e.n), zbool(e1.g(kf)) == z3.Not(zbool(e.g(kf))))
            if ctx.valid(compl, 2500):
                # complementary predicates: the two enumerations partition the range (counting, by induction on i)
                i = z3.Int("i!ax")
                nn = zint(e.n)
                ctx.assumptions.append(z3.Implies(nn >= 0, e1.cnt + e.cnt == nn))
                ctx.assumptions.append(z3.ForAll([i], z3.Implies(z3.And(0 <= i, i <= nn), e1.cb(i) + e.cb(i) == i), patterns=[e1.cb(i)]))
                ctx.assumptions.append(z3.ForAll([i], z3.Implies(z3.And(0 <= i, i <= nn), e1.cb(i) + e.cb(i) == i), patterns=[e.cb(i)]))
                ctx.used_models.add("meta-lemma: enumerations of complementary predicates partition the range (counts add up)")


def safe_forall(vars_, body, patterns, fallback):
    for pats in (patterns, fallback):
        if not pats:
            continue
        if any(has_ite(p_) for p_ in pats):
            continue            # z3 rejects 'if' inside a trigger (it would only print a warning and drop it)
        try:
            return z3.ForAll(vars_, body, patterns=pats)
        except z3.Z3Exception:
            continue
    return z3.ForAll(vars_, body)


def forall(vars_, body, patterns=None):
    """z3.ForAll with patterns filtered to valid triggers (uninterpreted applications that mention every
    bound variable); falls back to z3's own pattern inference."""
    pats = []
    for p in patterns or []:
        if z3.is_app(p) and p.decl().kind() == z3.Z3_OP_UNINTERPRETED and all(occurs(v, p) for v in vars_) and not has_ite(p):
            pats.append(p)       # (z3 rejects 'if' inside a trigger: it would print a warning and drop it)
        elif len(vars_) == 1:
            pats.extend(t for t in pattern_terms(p, vars_[0]))
    try:
        if pats:
            return z3.ForAll(vars_, body, patterns=pats)
    except z3.Z3Exception:
        pass
    return z3.ForAll(vars_, body)


_COMMUTATIVE = {z3.Z3_OP_AND, z3.Z3_OP_OR, z3.Z3_OP_EQ, z3.Z3_OP_DISTINCT, z3.Z3_OP_ADD, z3.Z3_OP_MUL, z3.Z3_OP_IFF}


def canon_str(t, _memo=None):
    """Textual form of a term that does not depend on z3's (id-based, unstable) ordering of the arguments of
    commutative operators."""
    if _memo is None:
        _memo = {}
    i = t.get_id()
    if i in _memo:
        return _memo[i]
    if z3.is_quantifier(t):
        r = ("Q" + ("A" if t.is_forall() else "E" if t.is_exists() else "L") + str(t.num_vars()) + "(" + canon_str(t.body(), _memo) + ")")
    elif z3.is_app(t) and t.num_args() > 0:
        parts = [canon_str(c, _memo) for c in t.children()]
        if t.decl().kind() in _COMMUTATIVE:
            parts.sort()
        r = t.decl().name() + "(" + ",".join(parts) + ")"
    else:
        r = t.sexpr()
    _memo[i] = r
    return r


def occurs(const, term):
    todo = [term]
    seen = set()
    while todo:
        x = todo.pop()
        i = x.get_id()
        if i in seen:
            continue
        seen.add(i)
        if x.eq(const):
            return True
        if z3.is_quantifier(x):
            todo.append(x.body())
        else:
            todo.extend(x.children())
    return False


def has_ite(t):
    todo = [t]
    while todo:
        x = todo.pop()
        if z3.is_app_of(x, z3.Z3_OP_ITE) or z3.is_quantifier(x):
            return True
        todo.extend(x.children())
    return False


def pattern_terms(term, var):
    """Uninterpreted-function applications inside `term` that mention `var` (usable as triggers)."""
    out = []
    todo = [term]
    seen = set()
    while todo:
        x = todo.pop()
        i = x.get_id()
        if i in seen or z3.is_quantifier(x):
            continue
        seen.add(i)
        if z3.is_app(x) and x.decl().kind() == z3.Z3_OP_UNINTERPRETED and x.num_args() > 0 and occurs(var, x):
            if all(not z3.is_quantifier(c) for c in x.children()) and not has_ite(x):
                out.append(x)
                continue
        todo.extend(x.children())
    return out[:3]


def filter_seq(ctx, src_len, guard, value, sort=V):
    """[value(k) for k in range(src_len) if guard(k)] as a pointwise sequence."""
    e = Enum.of(ctx, src_len, guard)
    s = Seq(e.cnt, lambda j: value(e.idx(j)), sort, note="filter")
    s.enum = e
    s.guard = guard
    s.value = value
    s.src_len = src_len
    return s


def seq_eq(ctx, a, b, eq=None):
    """Formula: sequences a and b are equal element-wise (fresh arbitrary index)."""
    if a.sort != b.sort:
        return z3.BoolVal(False)
    ea, eb = getattr(a, "enum", None), getattr(b, "enum", None)
    eq = eq or (lambda x, y: x == y)
    if ea is not None and eb is not None and ea is not eb:
        # extensionality of enumerations: equal ranges and equivalent guards => same enumeration
        k = ctx.fresh("k", INT)
        same_guard = z3.And(zint(a.src_len) == zint(b.src_len),
                            z3.Implies(in_range(k, a.src_len), zbool(a.guard(k)) == zbool(b.guard(k))))
        same_val = z3.Implies(z3.And(in_range(k, a.src_len), zbool(a.guard(k))), eq(a.value(k), b.value(k)))
        return z3.And(same_guard, same_val)
    j = ctx.fresh("j", INT)
    return z3.And(zint(a.len) == zint(b.len), z3.Implies(in_range(j, a.len), eq(a.at(j), b.at(j))))


class MList:
    """Mutable Python list object whose contents are an immutable Seq kept in ctx.store."""
    _ids = itertools.count(1)

    def __init__(self, ctx, seq):
        self.ctx = ctx
        self.id = ("mlist", next(MList._ids))
        ctx.store[self.id] = {"seq": seq}
        self._frozen = seq

    @property
    def seq(self):
        d = self.ctx.store.get(self.id)
        if d is None:
            # object created on another path / before a restore (e.g. a cached class-level constant)
            return self._frozen
        return d["seq"]

    @seq.setter
    def seq(self, s):
        self.ctx.store.setdefault(self.id, {})["seq"] = s
        self._frozen = s
