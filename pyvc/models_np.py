# -*- coding: utf-8 -*-
"""Assumed contracts for NumPy (the trusted base of the DataFrame / Vector proofs).

An array is a one-dimensional sequence of elements plus a dtype *kind* and a ghost
*owner* (which buffer it lives in):

* elements: core.Seq of sort V (opaque data), INT (index arrays) or BOOL (masks);
* kind:     python str when known, else a z3 Int term (code in KINDS);
* owner:    "fresh" for buffers allocated during the call under verification, or the
            name of the input they belong to.  Every primitive states whether its result
            is a fresh buffer or a view of an argument (DESIGN section 3, appendix B).

Writes into an input-owned buffer and results that are views of inputs are recorded in
ctx.store[("ghost",)] and turned into C06 obligations by the contracts."""
import itertools
import z3

from .core import (INT, BOOL, V, NONE, ABSENT, TRUEV, FALSEV, Unsupported, PyRaise, Seq, MList, filter_seq, Enum,
                   is_z3, is_v, is_sym_int, is_sym_bool, is_intlike, is_boollike, zint, zbool, conc, in_range,
                   vint, intof, truthy, v_lt)
from .interp import (ModelFn, ModuleNS, TypeObj, ClassObj, Instance, BoundMethod, PyList, SliceVal, StarSeq,
                     Closure, GenValue)
from . import models as M

KINDS = ["bool", "int", "uint", "float", "datetime", "timedelta", "string", "fixedstr", "bytes", "object"]
KCODE = {k: i for i, k in enumerate(KINDS)}

is_nan = z3.Function("is_nan", V, BOOL)       # float NaN
is_nat = z3.Function("is_nat", V, BOOL)       # datetime/timedelta NaT
NAN = z3.Const("NaN_v", V)
NAT = z3.Const("NaT_v", V)


def kind_is(kind, *names):
    """kind in names -> bool or BoolRef"""
    if isinstance(kind, str):
        return kind in names
    return z3.Or(*[kind == KCODE[n] for n in names])


def kind_term(kind):
    return z3.IntVal(KCODE[kind]) if isinstance(kind, str) else kind


def kind_eq(a, b):
    if isinstance(a, str) and isinstance(b, str):
        return a == b
    return kind_term(a) == kind_term(b)


def ghost(ctx):
    return ctx.store.setdefault(("ghost",), {"input_writes": (), "notes": ()})


def no_input_writes(ctx):
    """no store executed so far hit a buffer owned by an input (True, or the formula saying so)"""
    ws = ghost(ctx)["input_writes"]
    if not ws:
        return True
    return z3.Not(z3.Or(*ws))


class DType:
    def __init__(self, kind, label=None):
        self.kind = kind
        self.label = label

    KIND_CHARS = {"bool": "b", "int": "i", "uint": "u", "float": "f", "datetime": "M", "timedelta": "m",
                  "string": "T", "fixedstr": "U", "bytes": "S", "object": "O"}

    def pyvc_getattr(self, it, name):
        if name == "na_object" and hasattr(self, "na_object"):
            return self.na_object
        if name == "kind":
            if isinstance(self.kind, str):
                return self.KIND_CHARS[self.kind]
            for k in KINDS:             # symbolic kind: one path per dtype kind
                if it.ctx.branch(self.kind == KCODE[k]):
                    return self.KIND_CHARS[k]
            raise Unsupported("dtype kind out of range")
        raise Unsupported(f"dtype.{name}")

    def pyvc_compare(self, it, op, other, swapped):
        import ast
        if isinstance(other, DType) and isinstance(op, (ast.Eq, ast.NotEq)):
            r = kind_eq(self.kind, other.kind)
            if isinstance(op, ast.NotEq):
                return M.not_(it, r)
            return r
        if isinstance(other, TypeObj) and other.name in ("object", "bool") and isinstance(op, (ast.Eq, ast.NotEq)):
            # np.dtype == Python class: the class is converted with np.dtype() first; object and bool have one dtype each
            r = kind_eq(self.kind, other.name)
            if isinstance(op, ast.NotEq):
                return M.not_(it, r)
            return r
        raise Unsupported("dtype comparison")


class NDArr:
    """numpy.ndarray (or Vector / DataFrameColumn when cls is set), one-dimensional."""
    _ids = itertools.count(1)

    def __init__(self, ctx, seq, kind, owner="fresh", cls=None, base=None, off=0, ndim=1):
        self.ctx = ctx
        self.kind = kind
        self.owner = owner
        self.cls = cls
        self.ndim = ndim
        self.base = base          # NDArr whose buffer this array is a view of
        self.off = off
        self.fresh_cond = None
        if base is None:
            self.id = ("ndarr", next(NDArr._ids))
            ctx.store[self.id] = {"seq": seq}
            self._frozen = seq
        else:
            self.id = base.id
            self._len = seq.len

    # contents -----------------------------------------------------------------------
    @property
    def seq(self):
        if self.base is None:
            if self.id not in self.ctx.store:
                return self._frozen
            return self.ctx.store[self.id]["seq"]
        b = self.base.seq
        off = self.off
        if isinstance(off, int) and off == 0 and self._len is b.len:
            return b                # whole-array view: same elements (keeps enumeration hints)
        return Seq(self._len, lambda j: b.at(zint(off) + j), b.sort)

    def set_seq(self, s):
        if self.base is not None:
            raise Unsupported("write through a view")
        if self.id not in self.ctx.store:
            self.ctx.store[self.id] = {}
        self.ctx.store[self.id]["seq"] = s
        self._frozen = s

    @property
    def len(self):
        return self.seq.len

    def root(self):
        return self if self.base is None else self.base.root()

    def with_cls(self, cls):
        """view(cls): same buffer, other Python class"""
        v = NDArr(self.ctx, Seq(self.len, None, self.seq.sort), self.kind, self.owner, cls, base=self, off=0, ndim=self.ndim)
        return v

    def fresh_like(self, seq, kind=None, cls="same"):
        return NDArr(self.ctx, seq, self.kind if kind is None else kind, "fresh", self.cls if cls == "same" else cls)

    # protocol hooks used by the interpreter --------------------------------------------------
    def pyvc_len(self, it):
        return conc(self.len)

    def pyvc_iter(self, it):
        s = self.seq
        s2 = s.clone()           # keeps the enumeration hints (np.flatnonzero positions)
        s2.keep_symbolic = not isinstance(conc(s.len), int) or conc(s.len) > 6
        return s2

    def pyvc_subst(self, fn):
        if self.base is not None:
            nb = self.base.pyvc_subst(fn)
            ln = fn(self._len) if is_z3(self._len) else self._len
            off = fn(self.off) if is_z3(self.off) else self.off
            v = NDArr(self.ctx, Seq(ln, None, nb.seq.sort), nb.kind, nb.owner, self.cls, base=nb, off=off, ndim=self.ndim)
            return v
        s = self.seq
        a = NDArr(self.ctx, fn(s), fn(self.kind) if is_z3(self.kind) else self.kind, self.root().owner, self.cls, ndim=self.ndim)
        if self.root().fresh_cond is not None:
            a.fresh_cond = fn(self.root().fresh_cond)
        return a

    def pyvc_merge(self, cond, other):
        if not isinstance(other, NDArr):
            raise Unsupported("merge of array and non-array")
        from .loops import merge
        k = self.kind if (isinstance(self.kind, str) and isinstance(other.kind, str) and self.kind == other.kind) else z3.If(cond, kind_term(self.kind), kind_term(other.kind))
        if self.cls is not other.cls:
            raise Unsupported("merge of arrays of different classes")
        if self.base is not None and other.base is not None and self.base is other.base:
            # two views of one buffer: a view with merged offset and length
            ln = conc(z3.If(cond, zint(self._len), zint(other._len)))
            off = conc(z3.If(cond, zint(self.off), zint(other.off)))
            return NDArr(self.ctx, Seq(ln, None, self.base.seq.sort), self.kind, self.owner, self.cls, base=self.base, off=off, ndim=self.ndim)
        if self.owner == other.owner and self.fresh_cond is None and other.fresh_cond is None:
            return NDArr(self.ctx, merge(cond, self.seq, other.seq), k, self.owner, self.cls)
        r = NDArr(self.ctx, merge(cond, self.seq, other.seq), k, "mixed", self.cls)
        fa, fb = self.freshness(), other.freshness()
        fa = z3.BoolVal(fa) if isinstance(fa, bool) else fa
        fb = z3.BoolVal(fb) if isinstance(fb, bool) else fb
        r.fresh_cond = z3.If(cond, fa, fb)
        return r

    def freshness(self):
        """True / False / formula: this array lives in a buffer allocated during the call"""
        root = self.root()
        if root.fresh_cond is not None:
            return root.fresh_cond
        return root.owner == "fresh"

    def pyvc_isinstance(self, it, t):
        name = t.name
        if name == "ndarray":
            return True
        if isinstance(t, ClassObj):
            return self.cls is not None and it.is_subclass(self.cls, t)
        return False

    def pyvc_getattr(self, it, name):
        if self.cls is not None:
            found, cv = it.class_attr(self.cls, name)
            if found:
                from .interp import PropertyObj, ClassMethodObj, StaticMethodObj
                if isinstance(cv, PropertyObj):
                    return it.call(cv.fget, [self], {})
                if isinstance(cv, ClassMethodObj):
                    return BoundMethod(cv.func, self.cls)
                if isinstance(cv, StaticMethodObj):
                    return cv.func
                return it.bind(cv, self)
        if name in ARRAY_ATTRS:
            return ARRAY_ATTRS[name](it, self)
        if name in ARRAY_METHODS:
            return BoundMethod(ARRAY_METHODS[name], self)
        if name == "__class__":
            return self.cls if self.cls is not None else NDARRAY
        attrs = self.ctx.store.get(self.id, {}).get("pyattrs", {})
        if name in attrs:
            return attrs[name]
        raise PyRaise("AttributeError", name)

    def pyvc_getitem(self, it, idx):
        return arr_getitem(it, self, idx)

    def pyvc_setitem(self, it, idx, v):
        return arr_setitem(it, self, idx, v)

    def pyvc_compare(self, it, op, other, swapped):
        return arr_compare(it, self, op, other, swapped)

    def pyvc_binop(self, it, op, other, swapped):
        return arr_binop(it, self, op, other, swapped)

    def pyvc_unop(self, it, op):
        return arr_unop(it, self, op)

    def pyvc_contains(self, it, x):
        return M.seq_contains(it, self.seq, x)


NDARRAY = TypeObj("ndarray")


def as_arr(it, x, want=None):
    """Coerce x to NDArr (lists/tuples/scalars as numpy would)."""
    if isinstance(x, NDArr):
        return x
    if isinstance(x, tuple) and len(x) == 1 and isinstance(x[0], NDArr):
        return x[0]
    if isinstance(x, (MList, PyList, list, tuple)) or isinstance(x, Seq) or isinstance(x, GenValue):
        s = M.as_seq(it, x)
        return seq_to_arr(it, s, want)
    raise Unsupported(f"cannot view {x!r} as an array")


def seq_to_arr(it, s, want=None):
    if isinstance(s, PyList):
        items = s.items
        if all(is_intlike(e) for e in items) and items:
            return NDArr(it.ctx, Seq.of_list(it.ctx, [zint(e) for e in items], INT), "int")
        if all(is_boollike(e) for e in items) and items:
            return NDArr(it.ctx, Seq.of_list(it.ctx, [zbool(e) for e in items], BOOL), "bool")
        if not items:
            kind = "float" if want is None else want
            srt = {"int": INT, "bool": BOOL}.get(kind, V)
            return NDArr(it.ctx, Seq(0, lambda j: (z3.IntVal(0) if srt == INT else z3.BoolVal(False) if srt == BOOL else NONE), srt), kind)
        vs = [M.to_v(it, e) for e in items]
        return NDArr(it.ctx, Seq.of_list(it.ctx, vs, V), it.ctx.fresh("kind", INT) if want is None else want)
    if s.sort == INT:
        return NDArr(it.ctx, s, "int")
    if s.sort == BOOL:
        return NDArr(it.ctx, s, "bool")
    if s.sort == V:
        return NDArr(it.ctx, s, it.ctx.fresh("kind", INT) if want is None else want)
    raise Unsupported("array from structured sequence")


def index_seq(it, idx):
    """INT Seq of positions from an index-like value (array of ints, list of ints, range)."""
    if isinstance(idx, NDArr):
        s = idx.seq
        if s.sort == INT:
            return s
        if s.sort == V:
            return Seq(s.len, lambda j: intof(s.at(j)), INT)
        raise Unsupported("boolean array where integer positions are expected")
    a = as_arr(it, idx, "int")
    return index_seq(it, a)


def wrap_index(i, n):
    return z3.If(i < 0, i + zint(n), i)


def check_indices(it, pos, n, what="index"):
    """IndexError path unless every position is within [-n, n)."""
    ctx = it.ctx
    j = z3.Int("j!ix")
    ok = z3.ForAll([j], z3.Implies(in_range(j, pos.len), z3.And(pos.at(j) >= -zint(n), pos.at(j) < zint(n))))
    if isinstance(conc(pos.len), int) and conc(pos.len) <= 4:
        ok = z3.And(*[z3.And(pos.at(i) >= -zint(n), pos.at(i) < zint(n)) for i in range(conc(pos.len))]) if conc(pos.len) else z3.BoolVal(True)
    if not ctx.branch(ok):
        raise PyRaise("IndexError", f"{what} out of bounds")


def take(it, a, pos, cls="same"):
    """a[pos] for integer positions: out[j] = a[pos[j]] (negative positions wrap); FRESH buffer."""
    s = a.seq
    n = s.len
    check_indices(it, pos, n)
    out = Seq(pos.len, lambda j: s.at(wrap_index(pos.at(j), n)), s.sort)
    return a.fresh_like(out, cls=cls)


def mask_select(it, a, mask):
    s, m = a.seq, mask.seq
    ctx = it.ctx
    if not ctx.branch(zint(m.len) == zint(s.len)):
        raise PyRaise("IndexError", "boolean index did not match")
    out = filter_seq(ctx, s.len, lambda k: m.at(k), lambda k: s.at(k), s.sort)
    return a.fresh_like(out)


def arr_getitem(it, a, idx):
    ctx = it.ctx
    if isinstance(idx, tuple) and len(idx) == 1:
        idx = idx[0]
    if isinstance(idx, SliceVal):
        if idx.step is not None and conc(idx.step) == -1 and idx.lo is None and idx.hi is None:
            s = a.seq
            return a.fresh_like(s.reversed()) if False else NDArr(ctx, s.reversed(), a.kind, a.owner, a.cls)   # reversed view
        lo, hi = M.clamp_slice(it, idx, a.len)
        view = NDArr(ctx, Seq(M.sub(hi, lo), None, a.seq.sort), a.kind, a.owner, a.cls, base=a, off=lo)
        return view
    if isinstance(idx, NDArr):
        if idx.seq.sort == BOOL:
            return mask_select(it, a, idx)
        return take(it, a, index_seq(it, idx))
    if isinstance(idx, (MList, PyList, list, Seq)):
        arr = as_arr(it, idx, "int")
        if arr.seq.sort == BOOL:
            return mask_select(it, a, arr)
        return take(it, a, index_seq(it, arr))
    if is_intlike(idx):
        i = M.norm_index(it, idx, a.len)
        return scalar_of(a, a.seq.at(i), it)
    raise Unsupported(f"array index {idx!r}")


class NPScalar:
    """Element / reduction result of an array: a NumPy scalar (has .item()) for numeric, boolean and date kinds; for
    string and object arrays NumPy hands out the Python object itself (no .item())."""
    def __init__(self, term, kind):
        self.term, self.kind = term, kind

    def has_item(self):
        r = kind_is(self.kind, "string", "object")
        return (not r) if isinstance(r, bool) else z3.Not(r)

    def pyvc_getattr(self, it, name):
        if name == "item":
            h = self.has_item()
            if not it.ctx.branch(h):
                raise PyRaise("AttributeError", "'str' object has no attribute 'item'")
            return ModelFn("numpy scalar.item", lambda i, a, k, t=self.term: t)
        raise Unsupported(f"numpy scalar attribute {name}")

    def pyvc_subst(self, fn):
        return NPScalar(fn(self.term), fn(self.kind) if is_z3(self.kind) else self.kind)

    def pyvc_merge(self, cond, other):
        from .loops import merge
        o = other.term if isinstance(other, NPScalar) else M.to_v(None, other)
        return z3.If(cond, self.term, o)


def scalar_of(a, e, it=None):
    if it is not None and getattr(it, "np_scalars", False) and a.seq.sort == V:
        return NPScalar(e, a.kind)
    return e


def elem_like(it, a, v):
    """value v converted to the element sort of array a"""
    srt = a.seq.sort
    if srt == INT:
        return zint(v)
    if srt == BOOL:
        return zbool(v) if is_boollike(v) else zbool(M.truth(it, v))
    return M.to_v(it, v)


def arr_setitem(it, a, idx, v):
    """a[idx] = v  (in place).  Writing into a buffer owned by an input is recorded as a ghost event."""
    ctx = it.ctx
    root = a.root()
    fr = a.freshness()
    if fr is not True:
        # the write hits a buffer that belongs to an input unless `fr` holds
        g = ghost(ctx)
        cond = z3.BoolVal(True) if fr is False else z3.Not(fr)
        ctx.store[("ghost",)] = {**g, "input_writes": g["input_writes"] + (cond,)}
    if a.base is not None:
        whole = a
        while whole.base is not None:
            if not (isinstance(whole.off, int) and whole.off == 0 and whole._len is whole.base.seq.len):
                raise Unsupported("write through a partial view")
            whole = whole.base
        a = whole          # a whole-array view (e.g. .view(cls)): the write goes to the shared buffer
    s = a.seq
    if isinstance(idx, tuple) and len(idx) == 1:
        idx = idx[0]
    if isinstance(idx, NDArr) and idx.seq.sort == BOOL:
        m = idx.seq
        if isinstance(v, NDArr):
            vs = v.seq
            e = __import__("pyvc.core", fromlist=["Enum"]).Enum.of(ctx, s.len, lambda k: m.at(k))
            if not ctx.branch(z3.Or(zint(vs.len) == e.cnt, zint(vs.len) == 1)):
                raise PyRaise("ValueError", "shape mismatch in boolean assignment")
            new = Seq(s.len, lambda j: z3.If(m.at(j), z3.If(zint(vs.len) == 1, coerce(it, vs.at(0), vs.sort, s.sort),
                                                            coerce(it, vs.at(e.rk(j)), vs.sort, s.sort)), s.at(j)), s.sort)
        else:
            vv = elem_like(it, a, v)
            new = Seq(s.len, lambda j: z3.If(m.at(j), vv, s.at(j)), s.sort)
        a.set_seq(new)
        return None
    if isinstance(idx, (NDArr, MList, PyList, list, tuple)):
        pos = index_seq(it, idx)
        check_indices(it, pos, s.len)
        # out[pos[t]] = v[t]; requires distinct positions for a deterministic result (last write wins otherwise)
        w = ctx.fresh_fn("wpos", INT, INT)
        t = z3.Int("t!w")
        n = s.len
        from .core import forall
        ctx.assumptions.append(forall([t], z3.Implies(in_range(t, pos.len), w(wrap_index(pos.at(t), n)) >= t),
                                      patterns=[pos.at(t)]))
        jj = z3.Int("j!w")
        ctx.assumptions.append(z3.ForAll([jj], z3.Or(w(jj) == -1, z3.And(in_range(w(jj), pos.len),
                                                                      wrap_index(pos.at(w(jj)), n) == jj)), patterns=[w(jj)]))
        if isinstance(v, NDArr):
            vs = v.seq
            if not ctx.branch(z3.Or(zint(vs.len) == zint(pos.len), zint(vs.len) == 1)):
                raise PyRaise("ValueError", "shape mismatch in index assignment")
            val = lambda tt: z3.If(zint(vs.len) == 1, coerce(it, vs.at(0), vs.sort, s.sort), coerce(it, vs.at(tt), vs.sort, s.sort))
        else:
            vv = elem_like(it, a, v)
            val = lambda tt: vv
        a.set_seq(Seq(s.len, lambda j: z3.If(w(j) >= 0, val(w(j)), s.at(j)), s.sort))
        return None
    if is_intlike(idx):
        i = M.norm_index(it, idx, s.len)
        vv = elem_like(it, a, v)
        a.set_seq(Seq(s.len, lambda j: z3.If(j == zint(i), vv, s.at(j)), s.sort))
        return None
    raise Unsupported(f"array store with index {idx!r}")


def coerce(it, e, fm, to):
    if fm == to:
        return e
    if to == V:
        return M.to_v(it, e)
    if to == INT and fm == V:
        return intof(e)
    if to == BOOL and fm == V:
        return truthy(e)
    if to == INT and fm == BOOL:
        return z3.If(e, 1, 0)
    raise Unsupported("element coercion")


def _link_filters(it, s, o):
    """both operands are selections (boolean-mask filters): state the uniqueness lemma for their enumerations"""
    e1, e2 = getattr(s, "enum", None), getattr(o, "enum", None)
    if e1 is not None and e2 is not None and e1 is not e2:
        from .core import Enum
        Enum.link_conditional(it.ctx, e1, e2)


def arr_compare(it, a, op, other, swapped):
    import ast
    s = a.seq
    if isinstance(other, NDArr):
        o = other.seq
        _link_filters(it, s, o)
        if not it.ctx.branch(z3.Or(zint(o.len) == zint(s.len), zint(o.len) == 1, zint(s.len) == 1)):
            raise PyRaise("ValueError", "operands could not be broadcast")
        oe = lambda j: o.at(z3.If(zint(o.len) == 1, 0, j))
        osort = o.sort
    else:
        ov = other
        osort = None
        oe = None
    if isinstance(op, (ast.Eq, ast.NotEq)):
        def at(j):
            x = s.at(j)
            y = oe(j) if oe else ov
            e = elem_eq(it, x, s.sort, y, osort, a.kind)
            return z3.Not(e) if isinstance(op, ast.NotEq) else e
    elif isinstance(op, (ast.Lt, ast.LtE, ast.Gt, ast.GtE)):
        def at(j):
            x = s.at(j)
            y = oe(j) if oe else ov
            if swapped:
                x, y = y, x
            if (is_sym_int(x) or isinstance(x, int)) and (is_sym_int(y) or isinstance(y, int)):
                xi, yi = zint(x), zint(y)
                return {ast.Lt: xi < yi, ast.LtE: xi <= yi, ast.Gt: xi > yi, ast.GtE: xi >= yi}[type(op)]
            xv, yv = M.to_v(it, x), M.to_v(it, y)
            lt, gt = v_lt(xv, yv), v_lt(yv, xv)
            return {ast.Lt: lt, ast.LtE: z3.Or(lt, xv == yv), ast.Gt: gt, ast.GtE: z3.Or(gt, xv == yv)}[type(op)]
    else:
        raise Unsupported("array comparison operator")
    return NDArr(it.ctx, Seq(s.len, at, BOOL), "bool", "fresh", a.cls)


def elem_eq(it, x, xs, y, ys, kind):
    """element == as NumPy evaluates it: NaN / NaT are unequal to everything (assumed)."""
    if xs == INT and (ys == INT or is_intlike(y)):
        return x == zint(y)
    if xs == BOOL and (ys == BOOL or is_boollike(y)):
        return x == zbool(y)
    xv = coerce(it, x, xs, V) if xs is not None and xs != V else M.to_v(it, x)
    yv = coerce(it, y, ys, V) if ys is not None and ys != V else M.to_v(it, y)
    return z3.And(xv == yv, z3.Not(is_nan(xv)), z3.Not(is_nat(xv)))


def arr_binop(it, a, op, other, swapped):
    import ast
    s = a.seq
    if isinstance(other, NDArr):
        o = other.seq
        _link_filters(it, s, o)
        if not it.ctx.branch(zint(o.len) == zint(s.len)):
            if not it.ctx.branch(z3.Or(zint(o.len) == 1, zint(s.len) == 1)):
                raise PyRaise("ValueError", "operands could not be broadcast")
            raise Unsupported("broadcast binop")
        if isinstance(op, (ast.BitAnd, ast.BitOr)) and s.sort == BOOL and o.sort == BOOL:
            f = z3.And if isinstance(op, ast.BitAnd) else z3.Or
            return NDArr(it.ctx, Seq(s.len, lambda j: f(s.at(j), o.at(j)), BOOL), "bool", "fresh", a.cls)
        if s.sort == INT and o.sort == INT and isinstance(op, (ast.Add, ast.Sub)):
            sg = 1 if isinstance(op, ast.Add) else -1
            if swapped:
                return NDArr(it.ctx, Seq(s.len, lambda j: o.at(j) + sg * s.at(j), INT), "int", "fresh", a.cls)
            return NDArr(it.ctx, Seq(s.len, lambda j: s.at(j) + sg * o.at(j), INT), "int", "fresh", a.cls)
    elif s.sort == INT and is_intlike(other) and isinstance(op, (ast.Add, ast.Sub)):
        c = zint(other)
        if isinstance(op, ast.Add):
            return NDArr(it.ctx, Seq(s.len, lambda j: s.at(j) + c, INT), "int", "fresh", a.cls)
        if swapped:
            return NDArr(it.ctx, Seq(s.len, lambda j: c - s.at(j), INT), "int", "fresh", a.cls)
        return NDArr(it.ctx, Seq(s.len, lambda j: s.at(j) - c, INT), "int", "fresh", a.cls)
    raise Unsupported(f"array operator {type(op).__name__}")


def arr_unop(it, a, op):
    import ast
    s = a.seq
    if isinstance(op, ast.Invert) and s.sort == BOOL:
        return NDArr(it.ctx, Seq(s.len, lambda j: z3.Not(s.at(j)), BOOL), "bool", "fresh", a.cls)
    if isinstance(op, ast.USub) and s.sort == INT:
        return NDArr(it.ctx, Seq(s.len, lambda j: -s.at(j), INT), "int", "fresh", a.cls)
    if isinstance(op, ast.Invert) and s.sort == INT:
        return NDArr(it.ctx, Seq(s.len, lambda j: -s.at(j) - 1, INT), "int", "fresh", a.cls)
    if isinstance(op, (ast.USub, ast.Invert)) and s.sort == V:
        # -x on float / timedelta arrays, ~x on integer arrays: order-reversing, NaN / NaT stay what they are.
        # (~x never overflows; -x is used by the code only for float and timedelta kinds.)
        name = "neg" if isinstance(op, ast.USub) else "inv"
        neg = z3.Function(name, V, V)
        x, y = z3.Consts("x!ng y!ng", V)
        ctx = it.ctx
        done = ctx.__dict__.setdefault("_neg_axioms", set())
        if name not in done:
            done.add(name)
            ctx.axioms.append(z3.ForAll([x, y], v_lt(neg(x), neg(y)) == v_lt(y, x), patterns=[z3.MultiPattern(neg(x), neg(y))]))
            ctx.axioms.append(z3.ForAll([x, y], (neg(x) == neg(y)) == (x == y), patterns=[z3.MultiPattern(neg(x), neg(y))]))
            ctx.axioms.append(z3.ForAll([x], z3.And(is_nan(neg(x)) == is_nan(x), is_nat(neg(x)) == is_nat(x)), patterns=[neg(x)]))
        it.ctx.used_models.add("unary minus (float/timedelta) and bitwise not (integers) on arrays reverse the order; NaN/NaT unchanged - assumed")
        if isinstance(op, ast.USub):
            # machine integers: -x wraps at the smallest signed value (order reversed only among the other values) and for
            # every non-zero unsigned value (no order statement at all); only float / timedelta negation is exact
            negi, negu = z3.Function("neg_int", V, V), z3.Function("neg_uint", V, V)
            is_min = z3.Function("is_int_min", V, BOOL)
            if "neg_int" not in done:
                done.add("neg_int")
                ctx.axioms.append(z3.ForAll([x, y], z3.Implies(z3.And(z3.Not(is_min(x)), z3.Not(is_min(y))), v_lt(negi(x), negi(y)) == v_lt(y, x)),
                                            patterns=[z3.MultiPattern(negi(x), negi(y))]))
                ctx.axioms.append(z3.ForAll([x, y], (negi(x) == negi(y)) == (x == y), patterns=[z3.MultiPattern(negi(x), negi(y))]))
                ctx.axioms.append(z3.ForAll([x, y], (negu(x) == negu(y)) == (x == y), patterns=[z3.MultiPattern(negu(x), negu(y))]))
                ctx.axioms.append(z3.ForAll([x], z3.And(z3.Not(is_nan(negi(x))), z3.Not(is_nat(negi(x))), z3.Not(is_nan(negu(x))), z3.Not(is_nat(negu(x)))),
                                            patterns=[negi(x)]))
                it.ctx.used_models.add("unary minus on signed integers reverses the order except at the smallest value (wraps); on unsigned integers nothing is assumed")
            exact = kind_is(a.kind, "float", "timedelta")
            signed = kind_is(a.kind, "int")
            if exact is True or (isinstance(a.kind, str) and a.kind in ("float", "timedelta")):
                pass
            elif isinstance(a.kind, str):
                f = negi if a.kind == "int" else negu
                return NDArr(it.ctx, Seq(s.len, lambda j: f(s.at(j)), V), a.kind, "fresh", a.cls)
            else:
                return NDArr(it.ctx, Seq(s.len, lambda j: z3.If(exact, neg(s.at(j)), z3.If(signed, negi(s.at(j)), negu(s.at(j)))), V),
                             a.kind, "fresh", a.cls)
        return NDArr(it.ctx, Seq(s.len, lambda j: neg(s.at(j)), V), a.kind, "fresh", a.cls)
    raise Unsupported("array unary operator")


# ---------------------------------------------------------------------------------------
# ndarray attributes and methods
# ---------------------------------------------------------------------------------------
def _m_copy(it, args, kwargs):
    a = args[0]
    return a.fresh_like(a.seq.clone())


def _m_view(it, args, kwargs):
    a, cls = args
    if not isinstance(cls, ClassObj):
        raise Unsupported("view(dtype)")
    return a.with_cls(cls)


def astype_kind(it, t):
    if isinstance(t, DType):
        return t.kind
    if isinstance(t, TypeObj):
        return {"bool": "bool", "int": "int", "float": "float", "str": "string", "object": "object", "bytes": "bytes"}.get(t.name)
    if isinstance(t, str):
        if t.startswith("U"):
            return "fixedstr"
        if t.startswith("datetime64"):
            return "datetime"
    return None


def _m_astype(it, args, kwargs):
    a, t = args[0], args[1]
    kind = astype_kind(it, t)
    if kind is None:
        raise Unsupported(f"astype({t!r})")
    s = a.seq
    if isinstance(t, str) and t.startswith("U"):
        # astype('U<n>') needs n >= 1 (NumPy raises TypeError for U0)
        width = t[1:]
        if width.isdigit() and int(width) == 0:
            raise PyRaise("TypeError", "astype('U0')")
    if isinstance(kind, str) and kind == "bool" and s.sort != BOOL:
        out = Seq(s.len, lambda j: coerce(it, s.at(j), s.sort, BOOL), BOOL)
    elif isinstance(kind, str) and kind == "int" and s.sort == V:
        out = Seq(s.len, lambda j: s.at(j), V)
    else:
        if same_kind(a.kind, kind):
            cast = None
        elif isinstance(kind, str):
            cast = z3.Function(f"cast_{kind}", V, V)
        else:
            # the target kind is symbolic (e.g. astype(other.na_dtype)): the cast is a function of the kind and the value
            _ck = z3.Function("cast_to_kind", INT, V, V)
            cast = (lambda kt: lambda v: _ck(kt, v))(kind_term(kind))
        if s.sort != V:
            out = Seq(s.len, s.at, s.sort)
        elif cast is None:
            out = Seq(s.len, s.at, V)
        else:
            out = Seq(s.len, lambda j: cast(s.at(j)), V)
    return a.fresh_like(out, kind=kind)


def same_kind(a, b):
    return isinstance(a, str) and isinstance(b, str) and a == b


def _m_repeat(it, args, kwargs):
    a, n = args[0], args[1]
    s = a.seq
    if isinstance(n, NDArr):
        raise Unsupported("repeat with per-element counts")
    ln = conc(s.len)
    one = (ln == 1) if isinstance(ln, int) else it.ctx.valid(zint(ln) == 1)
    if not one:
        if it.ctx.branch(zint(ln) == 0):
            return a.fresh_like(Seq(0, s.at, s.sort))       # repeating nothing gives nothing
        one = it.ctx.branch(zint(ln) == 1)
    if one:
        e = s.at(0)
        nn = conc(z3.If(zint(n) >= 0, zint(n), 0))
        if not it.ctx.branch(zint(n) >= 0):
            raise PyRaise("ValueError", "negative repeat count")
        return a.fresh_like(Seq(conc(zint(n)), lambda j: e, s.sort))
    raise Unsupported("repeat of a longer array")


def _m_any(it, args, kwargs):
    s = args[0].seq
    j = z3.Int("j!any")
    return z3.Exists([j], z3.And(in_range(j, s.len), coerce(it, s.at(j), s.sort, BOOL)))


def _m_all(it, args, kwargs):
    s = args[0].seq
    j = z3.Int("j!all")
    return z3.ForAll([j], z3.Implies(in_range(j, s.len), coerce(it, s.at(j), s.sort, BOOL)))


def _m_tolist(it, args, kwargs):
    return MList(it.ctx, args[0].seq)


def _m_item(it, args, kwargs):
    raise Unsupported("ndarray.item")


def _m_sum(it, args, kwargs):
    a = args[0]
    s = a.seq
    if s.sort == BOOL:
        e = __import__("pyvc.core", fromlist=["Enum"]).Enum.of(it.ctx, s.len, lambda k: s.at(k))
        return e.cnt
    raise Unsupported("sum of non-boolean array")


def elt_lt(kind, x, y):
    """x sorts strictly before y in NumPy's sort order for dtype kind: NaN / NaT last, otherwise the value order"""
    k = kind_term(kind)
    base = v_lt(x, y)
    fl = z3.And(z3.Not(is_nan(x)), z3.Or(is_nan(y), base))
    dt = z3.And(z3.Not(is_nat(x)), z3.Or(is_nat(y), base))
    return z3.If(k == KCODE["float"], fl, z3.If(z3.Or(k == KCODE["datetime"], k == KCODE["timedelta"]), dt, base))


def _m_argsort(it, args, kwargs):
    """argsort(kind="stable"): a permutation that orders the elements (NaN/NaT last), stable."""
    from .speclib import Perm
    a = as_arr(it, args[0])
    stable = kwargs.get("kind") in ("stable", "mergesort")      # NumPy's default (quicksort / introsort) is NOT stable
    s = a.seq
    ctx = it.ctx
    pm = Perm(ctx, s.len, "argsort")
    x, y = z3.Ints("a!as b!as")
    rng = z3.And(0 <= x, x < y, y < zint(s.len))
    if s.sort == INT:
        lt = lambda p, q: s.at(p) < s.at(q)
    elif s.sort == BOOL:
        lt = lambda p, q: z3.And(z3.Not(s.at(p)), s.at(q))
    else:
        lt = lambda p, q: elt_lt(a.kind, s.at(p), s.at(q))
    px, py = pm.perm(x), pm.perm(y)
    if stable:
        ctx.assumptions.append(z3.ForAll([x, y], z3.Implies(rng, z3.And(z3.Not(lt(py, px)), z3.Implies(z3.Not(lt(px, py)), px < py))),
                                         patterns=[z3.MultiPattern(pm.perm(x), pm.perm(y))]))
    else:
        # ordered, but nothing is known about the relative order of equal elements
        ctx.assumptions.append(z3.ForAll([x, y], z3.Implies(rng, z3.Not(lt(py, px))), patterns=[z3.MultiPattern(pm.perm(x), pm.perm(y))]))
        ctx.used_models.add("argsort without kind='stable': an ordering permutation, ties in unspecified order")
    srt = getattr(s, "sorted_seq", None)
    if srt is not None:
        # a rearrangement of a strictly increasing sequence sorts back to that sequence (consequence of the above)
        j = z3.Int("j!as")
        ctx.assumptions.append(z3.ForAll([j], z3.Implies(in_range(j, s.len), s.at(pm.perm(j)) == srt.at(j)), patterns=[pm.perm(j)]))
    r = NDArr(ctx, Seq(s.len, lambda j: pm.perm(j), INT), "int", "fresh", a.cls)
    r.perm = pm
    it.last_argsort = pm
    return r


def _m_max(it, args, kwargs):
    a = args[0]
    s = a.seq
    if not it.ctx.branch(zint(s.len) > 0):
        raise PyRaise("ValueError", "zero-size array to reduction operation maximum which has no identity")
    if s.sort != INT:
        raise Unsupported("max of a non-integer array")
    m = it.ctx.fresh("amax", INT)
    j = z3.Int("j!mx")
    w = it.ctx.fresh("amax_at", INT)
    it.ctx.assumptions.append(z3.ForAll([j], z3.Implies(in_range(j, s.len), s.at(j) <= m), patterns=[s.at(j)]))
    it.ctx.assumptions.append(z3.And(in_range(w, s.len), s.at(w) == m))
    return m


ARRAY_METHODS = {"argsort": ModelFn("ndarray.argsort(kind='stable')", _m_argsort), "max": ModelFn("ndarray.max", _m_max),
                 "copy": ModelFn("ndarray.copy [fresh]", _m_copy), "view": ModelFn("ndarray.view [view]", _m_view),
                 "astype": ModelFn("ndarray.astype [fresh]", _m_astype), "repeat": ModelFn("ndarray.repeat [fresh]", _m_repeat),
                 "any": ModelFn("ndarray.any", _m_any), "all": ModelFn("ndarray.all", _m_all),
                 "tolist": ModelFn("ndarray.tolist", _m_tolist), "sum": ModelFn("ndarray.sum", _m_sum)}

ARRAY_ATTRS = {"dtype": lambda it, a: DType(a.kind), "size": lambda it, a: conc(a.len), "ndim": lambda it, a: a.ndim,
               "shape": lambda it, a: (conc(a.len),)}


# ---------------------------------------------------------------------------------------
# numpy module functions
# ---------------------------------------------------------------------------------------
def _np_take(it, args, kwargs):
    a = as_arr(it, args[0])
    return take(it, a, index_seq(it, args[1]))


def _np_delete(it, args, kwargs):
    """np.delete(a, idx): elements at the given positions removed, order kept; FRESH."""
    a = as_arr(it, args[0])
    pos = index_seq(it, args[1])
    s = a.seq
    if getattr(pos, "index_enum", False) and it.ctx.valid(zint(pos.src_len) == zint(s.len)):
        # the positions are the increasing enumeration of {k | g(k)}: what remains is {k | not g(k)}
        # (by the defining axioms of the enumeration: idx(t) == k for some t  <=>  g(k))
        g = pos.guard
        out = filter_seq(it.ctx, s.len, lambda k: z3.Not(zbool(g(k))), lambda k: s.at(k), s.sort)
        return a.fresh_like(out)
    check_indices(it, pos, s.len, "delete index")
    dropped = dropped_pred(pos, s.len)
    out = filter_seq(it.ctx, s.len, lambda k: z3.Not(dropped(k)), lambda k: s.at(k), s.sort)
    return a.fresh_like(out)


def dropped_pred(pos, n):
    """k is one of the (wrapped) positions in pos"""
    t = z3.Int("t!del")

    def dropped(k):
        if isinstance(conc(pos.len), int) and conc(pos.len) <= 4:
            return z3.Or(*[wrap_index(pos.at(i), n) == k for i in range(conc(pos.len))]) if conc(pos.len) else z3.BoolVal(False)
        return z3.Exists([t], z3.And(in_range(t, pos.len), wrap_index(pos.at(t), n) == k))
    return dropped


def _np_nonzero(it, args, kwargs):
    a = as_arr(it, args[0])
    s = a.seq
    out = filter_seq(it.ctx, s.len, lambda k: coerce(it, s.at(k), s.sort, BOOL), lambda k: k, INT)
    out.index_enum = True      # the positions ARE the enumerated indices
    return (NDArr(it.ctx, out, "int"),)


def _np_arange(it, args, kwargs):
    if len(args) == 1:
        lo, hi = 0, args[0]
    else:
        lo, hi = args[0], args[1]
    n = conc(z3.If(zint(hi) - zint(lo) >= 0, zint(hi) - zint(lo), 0))
    return NDArr(it.ctx, Seq(n, lambda j: zint(lo) + j, INT), "int")


def _np_concatenate(it, args, kwargs):
    parts = args[0]
    kind, coll = M.iter_of(it, parts)
    if kind != "concrete":
        raise Unsupported("concatenate of a symbolic number of arrays")
    arrs = [as_arr(it, p) for p in coll]
    if not arrs:
        raise PyRaise("ValueError", "need at least one array to concatenate")
    s = arrs[0].seq
    k = arrs[0].kind
    for b in arrs[1:]:
        bs = b.seq
        if bs.sort != s.sort:
            s = Seq(s.len, (lambda ss: lambda j: coerce(it, ss.at(j), ss.sort, V))(s), V)
            bs = Seq(bs.len, (lambda bb: lambda j: coerce(it, bb.at(j), bb.sort, V))(bs), V)
        s = s.concat(bs)
        if not same_kind(k, b.kind):
            if not it.ctx.branch(promotable(k, b.kind)):
                raise PyRaise("TypeError", "DTypePromotionError: no common dtype")
            k2 = it.ctx.fresh("promoted_kind", INT)
            it.ctx.assume(z3.Implies(kind_term(k) == kind_term(b.kind), k2 == kind_term(k)))
            k = k2
    return NDArr(it.ctx, s, k, "fresh", None)


def promotable(k1, k2):
    """NumPy finds a common dtype for kinds k1, k2 (assumed table): equal kinds, two numeric kinds,
    two string kinds, or anything with object."""
    a, b = kind_term(k1), kind_term(k2)
    num = lambda x: z3.Or(*[x == KCODE[n] for n in ("bool", "int", "uint", "float")])
    st = lambda x: z3.Or(x == KCODE["string"], x == KCODE["fixedstr"])
    return z3.Or(a == b, z3.And(num(a), num(b)), z3.And(st(a), st(b)), a == KCODE["object"], b == KCODE["object"])


def _np_sort(it, args, kwargs):
    a = as_arr(it, args[0])
    s = a.seq
    if s.sort != INT:
        raise Unsupported("np.sort of non-index array")
    from .speclib import Perm
    pm = Perm(it.ctx, s.len, "npsort")
    out = Seq(s.len, lambda j: s.at(pm.perm(j)), INT)
    x, y = z3.Ints("a!ns b!ns")
    it.ctx.assumptions.append(z3.ForAll([x, y], z3.Implies(z3.And(0 <= x, x < y, y < zint(s.len)), out.at(x) <= out.at(y)),
                                        patterns=[z3.MultiPattern(pm.perm(x), pm.perm(y))]))
    r = NDArr(it.ctx, out, "int")
    r.perm = pm
    it.last_sorted_choice = out       # ghost: lets a contract name the sorted index vector
    return r


def _np_where(it, args, kwargs):
    if len(args) == 1:
        return _np_nonzero(it, args, kwargs)
    cond, x, y = args
    c = as_arr(it, cond).seq
    if c.sort != BOOL:
        raise Unsupported("np.where on non-boolean condition")

    def side(v):
        if isinstance(v, NDArr):
            sv = v.seq
            return lambda j: coerce(it, sv.at(j), sv.sort, V)
        vv = M.to_v(it, v)
        return lambda j: vv
    fx, fy = side(x), side(y)
    # element-wise choice; the result is a new (object) array
    return NDArr(it.ctx, Seq(c.len, lambda j: z3.If(c.at(j), fx(j), fy(j)), V), "object", "fresh", None)


def _np_fromiter(it, args, kwargs):
    src = args[0]
    s = M.as_seq(it, src)
    s = M.unstructure(s)
    if s.sort == V:
        s = Seq(s.len, (lambda ss: lambda j: intof(ss.at(j)))(s), INT)
    return NDArr(it.ctx, s, "int")


def _np_issubdtype(it, args, kwargs):
    d, t = args
    if M.is_v(d) and isinstance(t, TypeObj) and t.name in M.SUBDTYPE:
        # a symbolic class (element of a set of classes)
        it.ctx.used_models.add("np.issubdtype(class, np.floating/np.integer): known classes by table (timedelta64 counts as integer), others uninterpreted")
        return M._class_pred(it.ctx, "issubdtype_" + t.name, set(M.SUBDTYPE[t.name]))(d)
    if isinstance(d, TypeObj):
        d = DType(astype_kind(it, d))
    if not isinstance(d, DType):
        raise Unsupported("issubdtype of non-dtype")
    name = t.name if isinstance(t, TypeObj) else str(t)
    table = {"bool_": ("bool",), "bytes_": ("bytes",), "datetime64": ("datetime",), "floating": ("float",),
             "integer": ("int", "uint", "timedelta"), "number": ("int", "uint", "float", "timedelta"),
             "object_": ("object",), "str_": ("fixedstr",), "timedelta64": ("timedelta",)}
    if name not in table:
        raise Unsupported(f"issubdtype(.., {name})")
    it.ctx.used_models.add("np.issubdtype kind table (appendix B; timedelta64 counts as integer/number)")
    return kind_is(d.kind, *table[name])


def _np_isnan(it, args, kwargs):
    a = args[0]
    if isinstance(a, NDArr):
        s = a.seq
        return NDArr(it.ctx, Seq(s.len, lambda j: is_nan(coerce(it, s.at(j), s.sort, V)), BOOL), "bool", "fresh", a.cls)
    return is_nan(M.to_v(it, a))


def _np_isnat(it, args, kwargs):
    a = args[0]
    if isinstance(a, NDArr):
        s = a.seq
        return NDArr(it.ctx, Seq(s.len, lambda j: is_nat(coerce(it, s.at(j), s.sort, V)), BOOL), "bool", "fresh", a.cls)
    return is_nat(M.to_v(it, a))


def _np_array(it, args, kwargs):
    obj = args[0]
    dtype = args[1] if len(args) > 1 else kwargs.get("dtype")
    kind = astype_kind(it, dtype) if dtype is not None else None
    if isinstance(obj, NDArr):
        return NDArr(it.ctx, obj.seq.clone(), obj.kind if kind is None else kind, "fresh", None)
    a = as_arr(it, obj, kind)
    if kind is not None and not same_kind(a.kind, kind):
        a = NDArr(it.ctx, a.seq, kind, "fresh", None)
    return a


def _np_full_like(it, args, kwargs):
    """np.full_like(a, fill, dtype=None): a new array of a's length, every element the fill value converted to the
    result dtype (NaN becomes NaT in a datetime / timedelta array; otherwise the value itself)."""
    a = as_arr(it, args[0])
    fill = args[1] if len(args) > 1 else kwargs.get("fill_value")
    dtype = args[2] if len(args) > 2 else kwargs.get("dtype")
    kind = a.kind if dtype is None else astype_kind(it, dtype)
    if kind is None:
        raise Unsupported(f"full_like dtype {dtype!r}")
    fv = M.to_v(it, fill)
    temporal = kind_is(kind, "datetime", "timedelta")
    val = z3.If(z3.And(temporal, is_nan(fv)), NAT, fv) if not isinstance(temporal, bool) else (z3.If(is_nan(fv), NAT, fv) if temporal else fv)
    return NDArr(it.ctx, Seq(a.seq.len, lambda j: val, V), kind, "fresh", None)


def _np_zeros_like(it, args, kwargs):
    """np.zeros_like(a, dtype=None): a new array of a's length; False for a boolean result, 0 for an integer one
    (other result dtypes are not modelled)."""
    a = as_arr(it, args[0])
    dtype = args[1] if len(args) > 1 else kwargs.get("dtype")
    kind = a.kind if dtype is None else astype_kind(it, dtype)
    if isinstance(kind, str) and kind == "bool":
        return NDArr(it.ctx, Seq(a.seq.len, lambda j: z3.BoolVal(False), BOOL), "bool", "fresh", None)
    if isinstance(kind, str) and kind == "int":
        return NDArr(it.ctx, Seq(a.seq.len, lambda j: z3.IntVal(0), INT), "int", "fresh", None)
    raise Unsupported(f"zeros_like with result kind {kind!r}")


class NpStringsFn:
    """numpy.strings.<name>: only its identity is modelled (which function a proxy forwards to); calling it is unsupported"""
    def __init__(self, name):
        self.name = name

    def pyvc_call(self, it, args, kwargs):
        raise Unsupported(f"numpy.strings.{self.name} not modelled")

    def __repr__(self):
        return f"<numpy.strings.{self.name}>"


class Vectorized:
    """np.vectorize(f): applies f to every element; the result is a new array of the same length (dtype from the values:
    unknown here)."""
    def __init__(self, f):
        self.f = f

    def pyvc_call(self, it, args, kwargs):
        a = as_arr(it, args[0])
        s = a.seq
        f = self.f
        from .speclib import eval_for_arbitrary
        if hasattr(f, "apply"):
            at = lambda j: M.to_v(it, f.apply(it, coerce(it, s.at(j), s.sort, V)))
        else:
            proto = eval_for_arbitrary(it, f, lambda j: coerce(it, s.at(j), s.sort, V), s.len, "vec")
            at = lambda j: M.to_v(it, proto(j))
        k = it.ctx.fresh("vectorized_kind", INT)
        it.ctx.assume(z3.And(k >= 0, k < len(KINDS)))
        it.ctx.used_models.add("np.vectorize(f)(a): f applied to every element of a, new array")
        return NDArr(it.ctx, Seq(s.len, at, V), k, "fresh", None)


def _np_lexsort(it, args, kwargs):
    from .speclib import np_lexsort
    return np_lexsort(it, args, kwargs)


def _np_split(it, args, kwargs):
    """np.split(a, cuts) for a 1-D array and an increasing array of cut positions within [0, len(a)]: the list of the
    len(cuts)+1 consecutive pieces a[0:c0], a[c0:c1], ..., a[c_last:] (views).  The precondition on the cuts is an obligation."""
    a, cuts = as_arr(it, args[0]), as_arr(it, args[1])
    ctx = it.ctx
    n, m = zint(a.seq.len), zint(cuts.seq.len)
    c = lambda t: zint(coerce(it, cuts.seq.at(t), cuts.seq.sort, INT)) if cuts.seq.sort != INT else zint(cuts.seq.at(t))
    t0 = ctx.fresh("t", INT)
    ob = ctx.prove("pre:np.split(cut positions are increasing and within the array)",
                   z3.Implies(z3.And(0 <= t0, t0 < m), z3.And(0 <= c(t0), c(t0) <= n, z3.Implies(t0 + 1 < m, c(t0) <= c(t0 + 1)))), kind="pre")
    lo = lambda t: z3.If(zint(t) == 0, 0, c(zint(t) - 1))
    hi = lambda t: z3.If(zint(t) == m, n, c(zint(t)))

    def piece(t):
        return NDArr(ctx, Seq(conc(hi(t) - lo(t)), lambda j: a.seq.at(lo(t) + j), a.seq.sort), a.kind, a.owner, a.cls, base=None)
    out = Seq(conc(m + 1), piece, None)
    out.keep_symbolic = True
    out.split_bounds = (lo, hi)
    it.ctx.used_models.add("np.split(a, cuts): consecutive pieces of a between increasing cut positions")
    return MList(ctx, out)


def _np_unique(it, args, kwargs):
    """np.unique(a, return_index=True): (sorted distinct values, index of the first occurrence of each).  Only the
    index part is modelled: a rearrangement of the increasing enumeration of the first occurrences (NaN and NaT
    count as equal to themselves here - NumPy's equal_nan=True)."""
    from .speclib import Perm
    a = as_arr(it, args[0])
    if not kwargs and len(args) == 1:
        # np.unique(a): the sorted distinct values; only their NUMBER is modelled (the uninterpreted count_distinct statistic of
        # the elements, as for len(set(...))), the values themselves are unknown
        from .core import intof
        n = intof(stat_term(it, "count_distinct", a.seq))
        it.ctx.assume(z3.And(n >= 0, n <= zint(a.seq.len)))
        vals = it.ctx.fresh_fn("uniq_val", INT, V)
        it.ctx.used_models.add("np.unique(a): number of results = number of distinct elements (uninterpreted) - assumed")
        return NDArr(it.ctx, Seq(n, lambda j: vals(j), V), a.kind, "fresh", None)
    if not kwargs.get("return_index") or kwargs.get("return_inverse"):
        raise Unsupported("np.unique without return_index / with return_inverse")
    ctx = it.ctx
    s = a.seq
    if s.sort == V:
        # np.unique sorts: in an object array None cannot be ordered against anything (TypeError), not even against None
        j0 = ctx.fresh("j", INT)
        is_obj = kind_is(a.kind, "object")
        if is_obj is not False:
            ctx.prove("pre:np.unique(no None among the elements of an object array: they must be orderable)",
                      z3.Implies(z3.And(is_obj if not isinstance(is_obj, bool) else z3.BoolVal(is_obj), in_range(j0, s.len), zint(s.len) >= 2),
                                 s.at(j0) != NONE), kind="pre")
    q = z3.Int("q!un")
    equal_nan = kwargs.get("equal_nan", True)
    if equal_nan is not True and equal_nan is not False:
        raise Unsupported("np.unique with a symbolic equal_nan")
    if equal_nan:
        same = lambda p, r: s.at(p) == s.at(r) if s.sort != V else z3.Or(s.at(p) == s.at(r), z3.And(is_nan(s.at(p)), is_nan(s.at(r))),
                                                                       z3.And(is_nat(s.at(p)), is_nat(s.at(r))))
    else:
        # equal_nan=False: every NaN / NaT is a value of its own
        same = lambda p, r: s.at(p) == s.at(r) if s.sort != V else z3.And(s.at(p) == s.at(r), z3.Not(is_nan(s.at(p))), z3.Not(is_nat(s.at(p))))
    first = lambda i: z3.Not(z3.Exists([q], z3.And(0 <= q, q < i, same(q, i))))
    e = Enum.of(ctx, s.len, first)
    inc = Seq(e.cnt, lambda j: e.idx(j), INT)
    pm = Perm(ctx, e.cnt, "uniqorder")
    idx = Seq(e.cnt, lambda j: e.idx(pm.perm(j)), INT)
    idx.sorted_seq = inc
    # every first occurrence appears in the index vector, at position inv(r) (consequence of the bijection axioms; stated
    # with the trigger idx(r) so that the position is available to E-matching)
    r_ = z3.Int("r!un")
    ctx.assumptions.append(z3.ForAll([r_], z3.Implies(in_range(r_, e.cnt), z3.And(in_range(pm.inv(r_), e.cnt), pm.perm(pm.inv(r_)) == r_)),
                                     patterns=[e.idx(r_)]))
    vals = NDArr(ctx, Seq(e.cnt, lambda j: s.at(e.idx(pm.perm(j))), s.sort), a.kind, "fresh", a.cls)
    return (vals, NDArr(ctx, idx, "int", "fresh", a.cls))


def _np_random_choice(it, args, kwargs):
    """np.random.choice(n, k, replace=False): k distinct values of range(n) (order arbitrary)."""
    n, k = args[0], args[1]
    if kwargs.get("replace", True) is not False:
        raise Unsupported("choice with replacement")
    ctx = it.ctx
    if not ctx.branch(zint(k) <= zint(n)):
        raise PyRaise("ValueError", "Cannot take a larger sample than population")
    f = ctx.fresh_fn("choice", INT, INT)
    i, j = z3.Ints("i!ch j!ch")
    ctx.assumptions.append(z3.ForAll([i], z3.Implies(in_range(i, k), in_range(f(i), n)), patterns=[f(i)]))
    ctx.assumptions.append(z3.ForAll([i, j], z3.Implies(z3.And(in_range(i, k), in_range(j, k), i != j), f(i) != f(j)),
                                     patterns=[z3.MultiPattern(f(i), f(j))]))
    return NDArr(ctx, Seq(conc(zint(k)), lambda t: f(t), INT), "int")


def _np_dtype(it, args, kwargs):
    t = args[0]
    k = astype_kind(it, t)
    if k is None:
        raise Unsupported("np.dtype")
    return DType(k)


_stat_fns = {}


def stat_term(it, name, seq, extra=()):
    """Uninterpreted statistic of a sequence: stat_<name>(elements as an array, length, extra arguments...)"""
    key = (name, len(extra))
    if key not in _stat_fns:
        _stat_fns[key] = z3.Function("stat_" + name, z3.ArraySort(INT, V), INT, *([V] * len(extra)), V)
    j = z3.Int("j!st")
    arr = z3.Lambda([j], coerce(it, seq.at(j), seq.sort, V))
    return _stat_fns[key](arr, zint(seq.len), *[M.to_v(it, e) for e in extra])


def _reduction(name, needs_nonempty=False):
    def fn(it, args, kwargs):
        a = as_arr(it, args[0])
        s = a.seq
        if name in ("all", "any") and s.sort == BOOL and not getattr(it, "np_scalars", False):
            j = z3.Int("j!" + name)          # exact meaning on boolean arrays
            if name == "all":
                return z3.ForAll([j], z3.Implies(in_range(j, s.len), s.at(j)))
            return z3.Exists([j], z3.And(in_range(j, s.len), s.at(j)))
        if needs_nonempty and not it.ctx.branch(zint(s.len) > 0):
            raise PyRaise("ValueError", f"zero-size array to reduction operation {name} which has no identity")
        extra = list(args[1:]) + [kwargs[k] for k in sorted(kwargs)]
        it.ctx.used_models.add(f"np.{name}: the textbook statistic of the elements (uninterpreted; NaN-propagating) - assumed")
        t = stat_term(it, name + ("_" + "_".join(sorted(kwargs)) if kwargs else ""), s, extra)
        return NPScalar(t, a.kind if name in ("amax", "amin", "sum") else "float")
    return ModelFn("np." + name, fn)


def _np_datetime64(it, args, kwargs):
    """np.datetime64(x) / np.timedelta64(x): the missing value for "NaT", otherwise some non-missing date value"""
    if args and isinstance(args[0], str) and args[0] == "NaT":
        return NAT
    v = it.ctx.fresh("date_value", V)
    it.ctx.assume(z3.And(z3.Not(is_nat(v)), z3.Not(is_nan(v)), v != NONE))
    return v


def make_np(it):
    if not it.ctx.__dict__.get("_nan_axioms"):
        it.ctx.__dict__["_nan_axioms"] = True
        it.ctx.axioms += [is_nan(NAN), is_nat(NAT), z3.Not(is_nat(NAN)), z3.Not(is_nan(NAT)), NAN != NONE, NAT != NONE,
                          NAN != ABSENT, NAT != ABSENT, NAN != NAT]
    members = {
        "all": _reduction("all"), "any": _reduction("any"), "amax": _reduction("amax", True), "amin": _reduction("amin", True),
        "mean": _reduction("mean"), "median": _reduction("median"), "quantile": _reduction("quantile"), "std": _reduction("std"),
        "var": _reduction("var"), "sum": _reduction("sum"),
        "take": ModelFn("np.take [fresh]", _np_take), "delete": ModelFn("np.delete [fresh]", _np_delete),
        "nonzero": ModelFn("np.nonzero", _np_nonzero), "flatnonzero": ModelFn("np.flatnonzero", lambda it_, a, k: _np_nonzero(it_, a, k)[0]),
        "arange": ModelFn("np.arange", _np_arange), "concatenate": ModelFn("np.concatenate [fresh]", _np_concatenate),
        "sort": ModelFn("np.sort [fresh]", _np_sort), "where": ModelFn("np.where", _np_where),
        "fromiter": ModelFn("np.fromiter", _np_fromiter), "issubdtype": ModelFn("np.issubdtype", _np_issubdtype),
        "isnan": ModelFn("np.isnan", _np_isnan), "isnat": ModelFn("np.isnat", _np_isnat),
        "argsort": ModelFn("np.argsort", _m_argsort),
        "array": ModelFn("np.array [fresh]", _np_array), "full_like": ModelFn("np.full_like [fresh]", _np_full_like),
        "zeros_like": ModelFn("np.zeros_like [fresh]", _np_zeros_like),
        "vectorize": ModelFn("np.vectorize", lambda it_, a, k: Vectorized(a[0])), "lexsort": ModelFn("np.lexsort", _np_lexsort),
        "split": ModelFn("np.split [views]", _np_split), "unique": ModelFn("np.unique(return_index)", _np_unique), "dtype": ModelFn("np.dtype", _np_dtype),
        "isscalar": ModelFn("np.isscalar", lambda it_, a, k: not isinstance(a[0], (NDArr, MList, PyList, Seq, list, tuple, dict, GenValue))
                            and not hasattr(a[0], "pyvc_segments")),
        "ndarray": NDARRAY, "bool_": TypeObj("bool_"), "bytes_": TypeObj("bytes_"),
        "datetime64": TypeObj("datetime64", ctor=_np_datetime64), "timedelta64": TypeObj("timedelta64", ctor=_np_datetime64),
        "floating": TypeObj("floating"), "integer": TypeObj("integer"), "number": TypeObj("number"),
        "object_": TypeObj("object_"), "str_": TypeObj("str_"),
        "nan": NAN,
        "strings": ModuleNS("numpy.strings", getter=lambda it_, name: NpStringsFn(name)),
        "random": ModuleNS("np.random", {"choice": ModelFn("np.random.choice", _np_random_choice)}),
    }
    return ModuleNS("numpy", members)
