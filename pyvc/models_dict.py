# -*- coding: utf-8 -*-
"""Symbolic ordered dict (the dict part of a DataFrame) and the dict base-class methods
of repository classes deriving from dict."""
import z3

from .core import (INT, BOOL, V, NONE, ABSENT, Unsupported, PyRaise, Seq, MList, is_z3, is_v, zint, zbool, conc,
                   in_range, forall)
from .interp import ModelFn, TypeObj, Instance, GenValue, OutSeq, PyList, ClassObj
from . import models as M
from .loops import merge


class Family:
    """c -> (key_at(c), val_at(c)) for 0 <= c < n, keys pairwise distinct; pos is the inverse of key_at."""
    def __init__(self, ctx, n, key_at, val_at, pos=None, distinct_assumed=True, name="fam"):
        self.n, self.key_at, self.val_at = n, key_at, val_at
        if pos is None:
            pos = ctx.fresh_fn(name + "_pos", V, INT)
            c = z3.Int("c!fam")
            ctx.assumptions.append(forall([c], z3.Implies(in_range(c, n), pos(key_at(c)) == c), patterns=[key_at(c)]))
        self.pos = pos

    def has(self, x):
        p = self.pos(x)
        return z3.And(in_range(p, self.n), self.key_at(p) == x)

    def items_seq(self):
        s = Seq(self.n, lambda c: (self.key_at(c), self.val_at(c)), None)
        s.keep_symbolic = True
        return s

    def keys_seq(self):
        s = Seq(self.n, lambda c: self.key_at(c), V)
        s.keep_symbolic = True
        return s

    def values_seq(self):
        s = Seq(self.n, lambda c: self.val_at(c), None)
        s.keep_symbolic = True
        return s


class Entry:
    def __init__(self, key, value, key_py=None):
        self.key, self.value, self.key_py = key, value, key_py


class OMap:
    """Immutable ordered map: concatenation of Family and Entry segments (keys distinct overall)."""
    def __init__(self, segs):
        self.segs = list(segs)

    def length(self):
        n = 0
        for s in self.segs:
            n = M.add(n, s.n if isinstance(s, Family) else 1)
        return n

    def find(self, it, x):
        """-> (index of the segment holding key x, or None); forks on symbolic conditions."""
        ctx = it.ctx
        xv = M.to_v(it, x)
        for i, s in enumerate(self.segs):
            if isinstance(s, Entry):
                c = M.py_eq(it, s.key, xv) if not (isinstance(x, str) and s.key_py is not None) else (x == s.key_py)
            else:
                c = s.has(xv)
            if ctx.branch(c if not isinstance(c, bool) else c):
                return i, xv
        return None, xv

    def get(self, it, x):
        i, xv = self.find(it, x)
        if i is None:
            raise PyRaise("KeyError", str(x))
        s = self.segs[i]
        return s.value if isinstance(s, Entry) else s.val_at(s.pos(xv))

    def set(self, it, x, v):
        i, xv = self.find(it, x)
        segs = list(self.segs)
        if i is None:
            segs.append(Entry(xv, v, x if isinstance(x, str) else None))
        elif isinstance(segs[i], Entry):
            segs[i] = Entry(segs[i].key, v, segs[i].key_py)
        else:
            f = segs[i]
            p = f.pos(xv)
            nf = Family.__new__(Family)
            nf.n, nf.key_at, nf.pos = f.n, f.key_at, f.pos
            nf.val_at = lambda c, f=f, p=p, v=v: merge(c == p, v, f.val_at(c))
            segs[i] = nf
        return OMap(segs)

    def delete(self, it, x):
        i, xv = self.find(it, x)
        if i is None:
            raise PyRaise("KeyError", str(x))
        segs = list(self.segs)
        s = segs[i]
        if isinstance(s, Entry):
            del segs[i]
            return OMap(segs), s.value
        p = s.pos(xv)
        val = s.val_at(p)
        ctx = it.ctx
        key2 = lambda c, s=s, p=p: z3.If(c < p, s.key_at(c), s.key_at(c + 1))
        val2 = lambda c, s=s, p=p: merge(c < p, s.val_at(c), s.val_at(c + 1))
        segs[i] = Family(ctx, M.sub(s.n, 1), key2, val2, name="famdel")
        # the removed key is gone
        ctx.assumptions.append(z3.Not(segs[i].has(xv)))
        return OMap(segs), val

    def contains(self, it, x):
        xv = M.to_v(it, x)
        r = False
        for s in self.segs:
            if isinstance(s, Entry):
                c = (x == s.key_py) if (isinstance(x, str) and s.key_py is not None) else M.py_eq(it, s.key, xv)
            else:
                c = s.has(xv)
            r = M.or_(it, r, c)
        return r

    def seg_iter(self, what):
        """-> list of segments for iteration: python lists and Seqs."""
        out = []
        for s in self.segs:
            if isinstance(s, Entry):
                item = {"keys": s.key_py if s.key_py is not None else s.key, "values": s.value,
                        "items": (s.key_py if s.key_py is not None else s.key, s.value)}[what]
                if out and isinstance(out[-1], list):
                    out[-1].append(item)
                else:
                    out.append([item])
            else:
                out.append({"keys": s.keys_seq, "values": s.values_seq, "items": s.items_seq}[what]())
        return out


class DictView:
    def __init__(self, omap, what):
        self.omap, self.what = omap, what

    def pyvc_segments(self, it):
        return self.omap.seg_iter(self.what)

    def pyvc_contains(self, it, x):
        if self.what != "keys":
            raise Unsupported("membership in values()/items()")
        return self.omap.contains(it, x)

    def pyvc_len(self, it):
        return conc(self.omap.length())


def omap_of(obj):
    b = obj.base
    if not isinstance(b, OMap):
        raise Unsupported("dict base not initialised")
    return b


def omap_from_pairs(it, src):
    """dict(pairs): keys must be distinct (obligation) - then order = order of the pairs."""
    ctx = it.ctx
    if isinstance(src, GenValue):
        out = src.seq
        segs_in = out.segs
    elif isinstance(src, (list, tuple)):
        segs_in = [list(src)]
    elif isinstance(src, dict):
        segs_in = [list(src.items())]
    elif hasattr(src, "pyvc_segments"):
        segs_in = src.pyvc_segments(it)
    else:
        kind, coll = M.iter_of(it, src)
        segs_in = [coll] if kind != "segments" else coll
    segs = []
    late_entries = []        # (key, value, key_py) pairs that follow a symbolic segment: applied with dict
                             # assignment semantics (an existing key keeps its position, its value is replaced)
    for sg in segs_in:
        if isinstance(sg, (list, PyList)):
            for kv in (sg if isinstance(sg, list) else sg.items):
                k, v = M.unpack(it, kv, 2)
                if any(isinstance(x, Family) for x in segs):
                    late_entries.append((k, v))
                else:
                    segs.append(Entry(M.to_v(it, k), v, k if isinstance(k, str) else None))
        else:
            if late_entries:
                raise Unsupported("dict construction: symbolic segment after overriding entries")
            segs.append(Family(ctx, sg.len, (lambda s: lambda c: s.at(c)[0])(sg), (lambda s: lambda c: s.at(c)[1])(sg), name="famnew"))
    # distinctness of keys
    c1, c2 = z3.Ints("c1!dk c2!dk")
    for i, a in enumerate(segs):
        if isinstance(a, Family):
            ctx.prove("pre:dict-keys-distinct(within one loop's output)",
                      z3.ForAll([c1, c2], z3.Implies(z3.And(in_range(c1, a.n), in_range(c2, a.n), c1 != c2),
                                                     a.key_at(c1) != a.key_at(c2))), kind="pre")
        for b in segs[i + 1:]:
            if isinstance(a, Entry) and isinstance(b, Entry):
                if a.key_py is not None and b.key_py is not None:
                    if a.key_py == b.key_py:
                        raise Unsupported("duplicate concrete key in dict construction")
                    continue
                ctx.prove("pre:dict-keys-distinct", a.key != b.key, kind="pre")
            elif isinstance(a, Family) and isinstance(b, Family):
                ctx.prove("pre:dict-keys-distinct(across loops)",
                          z3.ForAll([c1, c2], z3.Implies(z3.And(in_range(c1, a.n), in_range(c2, b.n)),
                                                         a.key_at(c1) != b.key_at(c2))), kind="pre")
            else:
                f, e = (a, b) if isinstance(a, Family) else (b, a)
                ctx.prove("pre:dict-keys-distinct(entry vs loop)",
                          z3.ForAll([c1], z3.Implies(in_range(c1, f.n), f.key_at(c1) != e.key)), kind="pre")
                ctx.assumptions.append(z3.Not(f.has(e.key)))
    om = OMap(segs)
    for k, v in late_entries:
        om = om.set(it, k, v)
    return om


# ---- dict methods on instances of repository classes deriving from dict ---------------------------
def _d_init(it, args, kwargs):
    obj = args[0]
    rest = args[1:]
    if len(rest) > 1:
        raise PyRaise("TypeError", "dict expected at most 1 argument")
    if rest:
        src = rest[0]
        if isinstance(src, Instance) and isinstance(src.base, OMap):
            om = OMap(src.base.segs)
        else:
            om = omap_from_pairs(it, src)
    else:
        om = OMap([])
    for k, v in kwargs.items():
        if k == "**":
            raise Unsupported("symbolic **kwargs into dict()")
        om = om.set(it, k, v)
    obj.base = om
    return None


def _d_getitem(it, args, kwargs):
    return omap_of(args[0]).get(it, args[1])


def _d_setitem(it, args, kwargs):
    obj, k, v = args
    obj.base = omap_of(obj).set(it, k, v)
    return None


def _d_delitem(it, args, kwargs):
    obj, k = args
    obj.base, _ = omap_of(obj).delete(it, k)
    return None


def _d_contains(it, args, kwargs):
    return omap_of(args[0]).contains(it, args[1])


def _d_len(it, args, kwargs):
    return conc(omap_of(args[0]).length())


def _d_iter(it, args, kwargs):
    return DictView(omap_of(args[0]), "keys")


def _d_keys(it, args, kwargs):
    return DictView(omap_of(args[0]), "keys")


def _d_values(it, args, kwargs):
    return DictView(omap_of(args[0]), "values")


def _d_items(it, args, kwargs):
    return DictView(omap_of(args[0]), "items")


def _d_pop(it, args, kwargs):
    obj, k = args[0], args[1]
    om = omap_of(obj)
    if len(args) > 2:
        if not it.ctx.branch(M.truth(it, om.contains(it, k))):
            return args[2]
    obj.base, val = om.delete(it, k)
    return val


def _d_popitem(it, args, kwargs):
    obj = args[0]
    om = omap_of(obj)
    if not om.segs:
        raise PyRaise("KeyError", "popitem(): dictionary is empty")
    last = om.segs[-1]
    if isinstance(last, Entry):
        obj.base = OMap(om.segs[:-1])
        return (last.key_py if last.key_py is not None else last.key, last.value)
    if not it.ctx.branch(zint(last.n) > 0):
        if len(om.segs) == 1:
            raise PyRaise("KeyError", "popitem(): dictionary is empty")
        raise Unsupported("popitem with trailing empty family")
    k = last.key_at(zint(last.n) - 1)
    obj.base, val = om.delete(it, k)
    return (k, val)


def _d_update(it, args, kwargs):
    obj, other = args[0], args[1]
    if isinstance(other, dict):
        for k, v in other.items():
            obj.base = omap_of(obj).set(it, k, v)
        return None
    raise Unsupported("dict.update with symbolic argument")


def _d_copy(it, args, kwargs):
    return DictCopy(omap_of(args[0]))


class DictCopy:
    """dict.copy(x) of a repo dict subclass: a plain dict with the same entries."""
    def __init__(self, om):
        self.om = om

    def pyvc_segments(self, it):
        return self.om.seg_iter("items")


def _d_get(it, args, kwargs):
    obj, k = args[0], args[1]
    default = args[2] if len(args) > 2 else None
    om = omap_of(obj)
    if it.ctx.branch(M.truth(it, om.contains(it, k))):
        return om.get(it, k)
    return default


def _d_alloc(it, args, kwargs):
    args[0].base = OMap([])
    return None


def _d_bool(it, args, kwargs):
    return M.truth_len(omap_of(args[0]).length())


DICT_BASE_METHODS = {
    "__alloc__": ModelFn("dict.__new__", _d_alloc),
    "__init__": ModelFn("dict.__init__", _d_init), "__getitem__": ModelFn("dict.__getitem__", _d_getitem),
    "__setitem__": ModelFn("dict.__setitem__", _d_setitem), "__delitem__": ModelFn("dict.__delitem__", _d_delitem),
    "__contains__": ModelFn("dict.__contains__", _d_contains), "__len__": ModelFn("dict.__len__", _d_len),
    "__iter__": ModelFn("dict.__iter__", _d_iter), "keys": ModelFn("dict.keys", _d_keys),
    "values": ModelFn("dict.values", _d_values), "items": ModelFn("dict.items", _d_items),
    "pop": ModelFn("dict.pop", _d_pop), "popitem": ModelFn("dict.popitem", _d_popitem),
    "update": ModelFn("dict.update", _d_update), "copy": ModelFn("dict.copy", _d_copy), "get": ModelFn("dict.get", _d_get),
}
