# -*- coding: utf-8 -*-
"""Spec vocabulary shared by contracts and library models (symbolic denotations).
The concrete denotations used by the bounded cross-check live in /verif/bounded."""
import z3

from .core import (INT, BOOL, V, VARR, NONE, ABSENT, Unsupported, PyRaise, Seq, MList, filter_seq, seq_eq,
                   is_z3, is_v, zint, zbool, conc, in_range, v_lt, truthy)
from . import models as M
from .interp import StarSeq, PyList, Closure, BoundMethod, ModelFn, MSet, SSet


class Callback:
    """User-supplied callable: an uninterpreted, pure, deterministic function of its
    argument and of the dict heap (assumption listed in evidence)."""
    def __init__(self, ctx, name, ret=V):
        self.name = name
        self.ret = ret
        self.fn = z3.Function(f"cb_{name}", V, z3.ArraySort(V, VARR), ret)
        if ret == V:
            x = z3.Const("x!cb", V)
            h = z3.Const("h!cb", z3.ArraySort(V, VARR))
            ctx.assumptions.append(z3.ForAll([x, h], self.fn(x, h) != ABSENT, patterns=[self.fn(x, h)]))

    def apply(self, it, x):
        return self.fn(M.to_v(it, x), M.heap_D(it.ctx))

    def pyvc_call(self, it, args, kwargs):
        if len(args) != 1 or kwargs:
            raise Unsupported("callback arity")
        it.ctx.used_models.add("user callback: pure deterministic function of its argument and the item contents")
        return self.apply(it, args[0])


class ItemCallback(Callback):
    """A user function of ONE item that only reads that item's own entries: pure function of the item's contents D[item]
    (stronger than Callback, which may read the whole heap; stated as a precondition by the contracts that use it)."""
    def __init__(self, ctx, name, ret=V):
        self.name = name
        self.ret = ret
        self.fn = z3.Function(f"icb_{name}", VARR, ret)
        if ret == V:
            c = z3.Const("c!icb", VARR)
            ctx.assumptions.append(z3.ForAll([c], self.fn(c) != ABSENT, patterns=[self.fn(c)]))

    def of(self, contents):
        return self.fn(contents)

    def apply(self, it, x):
        return self.fn(M.heap_D(it.ctx)[M.to_v(it, x)])


class ItemGetter:
    """operator.itemgetter(*keys): scalar for one key, tuple otherwise; KeyError when absent."""
    def __init__(self, it, keys):
        self.sym = None
        if len(keys) == 1 and isinstance(keys[0], StarSeq):
            self.sym = keys[0].seq
            n = conc(self.sym.len)
            if isinstance(n, int):
                self.keys = [self.sym.at(i) for i in range(n)]
                self.sym = None
            else:
                ctx = it.ctx
                self.proj = ctx.fresh_fn("proj", VARR, V)
                a, b = z3.Consts("a!ig b!ig", VARR)
                t = z3.Int("t!ig")
                ks = self.sym
                ctx.assumptions.append(z3.ForAll([a, b], (self.proj(a) == self.proj(b)) == z3.ForAll(
                    [t], z3.Implies(in_range(t, ks.len), a[ks.at(t)] == b[ks.at(t)]))))
        elif any(isinstance(k, StarSeq) for k in keys):
            raise Unsupported("itemgetter with mixed symbolic keys")
        else:
            self.keys = list(keys)
        if self.sym is None and not self.keys:
            raise PyRaise("TypeError", "itemgetter expected 1 argument, got 0")

    def pyvc_call(self, it, args, kwargs):
        item = args[0]
        if self.sym is None:
            vals = [M.getitem(it, item, k) for k in self.keys]
            return vals[0] if len(vals) == 1 else tuple(vals)
        ctx = it.ctx
        arr = M.dict_contents(it, item)
        t = z3.Int("t!igc")
        ks = self.sym
        present = z3.ForAll([t], z3.Implies(in_range(t, ks.len), arr[ks.at(t)] != ABSENT))
        if not ctx.branch(present):
            raise PyRaise("KeyError", "itemgetter")
        if not ctx.branch(zint(ks.len) > 0):
            raise PyRaise("TypeError", "itemgetter expected 1 argument, got 0")
        return self.proj(arr)


def select_by(ctx, s, pred, sort=V):
    """[x for x in s if pred(x)] - the textbook filter, as an enumeration."""
    return filter_seq(ctx, s.len, lambda k: pred(s.at(k)), lambda k: s.at(k), s.sort if s.sort is not None else sort)


def key_lt(it, a, b):
    """Python < on sort keys: tuples lexicographically, False < True, ints, opaque values by v_lt."""
    if isinstance(a, tuple) and isinstance(b, tuple):
        if len(a) != len(b):
            raise Unsupported("comparison of tuples of different length")
        if not a:
            return z3.BoolVal(False)
        head = zb(key_lt(it, a[0], b[0]))
        if len(a) == 1:
            return head
        return z3.Or(head, z3.And(zb(M.py_eq(it, a[0], b[0])), zb(key_lt(it, a[1:], b[1:]))))
    from .core import is_boollike, is_intlike
    if is_boollike(a) and is_boollike(b):
        return z3.And(z3.Not(zbool(a)), zbool(b))
    if is_intlike(a) and is_intlike(b):
        return zint(a) < zint(b)
    return v_lt(M.to_v(it, a), M.to_v(it, b))


def zb(x):
    return z3.BoolVal(x) if isinstance(x, bool) else x


class Perm:
    """A bijection of [0,n): perm/inv with the defining axioms assumed."""
    def __init__(self, ctx, n, base="perm"):
        self.n = n
        self.perm = ctx.fresh_fn(base, INT, INT)
        self.inv = ctx.fresh_fn(base + "_inv", INT, INT)
        j = z3.Int("j!pm")
        nn = zint(n)
        ctx.assumptions.append(z3.ForAll([j], z3.Implies(z3.And(0 <= j, j < nn), z3.And(
            0 <= self.perm(j), self.perm(j) < nn, self.inv(self.perm(j)) == j)), patterns=[self.perm(j)]))
        ctx.assumptions.append(z3.ForAll([j], z3.Implies(z3.And(0 <= j, j < nn), z3.And(
            0 <= self.inv(j), self.inv(j) < nn, self.perm(self.inv(j)) == j)), patterns=[self.inv(j)]))


def eval_for_arbitrary(it, fn, elem_of, n, what):
    """Evaluate fn(elem_of(i)) once for an arbitrary index i; returns proto(i) as a function."""
    from .loops import subst
    ctx = it.ctx
    i = z3.Int(ctx.fresh_name("i" + what))
    snap = ctx.snapshot()
    ctx.loop_vars.append(i)
    try:
        ctx.assume(in_range(i, n))
        res = ctx.explore(lambda: it.call(fn, [elem_of(i)], {}))
    finally:
        ctx.loop_vars.pop()
    for conds, kind, val, full in res:
        heap1 = full[1]
        for h, t in heap1.items():
            if h not in snap[1] or not snap[1][h].eq(t):
                ctx.restore(snap)
                raise Unsupported(f"function applied element-wise ({what}) has a side effect on heap {h}")
    ctx.restore(snap)
    oks = [r for r in res if r[1] == "ok"]
    for conds, kind, val, full in res:
        if kind == "raise":
            some = z3.Exists([i], z3.And(in_range(i, n), *conds)) if conds else zint(n) > 0
            if ctx.branch(some):
                raise val
    if len(oks) != 1:
        from .loops import merge_paths
        proto = merge_paths([(z3.And(*c) if c else z3.BoolVal(True), v) for c, _, v, _ in oks])
    else:
        proto = oks[0][2]
    for conds, kind, val, full in oks:
        facts = [a for a in full[0] if not any(a is c for c in conds) and not a.eq(z3.simplify(in_range(i, n)))]
        if facts:
            ctx.assumptions.append(z3.ForAll([i], z3.Implies(z3.And(in_range(i, n), *conds), z3.And(*facts))))
    return lambda j: subst(proto, i, j)


def py_sorted(it, args, kwargs):
    """sorted(iterable, key=f, reverse=r): assumed contract - the result is the input composed
    with a permutation, ordered by the keys, and STABLE (also with reverse=True, where equal
    elements keep their original order).  Precondition (assumed by callers' contracts): < on the
    occurring keys is a strict weak order."""
    ctx = it.ctx
    src = M.unstructure(M.as_seq(it, args[0]))
    key = kwargs.get("key")
    reverse = kwargs.get("reverse", False)
    n = src.len
    if key is None:
        keyat = lambda j: src.at(j)
    else:
        keyat = eval_for_arbitrary(it, key, lambda i: src.at(i), n, "key")
    pm = Perm(ctx, n, "sortperm")
    out = Seq(n, lambda j: src.at(pm.perm(j)), src.sort, note="sorted")
    out.perm = pm
    out.src = src
    a, b = z3.Ints("a!so b!so")
    ka, kb = keyat(pm.perm(a)), keyat(pm.perm(b))
    lt_ab, lt_ba = zb(key_lt(it, ka, kb)), zb(key_lt(it, kb, ka))
    rev = M.truth(it, reverse)
    rev = z3.BoolVal(rev) if isinstance(rev, bool) else rev
    rng = z3.And(0 <= a, a < b, b < zint(n))
    ordered = z3.If(rev, z3.Not(lt_ab), z3.Not(lt_ba))
    stable = z3.Implies(z3.And(z3.Not(lt_ab), z3.Not(lt_ba)), pm.perm(a) < pm.perm(b))
    ctx.assumptions.append(z3.ForAll([a, b], z3.Implies(rng, z3.And(ordered, stable)),
                                     patterns=[z3.MultiPattern(pm.perm(a), pm.perm(b))]))
    return MList(ctx, out)



def np_lexsort(it, args, kwargs):
    """np.lexsort(keys): a stable permutation ordering the rows by keys[-1], then keys[-2], ... (last key primary);
    within a key NumPy's order of the dtype: numbers/strings/dates by value with NaN/NaT last, False before True."""
    from .models_np import NDArr, as_arr, elt_lt
    ctx = it.ctx
    keys = args[0]
    kind, coll = M.iter_of(it, keys)
    if kind != "concrete" or not coll:
        raise Unsupported("lexsort with a symbolic number of keys")
    arrs = [as_arr(it, k) for k in coll]
    n = arrs[0].seq.len
    for a in arrs[1:]:
        if not ctx.branch(zint(a.seq.len) == zint(n)):
            raise PyRaise("ValueError", "all keys need to be the same shape")

    def lt(a, p, q):
        s_ = a.seq
        if s_.sort == INT:
            return s_.at(p) < s_.at(q)
        if s_.sort == BOOL:
            return z3.And(z3.Not(s_.at(p)), s_.at(q))
        return elt_lt(a.kind, s_.at(p), s_.at(q))

    def lexlt(p, q):
        r = z3.BoolVal(False)
        for a in arrs:            # build from the least significant key up: primary key is the last one
            r = z3.Or(lt(a, p, q), z3.And(z3.Not(lt(a, q, p)), r))
        return r
    pm = Perm(ctx, n, "lexsort")
    x, y = z3.Ints("a!lx b!lx")
    px, py = pm.perm(x), pm.perm(y)
    rng = z3.And(0 <= x, x < y, y < zint(n))
    ctx.assumptions.append(z3.ForAll([x, y], z3.Implies(rng, z3.And(z3.Not(lexlt(py, px)), z3.Implies(z3.Not(lexlt(px, py)), px < py))),
                                     patterns=[z3.MultiPattern(pm.perm(x), pm.perm(y))]))
    r = NDArr(ctx, Seq(n, lambda j: pm.perm(j), INT), "int", "fresh", None)
    r.perm = pm
    it.last_lexsort = pm
    return r
