# -*- coding: utf-8 -*-
"""Spec vocabulary shared by contracts and library models (symbolic denotations).
The concrete denotations used by the bounded cross-check live in /verif/bounded."""
import z3

from .core import (INT, BOOL, V, VARR, NONE, ABSENT, Unsupported, PyRaise, Seq, MList, filter_seq, seq_eq,
                   is_z3, is_v, zint, zbool, conc, in_range, v_lt, truthy)
from . import models as M
from .interp import StarSeq, PyList, Closure, BoundMethod, ModelFn, MSet, SSet


class Callback:
    """User-supplied callable: an uninterpreted, pure, deterministic function of its
    argument and of the dict heap (assumption listed in evidence)."""
    def __init__(self, ctx, name, ret=V):
        self.name = name
        self.ret = ret
        self.fn = z3.Function(f"cb_{name}", V, z3.ArraySort(V, VARR), ret)

    def apply(self, it, x):
        return self.fn(M.to_v(it, x), M.heap_D(it.ctx))

    def pyvc_call(self, it, args, kwargs):
        if len(args) != 1 or kwargs:
            raise Unsupported("callback arity")
        it.ctx.used_models.add("user callback: pure deterministic function of its argument and the item contents")
        return self.apply(it, args[0])


class ItemGetter:
    """operator.itemgetter(*keys): scalar for one key, tuple otherwise; KeyError when absent."""
    def __init__(self, it, keys):
        self.sym = None
        if len(keys) == 1 and isinstance(keys[0], StarSeq):
            self.sym = keys[0].seq
            n = conc(self.sym.len)
            if isinstance(n, int):
                self.keys = [self.sym.at(i) for i in range(n)]
                self.sym = None
            else:
                ctx = it.ctx
                self.proj = ctx.fresh_fn("proj", VARR, V)
                a, b = z3.Consts("a!ig b!ig", VARR)
                t = z3.Int("t!ig")
                ks = self.sym
                ctx.assumptions.append(z3.ForAll([a, b], (self.proj(a) == self.proj(b)) == z3.ForAll(
                    [t], z3.Implies(in_range(t, ks.len), a[ks.at(t)] == b[ks.at(t)]))))
        elif any(isinstance(k, StarSeq) for k in keys):
            raise Unsupported("itemgetter with mixed symbolic keys")
        else:
            self.keys = list(keys)
        if self.sym is None and not self.keys:
            raise PyRaise("TypeError", "itemgetter expected 1 argument, got 0")

    def pyvc_call(self, it, args, kwargs):
        item = args[0]
        if self.sym is None:
            vals = [M.getitem(it, item, k) for k in self.keys]
            return vals[0] if len(vals) == 1 else tuple(vals)
        ctx = it.ctx
        arr = M.dict_contents(it, item)
        t = z3.Int("t!igc")
        ks = self.sym
        present = z3.ForAll([t], z3.Implies(in_range(t, ks.len), arr[ks.at(t)] != ABSENT))
        if not ctx.branch(present):
            raise PyRaise("KeyError", "itemgetter")
        if not ctx.branch(zint(ks.len) > 0):
            raise PyRaise("TypeError", "itemgetter expected 1 argument, got 0")
        return self.proj(arr)


def select_by(ctx, s, pred, sort=V):
    """[x for x in s if pred(x)] - the textbook filter, as an enumeration."""
    return filter_seq(ctx, s.len, lambda k: pred(s.at(k)), lambda k: s.at(k), s.sort if s.sort is not None else sort)


def py_sorted(it, args, kwargs):
    raise Unsupported("sorted() not modelled yet")
