# -*- coding: utf-8 -*-
"""Contracts (sidecar specifications of repository functions) and their verification."""
import time
import traceback
import z3

from .core import (Ctx, INT, BOOL, V, VARR, NONE, ABSENT, Unsupported, PathAbort, PyRaise, Seq, seq_eq,
                   is_z3, zint, zbool, conc, in_range, is_adict, is_dict)
from .interp import Interp, Instance, Env, Closure, BoundMethod, ClassObj
from .extract import RepoModule, source_hash
from . import models as M
from .speclib import Callback

REGISTRY = []
BOUNDED_ONLY = {}     # property -> {driver name: why no deductive contract}; run in every tier, labelled bounded, never counted as proved


def bounded_only(prop, name, why):
    BOUNDED_ONLY.setdefault(prop, {})[name] = why


class LoopSpec:
    def __init__(self, inv, sorts=None, kinds=None):
        self.inv = inv
        self.sorts = sorts or {}     # element sorts of list-valued loop-carried variables
        self.kinds = kinds or {}     # role of every local the invariant names: "set" | "list" | "dict" | "array" (renaming-proof)


class Contract:
    """Base class.  Subclasses set: file, qualname, prop and implement setup/ensures.
    cases: {label: lambda cx: formula}   (a case split of the precondition; each case is
    verified as a separate run so that a finding names the case)."""
    file = None
    qualname = None
    prop = None
    cases = None
    loops = {}          # (qualname, ordinal) -> LoopSpec
    callees = {}        # qualname -> callable(it, args, kwargs): callee contract used instead of its body
    allowed_raises = ()
    config = {}
    timeout_ms = 10000
    note = ""

    def loop_spec(self, qualname, ordinal):
        return self.loops.get((qualname, ordinal))

    def setup(self, cx):
        raise NotImplementedError

    def ensures(self, cx, result):
        raise NotImplementedError

    def raises(self, cx, exc):
        """Called on an exceptional path; default: exceptions are not allowed (totality)."""
        ob = cx.prove(f"no-exception:{exc.exc}", z3.BoolVal(False), kind="raises")
        if ob is not None and ob.status != "unsat":
            ob.detail = f"raised {exc.exc}({exc.msg[:120]}); " + ob.detail

    @classmethod
    def name(cls):
        return f"{cls.file}::{cls.qualname}" + (f"[{cls.variant}]" if getattr(cls, "variant", None) else "")


def register(cls):
    REGISTRY.append(cls)
    return cls


class Harness:
    """What setup/ensures see."""
    def __init__(self, ctx, it, contract, case):
        self.ctx, self.it, self.contract, self.case = ctx, it, contract, case
        self.old = {}
        import os
        self.prop = os.environ.get("PYVC_PROP", contract.prop)

    # proofs ---------------------------------------------------------------------------
    def prove(self, name, goal, kind="post"):
        return self.ctx.prove(name, goal, kind=kind)

    def premise(self, name, holds):
        """A syntactic fact about the current source on which a *modular argument* rests (e.g. "full_join still delegates to
        left_join / anti_join", so that their deductive contracts carry over).  It is no part of the property: when it holds
        it is recorded as a discharged structural obligation; when it does not, the code was restructured - which is neither a
        violation nor undecided: the function is then decided by its bounded run-time contract alone (which runs in every
        tier), and the loss of the deductive link is reported (line PREMISE-LOST, evidence: unchecked assumptions)."""
        if holds:
            return self.ctx.prove("premise: " + name, True, kind="premise")
        self.ctx.used_models.add(f"PREMISE LOST ({self.contract.name()}): {name} - no deductive link to the callees' contracts any more; "
                                 "decided by the bounded run-time contract of this function only")
        return None

    def assume(self, f):
        self.ctx.assume(f)

    def lemma_forall(self, name, f, sort=INT, base="q"):
        """Prove f(c) for a fresh constant c (i.e. for all values), then assume it universally quantified."""
        c = self.ctx.fresh(base, sort)
        ob = self.ctx.prove(name, f(c), kind="lemma")
        if ob.status == "unsat":
            v = z3.Const(f"{base}!lemma", sort)
            self.ctx.assumptions.append(z3.ForAll([v], f(v)))
        return ob

    # symbolic inputs ---------------------------------------------------------------------
    def int(self, name):
        return self.ctx.fresh(name, INT)

    def val(self, name):
        return self.ctx.fresh(name, V)

    def callback(self, name, ret=V):
        return Callback(self.ctx, name, ret)

    def item_seq(self, name):
        """Symbolic sequence of item dicts (allocated AttributeDict references)."""
        ctx = self.ctx
        n = ctx.fresh(name + "_len", INT)
        fn = ctx.fresh_fn(name + "_at", INT, V)
        j = z3.Int("j!ax")
        al = M.heap_alloc(ctx)
        M.heap_D(ctx)
        ctx.assumptions.append(n >= 0)
        ctx.assumptions.append(z3.ForAll([j], z3.And(is_adict(fn(j)), is_dict(fn(j)), al[fn(j)],
                                                     fn(j) != NONE, fn(j) != ABSENT), patterns=[fn(j)]))
        s = Seq(n, lambda i: fn(i), V, note=name)
        s.keep_symbolic = True
        return s

    def lod(self, name, group_keys=()):
        """Symbolic ListOfDicts instance (an arbitrary list obtained somehow: fields arbitrary)."""
        it, ctx = self.it, self.ctx
        mod = it.repo_module("dataiter/list_of_dicts.py")
        cls = it.class_obj(mod.classes["ListOfDicts"])
        # attribute set as the real constructor leaves it; attributes this harness does not know get an
        # arbitrary value (any state a list may have been left in by earlier calls)
        probe = it.instantiate(cls, [], {})
        obj = Instance(ctx, cls, base=self.item_seq(name))
        known = {"_group_keys": group_keys, "_obsolete": ctx.fresh(name + "_obsolete", BOOL),
                 "_obsolete_warned": ctx.fresh(name + "_warned", BOOL), "_predecessor": None}
        for a, v in probe.attrs.items():
            obj.attrs[a] = known[a] if a in known else ctx.fresh(name + "_attr_" + a.strip("_"), V)
        for a, v in known.items():
            obj.attrs.setdefault(a, v)
        return obj

    def snapshot_heap(self):
        return dict(self.ctx.heap)


class FunctionResult:
    def __init__(self, contract):
        self.contract = contract.name()
        self.prop = contract.prop
        self.file = contract.file
        self.qualname = contract.qualname
        self.obligations = []     # dicts
        self.status = "ok"        # ok | undecided | error
        self.reason = ""
        self.paths = 0
        self.solver_time = 0.0
        self.wall = 0.0
        self.source_hash = ""
        self.used_models = []
        self.cases = []


def target_function(it, contract):
    mod = it.repo_module(contract.file)
    parts = contract.qualname.split(".")
    if len(parts) == 1:
        return None, it.global_lookup(mod, parts[0]), mod
    cls = it.class_obj(mod.classes[parts[0]])
    found, f = it.class_attr(cls, parts[1])
    if not found:
        raise Unsupported(f"{contract.qualname} not found")
    return cls, f, mod


def verify(contract_cls, repo=None, timeout_ms=None):
    """Verify one contract; returns FunctionResult (picklable)."""
    t0 = time.time()
    c = contract_cls()
    res = FunctionResult(contract_cls)
    try:
        mod = RepoModule.load(c.file, repo)
        nodes = mod.find(c.qualname)
        res.source_hash = "+".join(source_hash(n) for n in nodes)
    except Exception as e:
        res.status, res.reason = "undecided", f"cannot locate {c.qualname} in {c.file}: {e}"
        res.wall = time.time() - t0
        return res
    cases = list((c.cases or {"all": None}).items())
    for label, casef in cases:
        ctx = Ctx(timeout_ms=max(timeout_ms or 0, c.timeout_ms))
        it = Interp(ctx, c, repo)
        it.config = dict(c.config)
        cx = Harness(ctx, it, c, label)
        ctx.case = label
        reached = {"n": 0}

        def thunk():
            inputs = c.setup(cx)
            if casef is not None:
                ctx.assume(casef(cx, inputs))
            self_obj, args, kwargs = inputs["self"], inputs.get("args", []), inputs.get("kwargs", {})
            cls, f, _ = target_function(it, c)
            it.callee_contracts = dict(c.callees)
            cx.inputs = inputs
            cx.old = {"heap": dict(ctx.heap)}
            cx.initial_obsolete = self_obj.attrs.get("_obsolete") if isinstance(self_obj, Instance) and "attrs" in ctx.store.get(self_obj.id, {}) else None
            try:
                if getattr(c, "lemma_only", False):
                    result = None       # a spec-level lemma: nothing of the repository is executed
                elif inputs.get("prop_get"):
                    result = it.getattr(self_obj, c.qualname.split(".")[1])
                elif inputs.get("setter"):
                    result = it.setattr(self_obj, c.qualname.split(".")[1], args[0])
                elif self_obj is not None:
                    if isinstance(self_obj, ClassObj):
                        result = it.call(it.getattr(self_obj, c.qualname.split(".")[1]), args, kwargs)
                    else:
                        result = it.call(it.bind(f, self_obj), args, kwargs)
                else:
                    result = it.call(f, args, kwargs)
            except PyRaise as e:
                reached["n"] += 1
                c.raises(cx, e)
                return None
            reached["n"] += 1
            c.ensures(cx, result)
            return None
        try:
            results = ctx.explore(thunk)
            res.paths += len(results)
            # vacuity guard: at least one path must be feasible under the precondition
            ob_cover = {"name": f"cover:{label}", "kind": "cover", "case": label,
                        "status": "unsat" if reached["n"] > 0 else "sat",
                        "detail": f"{reached['n']} feasible paths", "time": 0.0, "path": "", "backend": "path-count"}
            res.obligations.append(ob_cover)
        except Unsupported as e:
            res.status = "undecided"
            res.reason = f"[{label}] unsupported: {e}"
        except RecursionError as e:
            res.status, res.reason = "undecided", f"[{label}] recursion: {e}"
        except Exception as e:
            res.status = "error"
            res.reason = f"[{label}] {type(e).__name__}: {e}\n{traceback.format_exc()[-1500:]}"
        for key, ob in ctx.obligs.items():
            res.obligations.append({"name": ob.name, "kind": ob.kind, "case": label, "status": ob.status,
                                    "detail": ob.detail[:2000], "time": round(ob.time, 3), "backend": ob.backend,
                                    "path": "".join("1" if d else "0" for fr in key[1] for d in fr)})
        res.solver_time += ctx.solver_time
        res.used_models = sorted(set(res.used_models) | ctx.used_models)
        res.cases.append(label)
    res.wall = time.time() - t0
    return res
