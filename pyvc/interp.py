# -*- coding: utf-8 -*-
"""Symbolic interpreter for the Python subset used by the functions under contract.

Executes the *real* AST of repository functions over symbolic values (core.py).
Conditions fork the path (Ctx.branch); loops over symbolic collections are executed
once for an arbitrary iteration index and generalised (see exec_sym_loop)."""
import ast
import itertools
import z3

from .core import (INT, BOOL, V, VARR, NONE, ABSENT, TRUEV, FALSEV, Unsupported, PathAbort, PyRaise,
                   Seq, MList, Enum, filter_seq, is_z3, is_v, is_sym_int, is_sym_bool, is_intlike,
                   is_boollike, zint, zbool, conc, simp, add, sub, in_range, vint, intof, truthy, v_lt)
from . import core
from .extract import RepoModule, ClassInfo


# ---------------------------------------------------------------------------------------
# value kinds
# ---------------------------------------------------------------------------------------
class Env:
    def __init__(self, parent=None, vars=None):
        self.vars = dict(vars or {})
        self.parent = parent

    def lookup(self, name):
        e = self
        while e is not None:
            if name in e.vars:
                return e.vars[name]
            e = e.parent
        raise KeyError(name)

    def has(self, name):
        e = self
        while e is not None:
            if name in e.vars:
                return True
            e = e.parent
        return False


class Closure:
    _ids = itertools.count(1)

    def __init__(self, node, env, module, owner=None, name=None):
        self.node = node            # FunctionDef or Lambda
        self.env = env
        self.module = module
        self.owner = owner          # ClassObj for methods (needed for super() and name mangling)
        self.name = name or getattr(node, "name", "<lambda>")
        self.id = ("closure", next(Closure._ids))
        self.wrapped = None         # set by functools.wraps

    def __repr__(self):
        return f"<Closure {self.name}>"


class BoundMethod:
    def __init__(self, func, self_obj):
        self.func = func
        self.self_obj = self_obj

    def __repr__(self):
        return f"<BoundMethod {self.func!r}>"


class ModelFn:
    """Library function given by an assumed contract implemented in Python."""
    def __init__(self, name, fn):
        self.name = name
        self.fn = fn

    def __repr__(self):
        return f"<ModelFn {self.name}>"


class ModuleNS:
    def __init__(self, name, members=None, getter=None):
        self.name = name
        self.members = members or {}
        self.getter = getter

    def get(self, it, attr):
        if attr in self.members:
            return self.members[attr]
        if self.getter:
            return self.getter(it, attr)
        raise Unsupported(f"{self.name}.{attr} not modelled")


class TypeObj:
    """Builtin / library class used for isinstance tests and as a constructor."""
    def __init__(self, name, ctor=None, methods=None):
        self.name = name
        self.ctor = ctor
        self.methods = methods or {}

    def __repr__(self):
        return f"<type {self.name}>"


class ClassObj:
    def __init__(self, info, module):
        self.info = info
        self.module = module
        self.name = info.name

    def __repr__(self):
        return f"<class {self.name}>"


class Instance:
    _ids = itertools.count(1)

    def __init__(self, ctx, cls, base=None):
        self.ctx = ctx
        self.cls = cls
        self.id = ("inst", next(Instance._ids))
        ctx.store[self.id] = {"attrs": {}, "base": base}

    @property
    def attrs(self):
        return self.ctx.store[self.id]["attrs"]

    @property
    def base(self):
        return self.ctx.store[self.id]["base"]

    @base.setter
    def base(self, b):
        self.ctx.store[self.id]["base"] = b

    def __repr__(self):
        return f"<{self.cls.name} instance {self.id[1]}>"


class PropertyObj:
    def __init__(self, fget, fset=None):
        self.fget = fget
        self.fset = fset


class ClassMethodObj:
    def __init__(self, func):
        self.func = func


class StaticMethodObj:
    def __init__(self, func):
        self.func = func


class GenValue:
    """A generator that has been run to exhaustion (eager evaluation; see DESIGN 2.2)."""
    def __init__(self, seq):
        self.seq = seq        # OutSeq


class OutSeq:
    """Ghost output of a generator / comprehension: concatenation of segments, each a
    Python list of values or a Seq (possibly with structured elements)."""
    def __init__(self):
        self.segs = []

    def emit(self, v):
        if self.segs and isinstance(self.segs[-1], list):
            self.segs[-1].append(v)
        else:
            self.segs.append([v])

    def emit_seq(self, s):
        self.segs.append(s)

    def is_concrete(self):
        return all(isinstance(s, list) for s in self.segs)

    def concrete(self):
        out = []
        for s in self.segs:
            out.extend(s)
        return out


class SMap:
    """Immutable symbolic dict value: z3 array V->V with ABSENT for missing keys.
    Key order is not modelled."""
    def __init__(self, arr):
        self.arr = arr

    def has(self, k):
        return self.arr[k] != ABSENT

    def get(self, k):
        return self.arr[k]


class SSet:
    """Immutable symbolic set of V given by a membership predicate."""
    def __init__(self, mem):
        self.mem = mem


class MSet:
    """Mutable set object (contents: SSet kept in ctx.store)."""
    _ids = itertools.count(1)

    def __init__(self, ctx, sset):
        self.ctx = ctx
        self.id = ("mset", next(MSet._ids))
        ctx.store[self.id] = {"set": sset}

    @property
    def set(self):
        return self.ctx.store[self.id]["set"]

    @set.setter
    def set(self, s):
        self.ctx.store[self.id]["set"] = s


class ReturnSig(Exception):
    def __init__(self, value):
        self.value = value


class BreakSig(Exception):
    pass


class ContinueSig(Exception):
    pass


class Frame:
    def __init__(self, closure, is_gen):
        self.closure = closure
        self.out = OutSeq() if is_gen else None


def contains_yield(node):
    for st in node.body if isinstance(node.body, list) else [node.body]:
        if isinstance(st, (ast.FunctionDef, ast.ClassDef)):
            continue            # a nested definition is not part of this function's own body
        for n in walk_no_nested(st):
            if isinstance(n, (ast.Yield, ast.YieldFrom)):
                return True
    return False


def walk_no_nested(node):
    """ast.walk that does not descend into nested function/lambda/class definitions."""
    todo = [node]
    while todo:
        n = todo.pop()
        yield n
        for c in ast.iter_child_nodes(n):
            if isinstance(c, (ast.FunctionDef, ast.Lambda, ast.ClassDef)):
                continue
            todo.append(c)


def assigned_names(stmts):
    names = set()
    for st in stmts:
        for n in walk_no_nested(st):
            if isinstance(n, ast.Name) and isinstance(n.ctx, (ast.Store, ast.Del, ast.Load)) and (
                    isinstance(n.ctx, (ast.Store, ast.Del)) or isinstance(st, ast.Expr)):
                names.add(n.id)
            elif isinstance(n, ast.FunctionDef):
                names.add(n.name)
        if isinstance(st, ast.FunctionDef):
            names.add(st.name)
    return names


# ---------------------------------------------------------------------------------------
class Interp:
    def __init__(self, ctx, contract=None, repo=None):
        self.ctx = ctx
        self.contract = contract
        self.repo = repo
        self.frames = []
        self.modules = {}
        self.loop_ordinal = {}       # closure name -> next ordinal
        self.call_depth = 0
        self.callee_contracts = {}   # qualname -> python callable(it, self_obj, args, kwargs)
        self.inline_getattribute = False
        from . import models
        self.models = models
        models.CURRENT["ctx"] = ctx
        self.builtins = models.make_builtins(self)

    # -- modules -------------------------------------------------------------------
    def repo_module(self, relpath):
        return RepoModule.load(relpath, self.repo)

    def module_value(self, modname):
        """Value of an imported module name."""
        if modname in self.modules:
            return self.modules[modname]
        m = self.models.make_module(self, modname)
        self.modules[modname] = m
        return m

    def global_lookup(self, module, name):
        if name in module.functions:
            return self.make_function(module.functions[name], Env(), module)
        if name in module.classes:
            return self.class_obj(module.classes[name])
        if name in module.imports:
            imp = module.imports[name]
            if imp[0] == "module":
                return self.module_value(imp[1])
            _, frm, what = imp
            return self.import_from(frm, what)
        if name in module.assigns:
            return self.eval(module.assigns[name], Env(), module)
        if name in self.builtins:
            return self.builtins[name]
        raise Unsupported(f"unknown global name {name!r} in {module.relpath}")

    def import_from(self, frm, what):
        if frm == "dataiter":
            pkg = self.module_value("dataiter")
            return pkg.get(self, what)
        mod = self.module_value(frm)
        return mod.get(self, what)

    _class_cache = None

    def class_obj(self, info):
        if self._class_cache is None:
            self._class_cache = {}
        key = (info.module.relpath, info.name)
        if key not in self._class_cache:
            self._class_cache[key] = ClassObj(info, info.module)
        return self._class_cache[key]

    # -- functions -----------------------------------------------------------------
    def make_function(self, node, env, module, owner=None):
        """Closure for a def, with its decorators applied (innermost first)."""
        f = Closure(node, env, module, owner)
        for dec in reversed(node.decorator_list):
            d = self.eval(dec, env, module, owner=owner)
            f = self.call(d, [f], {})
        return f

    def class_attr(self, cls, name, _seen=None):
        """Look `name` up on a repo class and its bases; returns (found, value)."""
        info = cls.info
        pref = f"_{info.name.lstrip('_')}__"
        if name not in info.methods and name not in info.attrs and name.startswith(pref):
            # private name mangling: the class body spells it __name
            short = "__" + name[len(pref):]
            if short in info.methods or short in info.attrs:
                name = short
        if name in info.methods:
            nodes = info.methods[name]
            key = ("cattr", info.module.relpath, info.name, name)
            cache = self.__dict__.setdefault("_cattr_cache", {})
            if key in cache:
                return True, cache[key]
            val = None
            for node in nodes:
                env = Env(vars={name: val} if val is not None else {})
                val = self.make_function(node, env, info.module, owner=cls)
            cache[key] = val
            return True, val
        if name in info.attrs:
            # class-level assignments are evaluated once (identity of e.g. sentinel classes matters)
            key = ("cval", info.module.relpath, info.name, name)
            cache = self.__dict__.setdefault("_cattr_cache", {})
            if key not in cache:
                cache[key] = self.eval(info.attrs[name], Env(), info.module, owner=cls)
            return True, cache[key]
        for b in info.bases:
            bv = self.eval(b, Env(), info.module)
            if isinstance(bv, ClassObj):
                found, v = self.class_attr(bv, name)
                if found:
                    return True, v
            elif isinstance(bv, TypeObj):
                if name in bv.methods:
                    return True, bv.methods[name]
        return False, None

    def base_type(self, cls):
        """The modelled builtin base (TypeObj) at the root of a repo class, if any."""
        for b in cls.info.bases:
            bv = self.eval(b, Env(), cls.info.module)
            if isinstance(bv, TypeObj):
                return bv
            if isinstance(bv, ClassObj):
                r = self.base_type(bv)
                if r is not None:
                    return r
        return None

    def mro(self, cls):
        out = [cls]
        for b in cls.info.bases:
            bv = self.eval(b, Env(), cls.info.module)
            if isinstance(bv, ClassObj):
                out.extend(self.mro(bv))
            else:
                out.append(bv)
        return out

    def is_subclass(self, cls, target):
        return any(c is target or (isinstance(c, ClassObj) and isinstance(target, ClassObj)
                                   and c.info is target.info) for c in self.mro(cls))

    def bind(self, func, self_obj):
        if isinstance(func, (Closure, ModelFn)):
            return BoundMethod(func, self_obj)
        return func

    # -- attribute protocol ---------------------------------------------------------
    def getattr(self, obj, name, owner=None):
        if isinstance(obj, Instance):
            return self.instance_getattr(obj, name)
        if isinstance(obj, ModuleNS):
            return obj.get(self, name)
        if isinstance(obj, ClassObj):
            found, v = self.class_attr(obj, name)
            if not found:
                bt = self.base_type(obj)
                if bt is not None and name in bt.methods:
                    return bt.methods[name]
                raise PyRaise("AttributeError", name)
            if isinstance(v, ClassMethodObj):
                return BoundMethod(v.func, obj)
            if isinstance(v, StaticMethodObj):
                return v.func
            return v
        if isinstance(obj, Closure):
            if name in ("__name__", "__qualname__"):
                return obj.name
            st = self.ctx.store.get(obj.id, {})
            if name in st:
                return st[name]
            raise PyRaise("AttributeError", name)
        if isinstance(obj, RepoModule):
            return self.global_lookup(obj, name)
        return self.models.value_getattr(self, obj, name)

    HEAP_FIELDS = {"_obsolete": ("obs", BOOL), "_obsolete_warned": ("warned", BOOL), "_predecessor": ("pred", V)}

    def heap_field(self, name, sort):
        if name not in self.ctx.heap:
            self.ctx.heap[name] = z3.Const(name + "0", z3.ArraySort(V, sort))
        return self.ctx.heap[name]

    HONOR_GETATTRIBUTE = ("DataFrame", "GeoJSON")

    def instance_getattr(self, obj, name, plain=False):
        honor = self.HONOR_GETATTRIBUTE + (("ListOfDicts",) if getattr(self, "config", {}).get("honor_lod_getattribute") else ())
        if not plain and any(isinstance(c, ClassObj) and c.name in honor for c in self.mro(obj.cls)):
            ok, ga = self.class_attr(obj.cls, "__getattribute__")
            if ok:
                return self.call(ga, [obj, name], {})
        href = getattr(obj, "href", None)
        if href is not None and name in self.HEAP_FIELDS:
            hn, srt = self.HEAP_FIELDS[name]
            val = self.heap_field(hn, srt)[href]
            if name == "_predecessor":
                ref = Instance(self.ctx, obj.cls, base=None)
                ref.href = val
                ref.maybe_none = True
                return ref
            return val
        found, cv = self.class_attr(obj.cls, name)
        if found and isinstance(cv, PropertyObj):
            return self.call(cv.fget, [obj], {})
        if name in obj.attrs:
            return obj.attrs[name]
        if found:
            if isinstance(cv, ClassMethodObj):
                return BoundMethod(cv.func, obj.cls)
            if isinstance(cv, StaticMethodObj):
                return cv.func
            return self.bind(cv, obj)
        if name == "__class__":
            return obj.cls
        if name == "__dict__":
            return obj.attrs
        bt = self.base_type(obj.cls)
        if bt is not None and name in bt.methods:
            return BoundMethod(bt.methods[name], obj)
        ok, ga = self.class_attr(obj.cls, "__getattr__")
        if ok:
            return self.call(ga, [obj, name], {})
        raise PyRaise("AttributeError", name)

    def setattr(self, obj, name, value):
        href = getattr(obj, "href", None)
        if href is not None and name in self.HEAP_FIELDS:
            hn, srt = self.HEAP_FIELDS[name]
            arr = self.heap_field(hn, srt)
            if srt == BOOL:
                vv = value if is_z3(value) else z3.BoolVal(bool(value))
            else:
                vv = self.models.to_v(self, value)
            self.ctx.heap[hn] = z3.Store(arr, href, vv)
            return None
        if isinstance(obj, Instance):
            found, cv = self.class_attr(obj.cls, name)
            if found and isinstance(cv, PropertyObj) and cv.fset is not None:
                return self.call(cv.fset, [obj, value], {})
            ok, sa = self.class_attr(obj.cls, "__setattr__")
            if ok:
                return self.call(sa, [obj, name, value], {})
            obj.attrs[name] = value
            return None
        if isinstance(obj, Closure):
            self.ctx.store.setdefault(obj.id, {})[name] = value
            return None
        raise Unsupported(f"setattr on {obj!r}")

    # -- calls -------------------------------------------------------------------------
    def call(self, f, args, kwargs):
        if isinstance(f, BoundMethod):
            return self.call(f.func, [f.self_obj] + list(args), kwargs)
        if isinstance(f, ModelFn):
            self.ctx.used_models.add(f.name)
            return f.fn(self, list(args), dict(kwargs))
        if isinstance(f, Closure):
            return self.call_closure(f, args, kwargs)
        if isinstance(f, ClassObj):
            return self.instantiate(f, args, kwargs)
        if isinstance(f, TypeObj):
            if f.ctor is None:
                raise Unsupported(f"constructor of {f.name}")
            self.ctx.used_models.add(f.name)
            return f.ctor(self, list(args), dict(kwargs))
        if hasattr(f, "pyvc_call"):
            return f.pyvc_call(self, list(args), dict(kwargs))
        if is_z3(f) and f.sort() == V and self.models.opaque(self):
            return self.models.opaque_call(self, f, list(args), dict(kwargs))
        raise Unsupported(f"call of {f!r}")

    def instantiate(self, cls, args, kwargs):
        bt = self.base_type(cls)
        found_new, new = self.class_attr(cls, "__new__")
        if found_new:
            obj = self.call(new, [cls] + list(args), kwargs)
            if not (isinstance(obj, Instance) and self.is_subclass(obj.cls, cls)):
                return obj
        else:
            obj = Instance(self.ctx, cls)
            if bt is not None and "__alloc__" in bt.methods:
                self.call(bt.methods["__alloc__"], [obj], {})
        found, init = self.class_attr(cls, "__init__")
        if found:
            self.call(init, [obj] + list(args), kwargs)
        elif bt is not None and "__init__" in bt.methods:
            self.call(bt.methods["__init__"], [obj] + list(args), kwargs)
        return obj

    def call_closure(self, f, args, kwargs):
        node = f.node
        cc = self.callee_contracts.get(self.qualname(f))
        if cc is not None and self.call_depth > 0:
            return cc(self, args, kwargs)
        env = Env(parent=f.env)
        self.bind_params(node.args, args, kwargs, env, f)
        if isinstance(node, ast.Lambda):
            return self.eval(node.body, env, f.module, owner=f.owner)
        is_gen = contains_yield(node)
        fr = Frame(f, is_gen)
        self.frames.append(fr)
        self.call_depth += 1
        if self.call_depth > 60:
            raise Unsupported("call depth")
        try:
            ret = None
            try:
                self.exec_block(node.body, env, f)
            except ReturnSig as r:
                ret = r.value
        finally:
            self.frames.pop()
            self.call_depth -= 1
        if is_gen:
            return GenValue(fr.out)
        return ret

    def qualname(self, f):
        if f.owner is not None:
            return f"{f.owner.name}.{f.name}"
        return f.name

    def bind_params(self, a, args, kwargs, env, f):
        args = list(args)
        kwargs = dict(kwargs)
        params = [p.arg for p in a.posonlyargs + a.args]
        defaults = a.defaults
        ndef = len(defaults)
        npos = len(params)
        sym_rest = None
        # positional arguments may end with a symbolic-arity tail (core.Seq / SymArgs)
        for i, p in enumerate(params):
            if i < len(args):
                env.vars[p] = args[i]
            elif p in kwargs:
                env.vars[p] = kwargs.pop(p)
            elif i >= npos - ndef:
                env.vars[p] = self.eval(defaults[i - (npos - ndef)], f.env, f.module, owner=f.owner)
            else:
                raise PyRaise("TypeError", f"missing argument {p}")
        extra = args[npos:]
        if a.vararg:
            if len(extra) == 1 and isinstance(extra[0], StarSeq):
                env.vars[a.vararg.arg] = extra[0].seq
            elif any(isinstance(e, StarSeq) for e in extra):
                raise Unsupported("mixed symbolic varargs")
            else:
                env.vars[a.vararg.arg] = tuple(extra)
        elif extra:
            raise PyRaise("TypeError", "too many positional arguments")
        for p, d in zip(a.kwonlyargs, a.kw_defaults):
            if p.arg in kwargs:
                env.vars[p.arg] = kwargs.pop(p.arg)
            elif d is not None:
                env.vars[p.arg] = self.eval(d, f.env, f.module, owner=f.owner)
            else:
                raise PyRaise("TypeError", f"missing keyword argument {p.arg}")
        if a.kwarg:
            sk = kwargs.pop("**", None)
            if sk is not None:
                if kwargs:
                    raise Unsupported("mixed symbolic kwargs")
                env.vars[a.kwarg.arg] = sk
            else:
                env.vars[a.kwarg.arg] = dict(kwargs)
        elif kwargs:
            raise PyRaise("TypeError", f"unexpected keyword arguments {sorted(kwargs)}")

    # -- statements -----------------------------------------------------------------------
    def exec_block(self, stmts, env, f):
        for st in stmts:
            self.exec_stmt(st, env, f)

    def exec_stmt(self, st, env, f):
        m = getattr(self, "st_" + type(st).__name__, None)
        if m is None:
            raise Unsupported(f"statement {type(st).__name__} (line {st.lineno} of {f.module.relpath})")
        return m(st, env, f)

    def ev(self, node, env, f):
        return self.eval(node, env, f.module, owner=f.owner, closure=f)

    def st_Pass(self, st, env, f):
        pass

    def st_Expr(self, st, env, f):
        self.ev(st.value, env, f)

    def st_Return(self, st, env, f):
        raise ReturnSig(self.ev(st.value, env, f) if st.value is not None else None)

    def st_Assign(self, st, env, f):
        v = self.ev(st.value, env, f)
        for t in st.targets:
            self.assign(t, v, env, f)

    def st_AugAssign(self, st, env, f):
        load = ast.copy_location(_as_load(st.target), st.target)
        cur = self.ev(load, env, f)
        rhs = self.ev(st.value, env, f)
        v = self.models.binop(self, st.op, cur, rhs, inplace=True)
        self.assign(st.target, v, env, f)

    def assign(self, t, v, env, f):
        if isinstance(t, ast.Name):
            env.vars[t.id] = v
        elif isinstance(t, (ast.Tuple, ast.List)):
            items = self.models.unpack(self, v, len(t.elts))
            for tt, vv in zip(t.elts, items):
                self.assign(tt, vv, env, f)
        elif isinstance(t, ast.Attribute):
            obj = self.ev(t.value, env, f)
            self.setattr(obj, self.mangle(t.attr, f), v)
        elif isinstance(t, ast.Subscript):
            obj = self.ev(t.value, env, f)
            idx = self.ev_index(t.slice, env, f)
            self.models.setitem(self, obj, idx, v)
        else:
            raise Unsupported(f"assignment target {type(t).__name__}")

    def st_Delete(self, st, env, f):
        for t in st.targets:
            if isinstance(t, ast.Subscript):
                obj = self.ev(t.value, env, f)
                idx = self.ev_index(t.slice, env, f)
                self.models.delitem(self, obj, idx)
            elif isinstance(t, ast.Attribute):
                obj = self.ev(t.value, env, f)
                self.models.delattr(self, obj, self.mangle(t.attr, f))
            else:
                raise Unsupported("del target")

    def st_If(self, st, env, f):
        c = self.models.truth(self, self.ev(st.test, env, f))
        if self.ctx.branch(c):
            self.exec_block(st.body, env, f)
        else:
            self.exec_block(st.orelse, env, f)

    def st_Raise(self, st, env, f):
        if st.exc is None:
            raise Unsupported("bare raise")
        exc = st.exc
        name = None
        if isinstance(exc, ast.Call) and isinstance(exc.func, ast.Name):
            name = exc.func.id
        elif isinstance(exc, ast.Name):
            name = exc.id
        if name is None:
            raise Unsupported("raise of computed exception")
        raise PyRaise(name, ast.unparse(exc))

    def st_Assert(self, st, env, f):
        c = self.models.truth(self, self.ev(st.test, env, f))
        if not self.ctx.branch(c):
            raise PyRaise("AssertionError", ast.unparse(st.test))

    def st_Continue(self, st, env, f):
        raise ContinueSig()

    def st_Break(self, st, env, f):
        raise BreakSig()

    def st_FunctionDef(self, st, env, f):
        env.vars[st.name] = self.make_function(st, env, f.module, owner=f.owner)

    def st_Import(self, st, env, f):
        for a in st.names:
            env.vars[a.asname or a.name.split(".")[0]] = self.module_value(a.name)

    def st_ImportFrom(self, st, env, f):
        for a in st.names:
            env.vars[a.asname or a.name] = self.import_from(st.module, a.name)

    def st_Try(self, st, env, f):
        if st.finalbody or st.orelse:
            raise Unsupported("try/finally/else")
        snap_names = None
        try:
            self.exec_block(st.body, env, f)
        except PyRaise as e:
            for h in st.handlers:
                names = []
                if h.type is None:
                    names = None
                elif isinstance(h.type, ast.Name):
                    names = [h.type.id]
                elif isinstance(h.type, ast.Attribute):
                    names = [h.type.attr]
                elif isinstance(h.type, ast.Tuple):
                    names = [getattr(x, "id", getattr(x, "attr", "?")) for x in h.type.elts]
                if names is None or e.exc in names or "Exception" in names:
                    if h.name:
                        env.vars[h.name] = e
                    self.exec_block(h.body, env, f)
                    return
            raise

    def st_With(self, st, env, f):
        for item in st.items:
            v = self.ev(item.context_expr, env, f)
            if item.optional_vars is not None:
                self.assign(item.optional_vars, v, env, f)
        self.exec_block(st.body, env, f)

    def st_While(self, st, env, f):
        raise Unsupported("while loop")

    def dict_building_loop(self, st, env, f):
        """The idiom   d = {} ... for T in ITER: d[K] = V   (K, V do not mention d; d is an empty dict when the loop starts)
        is the dict comprehension {K: V for T in ITER}; evaluated as such (later keys overwrite earlier ones, as in the loop)."""
        # optional guards: leading `if C: continue` statements and / or one `if C:` around the store (same order of evaluation and
        # short-circuiting as the conditions of the comprehension)
        body = list(st.body)
        ifs = []
        while len(body) > 1:
            g = body.pop(0)
            if not (isinstance(g, ast.If) and not g.orelse and len(g.body) == 1 and isinstance(g.body[0], ast.Continue)):
                return False
            ifs.append(ast.UnaryOp(op=ast.Not(), operand=g.test))
        if not body:
            return False
        last = body[0]
        if isinstance(last, ast.If) and not last.orelse and len(last.body) == 1:
            ifs.append(last.test)
            last = last.body[0]
        if not isinstance(last, ast.Assign) or len(last.targets) != 1:
            return False
        tg = last.targets[0]
        if not (isinstance(tg, ast.Subscript) and isinstance(tg.value, ast.Name)):
            return False
        name = tg.value.id
        mentions = lambda node: any(isinstance(x, ast.Name) and x.id == name for x in ast.walk(node))
        if mentions(tg.slice) or mentions(last.value) or mentions(st.iter) or mentions(st.target) or any(mentions(c) for c in ifs):
            return False
        try:
            cur = env.lookup(name)
        except Exception:
            return False
        if not (isinstance(cur, dict) and len(cur) == 0):
            return False
        comp = ast.DictComp(key=tg.slice, value=last.value,
                            generators=[ast.comprehension(target=st.target, iter=st.iter, ifs=ifs, is_async=0)])
        ast.copy_location(comp, st)
        ast.fix_missing_locations(comp)
        val = self.ev(comp, env, f)
        env.assign(name, val) if hasattr(env, "assign") else env.vars.__setitem__(name, val)
        self.ctx.used_models.add("loop idiom: filling an empty dict key by key = the dict comprehension over the same iteration")
        return True

    def set_building_loop(self, st, env, f):
        """The idiom   s = set() ... for T in ITER: [if C: continue]* s.add(E)   (or   if C: s.add(E)  ) with s empty when the loop
        starts and not mentioned in ITER, the conditions or E is the set built from the generator (E for T in ITER if not C ...);
        evaluated as such, in place (the conditions are evaluated in the same order, with the same short-circuiting)."""
        body = list(st.body)
        if not body:
            return False
        ifs = []
        while len(body) > 1:
            g = body.pop(0)
            if not (isinstance(g, ast.If) and not g.orelse and len(g.body) == 1 and isinstance(g.body[0], ast.Continue)):
                return False
            ifs.append(ast.UnaryOp(op=ast.Not(), operand=g.test))
        last = body[0]
        if isinstance(last, ast.If) and not last.orelse and len(last.body) == 1:
            ifs.append(last.test)
            last = last.body[0]
        if not (isinstance(last, ast.Expr) and isinstance(last.value, ast.Call) and isinstance(last.value.func, ast.Attribute)
                and last.value.func.attr == "add" and isinstance(last.value.func.value, ast.Name)
                and len(last.value.args) == 1 and not last.value.keywords):
            return False
        name = last.value.func.value.id
        elt = last.value.args[0]
        mentions = lambda node: any(isinstance(x, ast.Name) and x.id == name for x in ast.walk(node))
        if mentions(elt) or mentions(st.iter) or mentions(st.target) or any(mentions(c) for c in ifs):
            return False
        try:
            cur = env.lookup(name)
        except Exception:
            return False
        if not isinstance(cur, MSet):
            return False
        probe = z3.Const("probe!setloop", V)
        if not z3.is_false(z3.simplify(zbool(cur.set.mem(probe)))):
            return False
        gen = ast.GeneratorExp(elt=elt, generators=[ast.comprehension(target=st.target, iter=st.iter, ifs=ifs, is_async=0)])
        ast.copy_location(gen, st)
        ast.fix_missing_locations(gen)
        val = self.models._set(self, [self.ev(gen, env, f)], {})
        if not isinstance(val, MSet):
            return False
        cur.set = val.set
        for k_, v_ in val.__dict__.items():
            if k_ not in ("id", "ctx"):
                setattr(cur, k_, v_)
        self.ctx.used_models.add("loop idiom: adding to an empty set element by element = the set of the generator over the same iteration")
        return True

    def st_For(self, st, env, f):
        if st.orelse:
            raise Unsupported("for/else")
        if self.dict_building_loop(st, env, f):
            return
        if self.set_building_loop(st, env, f):
            return
        it = self.ev(st.iter, env, f)
        kind, coll = self.models.iter_of(self, it)
        if kind == "concrete":
            for x in coll:
                self.assign(st.target, x, env, f)
                try:
                    self.exec_block(st.body, env, f)
                except ContinueSig:
                    continue
                except BreakSig:
                    break
            return
        ordinal = self.next_loop_ordinal(f)
        segs = coll if kind == "segments" else [coll]
        for sg in segs:
            if isinstance(sg, list):
                for x in sg:
                    self.assign(st.target, x, env, f)
                    try:
                        self.exec_block(st.body, env, f)
                    except ContinueSig:
                        continue
                    except BreakSig:
                        raise Unsupported("break in a loop over mixed concrete/symbolic segments")
                continue
            seg = self.exec_sym_loop(sg, lambda x, e: self.assign(st.target, x, e, f),
                                     lambda e: self.exec_block(st.body, e, f), st.body, env, f, ordinal,
                                     collect=self.frames[-1].out is not None,
                                     targets=assigned_names([ast.Expr(st.target)]))
            if seg is not None:
                self.frames[-1].out.emit_seq(seg)

    def next_loop_ordinal(self, f):
        key = self.qualname(f)
        n = self.loop_ordinal.get((key, id(self.frames[-1])), 0)
        self.loop_ordinal[(key, id(self.frames[-1]))] = n + 1
        return n

    # -- the symbolic loop rule ---------------------------------------------------------------
    def exec_sym_loop(self, coll, bind_target, run_body, body_stmts, env, f, ordinal, collect=True,
                      yield_expr=None, targets=()):
        """Loop over a symbolic sequence `coll` (core.Seq).  The body is executed for one
        arbitrary index k.  Returns the Seq of values yielded by the loop (or None)."""
        from .loops import run_symbolic_loop
        return run_symbolic_loop(self, coll, bind_target, run_body, body_stmts, env, f, ordinal, collect, targets)

    # -- expressions -----------------------------------------------------------------------
    def eval(self, node, env, module, owner=None, closure=None):
        if closure is None:
            closure = _PseudoClosure(module, owner)
        m = getattr(self, "ex_" + type(node).__name__, None)
        if m is None:
            raise Unsupported(f"expression {type(node).__name__}")
        return m(node, env, closure)

    def mangle(self, attr, f):
        if attr.startswith("__") and not attr.endswith("__") and f.owner is not None:
            return f"_{f.owner.name.lstrip('_')}{attr}"
        return attr

    def ex_Constant(self, n, env, f):
        return n.value

    def ex_Name(self, n, env, f):
        try:
            return env.lookup(n.id)
        except KeyError:
            pass
        return self.global_lookup(f.module, n.id)

    def ex_Attribute(self, n, env, f):
        obj = self.ev(n.value, env, f)
        return self.getattr(obj, self.mangle(n.attr, f))

    def ex_Tuple(self, n, env, f):
        return tuple(self.ev_elts(n.elts, env, f))

    def ex_List(self, n, env, f):
        return MList(self.ctx, PyList(self.ev_elts(n.elts, env, f)))

    def ev_elts(self, elts, env, f):
        out = []
        for e in elts:
            if isinstance(e, ast.Starred):
                v = self.ev(e.value, env, f)
                kind, coll = self.models.iter_of(self, v)
                if kind != "concrete":
                    raise Unsupported("starred symbolic sequence in display")
                out.extend(coll)
            else:
                out.append(self.ev(e, env, f))
        return out

    def ex_Set(self, n, env, f):
        return self.models.make_set(self, self.ev_elts(n.elts, env, f))

    def ex_Dict(self, n, env, f):
        d = {}
        for k, v in zip(n.keys, n.values):
            if k is None:
                inner = self.ev(v, env, f)
                if not isinstance(inner, dict):
                    raise Unsupported("** of symbolic dict in display")
                d.update(inner)
            else:
                d[self.models.hashable(self, self.ev(k, env, f))] = self.ev(v, env, f)
        return d

    def ex_Lambda(self, n, env, f):
        return Closure(n, env, f.module, f.owner)

    def ex_IfExp(self, n, env, f):
        c = self.models.truth(self, self.ev(n.test, env, f))
        if self.ctx.branch(c):
            return self.ev(n.body, env, f)
        return self.ev(n.orelse, env, f)

    def ex_BoolOp(self, n, env, f):
        is_and = isinstance(n.op, ast.And)
        val = None
        for i, e in enumerate(n.values):
            val = self.ev(e, env, f)
            if i == len(n.values) - 1:
                return val
            t = self.models.truth(self, val)
            if isinstance(t, bool):
                if t != is_and:
                    return val
                continue
            if is_sym_bool(val):
                merged = self._boolop_rest(n, i, t, is_and, env, f)
                if merged is not None:
                    return merged
            taken = self.ctx.branch(t)
            if taken != is_and:
                return val
        return val

    def _boolop_rest(self, n, i, t, is_and, env, f):
        """`A and B` / `A or B` with a symbolic boolean A: when the rest evaluates, under the assumption that it IS
        evaluated, on a single path to a boolean without any effect, the result is the formula And(A, B) / Or(A, B)
        and no fork is needed (short-circuit semantics preserved: B is only ever evaluated under A resp. not A)."""
        ctx = self.ctx
        rest = ast.BoolOp(op=n.op, values=n.values[i + 1:]) if len(n.values) - i - 1 > 1 else n.values[i + 1]
        snap = ctx.snapshot()
        guard = t if is_and else z3.Not(t)

        def thunk():
            ctx.assume(guard)
            return self.ev(rest, Env(parent=env), f)
        try:
            res = ctx.explore(thunk)
        except Unsupported:
            return None
        if len(res) != 1 or res[0][1] != "ok":
            return None
        conds, _, val, full = res[0]
        if not (is_sym_bool(val) or isinstance(val, bool)):
            return None
        extra, heap1, store1, printed1, _ = full
        if printed1 != snap[3] or any(h not in snap[1] or not snap[1][h].eq(tm) for h, tm in heap1.items()):
            return None
        if set(store1) != set(snap[2]):
            return None
        facts = [a for a in extra if not any(a is c for c in conds) and not a.eq(z3.simplify(guard)) and not a.eq(guard)]
        if facts:
            ctx.assumptions.append(z3.Implies(guard, z3.And(*facts)))
        v = z3.BoolVal(val) if isinstance(val, bool) else val
        return z3.And(t, v) if is_and else z3.Or(t, v)

    def ex_UnaryOp(self, n, env, f):
        v = self.ev(n.operand, env, f)
        return self.models.unop(self, n.op, v)

    def ex_BinOp(self, n, env, f):
        a = self.ev(n.left, env, f)
        b = self.ev(n.right, env, f)
        return self.models.binop(self, n.op, a, b)

    def ex_Compare(self, n, env, f):
        left = self.ev(n.left, env, f)
        result = None
        for op, rn in zip(n.ops, n.comparators):
            right = self.ev(rn, env, f)
            r = self.models.compare(self, op, left, right)
            result = r if result is None else self.models.and_(self, result, r)
            left = right
        return result

    def ex_Call(self, n, env, f):
        if isinstance(n.func, ast.Name) and n.func.id == "super" and not n.args:
            return SuperProxy(f.owner, env.lookup(self.first_param(f)))
        else:
            fn = self.ev(n.func, env, f)
        args = []
        for a in n.args:
            if isinstance(a, ast.Starred):
                v = self.ev(a.value, env, f)
                kind, coll = self.models.iter_of(self, v)
                if kind == "concrete":
                    args.extend(coll)
                else:
                    args.append(StarSeq(coll))
            else:
                args.append(self.ev(a, env, f))
        kwargs = {}
        for k in n.keywords:
            v = self.ev(k.value, env, f)
            if k.arg is None:
                if isinstance(v, dict):
                    for kk, vv in v.items():
                        kwargs[kk] = vv
                else:
                    kwargs["**"] = v
            else:
                kwargs[k.arg] = v
        return self.call(fn, args, kwargs)

    def first_param(self, f):
        node = f.node
        return (node.args.posonlyargs + node.args.args)[0].arg

    def ev_index(self, sl, env, f):
        if isinstance(sl, ast.Slice):
            return SliceVal(self.ev(sl.lower, env, f) if sl.lower else None,
                            self.ev(sl.upper, env, f) if sl.upper else None,
                            self.ev(sl.step, env, f) if sl.step else None)
        return self.ev(sl, env, f)

    def ex_Subscript(self, n, env, f):
        obj = self.ev(n.value, env, f)
        idx = self.ev_index(n.slice, env, f)
        return self.models.getitem(self, obj, idx)

    def ex_Yield(self, n, env, f):
        v = self.ev(n.value, env, f) if n.value is not None else None
        self.frames[-1].out.emit(v)
        return None

    def ex_YieldFrom(self, n, env, f):
        v = self.ev(n.value, env, f)
        kind, coll = self.models.iter_of(self, v)
        out = self.frames[-1].out
        if kind == "concrete":
            for x in coll:
                out.emit(x)
        elif kind == "segments":
            for sg in coll:
                if isinstance(sg, list):
                    for x in sg:
                        out.emit(x)
                else:
                    out.emit_seq(sg)
        else:
            out.emit_seq(coll)
        return None

    def ex_NamedExpr(self, n, env, f):
        v = self.ev(n.value, env, f)
        env.vars[n.target.id] = v
        return v

    def ex_JoinedStr(self, n, env, f):
        parts = []
        for v in n.values:
            if isinstance(v, ast.Constant):
                parts.append(v.value)
            else:
                val = self.ev(v.value, env, f)
                parts.append(FmtPart(val, v.conversion, ast.unparse(v.format_spec) if v.format_spec else None))
        if all(isinstance(p, str) for p in parts):
            return "".join(parts)
        return FString(parts)

    def ex_Starred(self, n, env, f):
        raise Unsupported("starred expression")

    # comprehensions ---------------------------------------------------------------------------
    def ex_ListComp(self, n, env, f):
        out = self.comprehension(n.generators, lambda e: self.ev(n.elt, e, f), env, f, n)
        return self.models.list_from_out(self, out)

    def ex_GeneratorExp(self, n, env, f):
        out = self.comprehension(n.generators, lambda e: self.ev(n.elt, e, f), env, f, n)
        return GenValue(out)

    def ex_SetComp(self, n, env, f):
        out = self.comprehension(n.generators, lambda e: self.ev(n.elt, e, f), env, f, n)
        return self.models.set_from_out(self, out)

    def ex_DictComp(self, n, env, f):
        return self.models.dict_comp(self, n, env, f)

    def comprehension(self, gens, elt_fn, env, f, node):
        out = OutSeq()
        fr = Frame(f, True)
        fr.out = out
        self.frames.append(fr)
        try:
            self._comp_level(gens, 0, elt_fn, Env(parent=env), f, out)
        finally:
            self.frames.pop()
        return out

    def _comp_level(self, gens, i, elt_fn, env, f, out):
        if i == len(gens):
            out.emit(elt_fn(env))
            return
        g = gens[i]
        it = self.ev(g.iter, env, f)
        kind, coll = self.models.iter_of(self, it)

        def body(e):
            for cond in g.ifs:
                c = self.models.truth(self, self.ev(cond, e, f))
                if not self.ctx.branch(c):
                    return
            self._comp_level(gens, i + 1, elt_fn, e, f, self.frames[-1].out)
        if kind == "concrete":
            for x in coll:
                self.assign(g.target, x, env, f)
                body(env)
            return
        ordinal = ("comp", getattr(g.iter, "lineno", 0), getattr(g.iter, "col_offset", 0))
        segs = coll if kind == "segments" else [coll]
        for sg in segs:
            if isinstance(sg, list):
                for x in sg:
                    self.assign(g.target, x, env, f)
                    body(env)
                continue
            seg = self.exec_sym_loop(sg, lambda x, e: self.assign(g.target, x, e, f), body, [], env, f,
                                     ordinal, collect=True)
            if seg is not None:
                out.emit_seq(seg)


def _as_load(t):
    import copy
    t2 = copy.deepcopy(t)
    for n in ast.walk(t2):
        if hasattr(n, "ctx"):
            n.ctx = ast.Load()
    return t2


class _PseudoClosure:
    def __init__(self, module, owner):
        self.module = module
        self.owner = owner
        self.name = "<module>"
        self.node = None


class StarSeq:
    """A *args tail of symbolic arity."""
    def __init__(self, seq):
        self.seq = seq


class SliceVal:
    def __init__(self, lo, hi, step):
        self.lo, self.hi, self.step = lo, hi, step


class FmtPart:
    def __init__(self, value, conversion, spec):
        self.value, self.conversion, self.spec = value, conversion, spec


class FString:
    """f-string with symbolic parts, kept as a token list."""
    def __init__(self, parts):
        self.parts = parts


class PyList(Seq):
    """Seq with a concrete list of elements (possibly structured Python values)."""
    def __init__(self, items):
        self.items = list(items)
        self.len = len(self.items)
        self.sort = None
        self.note = "pylist"

    def at(self, j):
        j = conc(j)
        if isinstance(j, int):
            return self.items[j]
        from .models import merge_many
        return merge_many([(zint(j) == i, x) for i, x in enumerate(self.items)])


class SuperProxy:
    def __init__(self, owner, self_obj):
        self.owner = owner
        self.self_obj = self_obj
