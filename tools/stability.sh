#!/bin/sh
# tools/stability.sh <rounds>: run every claimed quick check <rounds> times; report every non-zero exit.
cd "$(dirname "$0")/.." || exit 3
R=${1:-3}
ids=$(python3 -c "import json;print(' '.join(c['property_id'] for c in json.load(open('MANIFEST.json'))['checks']))" 2>/dev/null)
bad=0
for r in $(seq 1 $R); do
  for id in $ids; do
    out=$(./check "$id" --tier quick 2>&1); rc=$?
    if [ $rc -ne 0 ]; then bad=$((bad+1)); echo "round $r $id exit $rc"; echo "$out" | grep -E "UNDECIDED|VIOLATION|ERROR" | head -5; fi
  done
done
echo "stability: $bad non-zero exits in $R rounds over: $ids"
