#!/bin/sh
# Re-run every claimed check (quick tier) on /repo so that the committed evidence comes from the real tree.
cd "$(dirname "$0")/.." || exit 3
git -C /repo status --porcelain --untracked-files=no | grep -q . && { echo "/repo has local modifications"; exit 3; }
rc=0
for id in $(python3 -c "import json;print(' '.join(c['property_id'] for c in json.load(open('MANIFEST.json'))['checks']))" 2>/dev/null); do
  ./check "$id" --tier quick | grep -v '^#' | grep -v KNOWN-FINDING | tail -1
  [ $? -ne 0 ] && rc=1
done
python3-vt - <<'PY'
import json, glob, jsonschema
sch = json.load(open('/root/.vp/EVIDENCE.schema.json'))
m = json.load(open('MANIFEST.json'))
jsonschema.validate(m, json.load(open('/root/.vp/MANIFEST.schema.json')))
for c in m['checks']:
    e = json.load(open(c['evidence_file']))
    jsonschema.validate(e, sch)
    cov = e['coverage']
    if e['level'] == 'proof':
        assert cov['obligations'] == cov['discharged'], (c['property_id'], cov['obligations'], cov['discharged'])
print("manifest + evidence valid for", len(m['checks']), "checks")
PY
