#!/usr/bin/env python3
"""Evaluate a seeded change: tools/seed_eval.py <prop> <k> [check-prop ...]
Applies /tmp/seed_out/<prop>/change_k.diff to /repo, runs the demonstration and the checks, reverts /repo,
and stores the change under /verif/seeded/<prop>-<k>/ with meta.json."""
import json, os, shutil, subprocess, sys
prop, k = sys.argv[1], sys.argv[2]
checks = sys.argv[3:] or [prop]
src = f"/tmp/seed_out/{prop}"
diff, demo, note = f"{src}/change_{k}.diff", f"{src}/demo_{k}.py", f"{src}/note_{k}.txt"
env = dict(os.environ, PYTHONPATH="/repo", DATAITER_USE_NUMBA="false")
def run(cmd, **kw):
    return subprocess.run(cmd, capture_output=True, text=True, **kw)
assert run(["git", "-C", "/repo", "status", "--porcelain", "--untracked-files=no"]).stdout.strip() == "", "repo dirty"
clean = run(["/venv/bin/python", demo], env=env, cwd="/tmp")
r = run(["git", "-C", "/repo", "apply", diff])
if r.returncode != 0:
    print("patch does not apply:", r.stderr); sys.exit(2)
try:
    changed = run(["/venv/bin/python", demo], env=env, cwd="/tmp")
    tests = run(["/venv/bin/python", "-m", "pytest", "-q", "-x", "-p", "no:cacheprovider", "--timeout=900",
                 "--deselect", "dataiter/test/test_data_frame.py::TestDataFrame::test_read_json_columns",
                 "--deselect", "dataiter/test/test_data_frame.py::TestDataFrame::test_read_json_dtypes",
                 "--deselect", "dataiter/test/test_data_frame.py::TestDataFrame::test_read_json_path",
                 "--deselect", "dataiter/test/test_list_of_dicts.py::TestListOfDicts::test_drop_na",
                 "--deselect", "dataiter/test/test_list_of_dicts.py::TestListOfDicts::test_keys",
                 "--deselect", "dataiter/test/test_list_of_dicts.py::TestListOfDicts::test_print_memory_use",
                 "--deselect", "dataiter/test/test_list_of_dicts.py::TestListOfDicts::test_print_na_counts"], cwd="/repo")
    results = {}
    for c in checks:
        cr = run(["/verif/check", c])
        lines = [l for l in cr.stdout.splitlines() if l.startswith(("VIOLATION", "UNDECIDED", "KNOWN", c + ":"))]
        results[c] = {"exit": cr.returncode, "lines": lines[:8]}
finally:
    run(["git", "-C", "/repo", "checkout", "--", "."])
out = f"/verif/seeded/{prop}-{k}"
os.makedirs(out, exist_ok=True)
shutil.copy(diff, f"{out}/patch.diff"); shutil.copy(demo, f"{out}/demo.py")
meta = {"property": prop, "needs": open(note).read().strip() if os.path.exists(note) else "",
        "demo_clean_exit": clean.returncode, "demo_changed_exit": changed.returncode,
        "existing_tests_pass_with_change": tests.returncode == 0, "tests_tail": tests.stdout.strip().splitlines()[-1:] ,
        "ran": [f"git -C /repo apply patch.diff; PYTHONPATH=/repo /venv/bin/python demo.py; ./check {c}; git -C /repo checkout -- ." for c in checks],
        "checks": results,
        "detected": any(v["exit"] == 1 for v in results.values())}
json.dump(meta, open(f"{out}/meta.json", "w"), indent=1)
print(json.dumps({k2: meta[k2] for k2 in ("demo_clean_exit", "demo_changed_exit", "existing_tests_pass_with_change", "detected")}))
for c, v in results.items():
    print(c, v["exit"], *v["lines"][:4], sep="\n   ")
