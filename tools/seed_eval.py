#!/usr/bin/env python3
"""Evaluate a seeded change: tools/seed_eval.py <prop> <k> [check-prop ...]
Takes /tmp/seedout-<prop>/<k>/{patch.diff,demo.py,notes.txt}, applies the patch to a scratch copy of /repo's working tree
(outside /repo and /verif, removed afterwards), runs the demonstration (clean and changed), the existing tests and the
checks (VERIF_REPO=<scratch>), and stores the change under /verif/seeded/<prop>-<k>/ with meta.json.
Equivalent by hand: git -C /repo apply patch.diff; ./check <prop>; git -C /repo checkout -- ."""
import json, os, shutil, subprocess, sys, tempfile
prop, k = sys.argv[1], sys.argv[2]
checks = sys.argv[3:] or [prop]
src = f"/tmp/seedout-{prop}/{k}"
if not os.path.isdir(src) and k.isdigit() and 3 < int(k) <= 6:
    src = f"/tmp/seedout-{prop}b/{int(k) - 3}"        # second round of seeds for the same property: stored as <prop>-4..6
if not os.path.isdir(src) and k.isdigit() and 6 < int(k) <= 9:
    src = f"/tmp/seedout-{prop}c/{int(k) - 6}"        # third round: stored as <prop>-7..9
if not os.path.isdir(src) and k.isdigit() and 9 < int(k) <= 12:
    src = f"/tmp/seedout-{prop}d/{int(k) - 9}"        # fourth round: stored as <prop>-10..12
if not os.path.isdir(src) and k.isdigit() and 12 < int(k) <= 15:
    src = f"/tmp/seedout-{prop}e/{int(k) - 12}"       # fifth round: stored as <prop>-13..15
if not os.path.isdir(src) and k.isdigit() and int(k) > 15:
    src = f"/tmp/seedout-{prop}f/{int(k) - 15}"       # sixth round: stored as <prop>-16..
if not os.path.isdir(src):
    src = f"/verif/seeded/{prop}-{k}"
diff, demo = f"{src}/patch.diff", f"{src}/demo.py"
note = f"{src}/notes.txt"
DESEL = ["dataiter/test/test_data_frame.py::TestDataFrame::test_read_json_columns", "dataiter/test/test_data_frame.py::TestDataFrame::test_read_json_dtypes",
         "dataiter/test/test_data_frame.py::TestDataFrame::test_read_json_path", "dataiter/test/test_list_of_dicts.py::TestListOfDicts::test_drop_na",
         "dataiter/test/test_list_of_dicts.py::TestListOfDicts::test_keys", "dataiter/test/test_list_of_dicts.py::TestListOfDicts::test_print_memory_use",
         "dataiter/test/test_list_of_dicts.py::TestListOfDicts::test_print_na_counts"]
def run(cmd, **kw):
    return subprocess.run(cmd, capture_output=True, text=True, **kw)
d = tempfile.mkdtemp(prefix="seedeval")
try:
    for sub in ("clean", "changed"):
        shutil.copytree("/repo", os.path.join(d, sub), ignore=shutil.ignore_patterns(".git", "__pycache__", "*.pyc", ".pytest_cache"))
    r = run(["git", "apply", os.path.abspath(diff)], cwd=os.path.join(d, "changed"))
    if r.returncode != 0:
        print("patch does not apply:", r.stderr); sys.exit(2)
    env = lambda sub: dict(os.environ, PYTHONPATH=os.path.join(d, sub), DATAITER_USE_NUMBA=os.environ.get("DATAITER_USE_NUMBA", "false"))
    clean = run(["/venv/bin/python", os.path.abspath(demo)], env=env("clean"), cwd=os.path.join(d, "clean"))
    changed = run(["/venv/bin/python", os.path.abspath(demo)], env=env("changed"), cwd=os.path.join(d, "changed"))
    # fresh Numba cache for the test run: kernels cached by the demonstration process in another compile order would trigger
    # the known compile-order finding (C08) inside the suite
    os.makedirs(os.path.join(d, "nbcache"), exist_ok=True)
    tests = run(["/venv/bin/python", "-m", "pytest", "-q", "-x", "-p", "no:cacheprovider", "--timeout=900"] +
                [x for t in DESEL for x in ("--deselect", t)] + ["dataiter/test"], cwd=os.path.join(d, "changed"),
                env=dict(os.environ, NUMBA_CACHE_DIR=os.path.join(d, "nbcache")))
    results = {}
    for c in checks:
        cr = run(["/verif/check", c], env=dict(os.environ, VERIF_REPO=os.path.join(d, "changed")))
        lines = [l for l in cr.stdout.splitlines() if l.startswith(("VIOLATION", "UNDECIDED", "KNOWN", "ERROR", c + ":"))]
        results[c] = {"exit": cr.returncode, "lines": lines[:8]}
        for l in lines:
            if l.startswith("VIOLATION") and "replay=" in l:
                rp = l.split("replay=")[1].split()[0]
                try:
                    j = json.load(open(rp))
                    results[c].setdefault("violated", []).append({"contract": j.get("contract"), "obligation": j.get("obligation"),
                                                                  "failing_input": (j.get("failing_input") or {}).get("input") if isinstance(j.get("failing_input"), dict) else None})
                except Exception:
                    pass
finally:
    shutil.rmtree(d, ignore_errors=True)
out = f"/verif/seeded/{prop}-{k}"
os.makedirs(out, exist_ok=True)
if os.path.abspath(src) != os.path.abspath(out):
    shutil.copy(diff, f"{out}/patch.diff"); shutil.copy(demo, f"{out}/demo.py")
old = {}
if os.path.exists(f"{out}/meta.json"):
    old = json.load(open(f"{out}/meta.json"))
meta = {"id": f"{prop}-{k}", "property": prop,
        "needs": open(note).read().strip() if os.path.exists(note) else old.get("needs", ""),
        "demo_clean_exit": clean.returncode, "demo_changed_exit": changed.returncode,
        "existing_tests_pass_with_change": tests.returncode == 0, "tests_tail": tests.stdout.strip().splitlines()[-1:],
        "ran": [f"git -C /repo apply patch.diff; PYTHONPATH=/repo /venv/bin/python demo.py; ./check {c}; git -C /repo checkout -- ." for c in checks],
        "checks": results,
        "detected": any(v["exit"] == 1 for v in results.values())}
st = "detected" if meta["detected"] else ("undecided" if any(v["exit"] == 2 for v in results.values()) else "missed")
meta["detected_at_arrival"] = old.get("detected_at_arrival", st)
json.dump(meta, open(f"{out}/meta.json", "w"), indent=1)
print(json.dumps({k2: meta[k2] for k2 in ("id", "demo_clean_exit", "demo_changed_exit", "existing_tests_pass_with_change", "detected")}))
for c, v in results.items():
    print(c, v["exit"], *v["lines"][:4], sep="\n   ")
    for x in v.get("violated", [])[:3]:
        print("      ", x)
