#!/usr/bin/env python3
"""Apply a textual mutation to a scratch copy of /repo/dataiter and run a check against it.
usage: tools/mut.py <prop> <relfile> <old> <new> [count]"""
import os, shutil, subprocess, sys, tempfile
prop, rel, old, new = sys.argv[1:5]
d = tempfile.mkdtemp(prefix="mut")
try:
    shutil.copytree("/repo/dataiter", os.path.join(d, "dataiter"), ignore=shutil.ignore_patterns("__pycache__"))
    p = os.path.join(d, rel)
    s = open(p).read()
    old = old.encode().decode("unicode_escape"); new = new.encode().decode("unicode_escape")
    if s.count(old) < 1:
        print("pattern not found"); sys.exit(9)
    s = s.replace(old, new, 1)
    open(p, "w").write(s)
    env = dict(os.environ, VERIF_REPO=d)
    r = subprocess.run(["/verif/check", prop], env=env, capture_output=True, text=True)
    lines = [l for l in r.stdout.splitlines() if not l.startswith("#") or "unsat" not in l]
    print("\n".join(lines[-12:]))
    print("exit", r.returncode)
finally:
    shutil.rmtree(d, ignore_errors=True)
