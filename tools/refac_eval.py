#!/usr/bin/env python3
"""Evaluate a HARMLESS (behaviour-preserving) edit: tools/refac_eval.py <prop> <k>
Takes /tmp/refout-<prop>/<k>/{patch.diff,notes.txt}, applies the patch to a scratch copy of /repo (outside /repo and /verif,
removed afterwards), runs the existing tests and EVERY check whose contracts read a touched file (VERIF_REPO=<scratch>), and
stores the edit under /verif/seeded/harmless/<prop>-<k>/ with meta.json.  Expected: every check exits 0 (2 = undecided is
recorded as brittleness, 1 = false alarm)."""
import json, os, re, shutil, subprocess, sys, tempfile
prop, k = sys.argv[1], sys.argv[2]
src = f"/tmp/refout-{prop}/{k}"
prop = prop.rstrip("rq")         # /tmp/refout-C04r/<k> (/tmp/refout-C04q/<k>) holds the edits for property C04
if not os.path.isdir(src):
    src = f"/verif/seeded/harmless/{prop}-{k}"
diff, note = f"{src}/patch.diff", f"{src}/notes.txt"
touched = sorted(set(re.findall(r"^\+\+\+ b/(\S+)", open(diff).read(), re.M)))
FILE_PROPS = {
    "dataiter/data_frame.py": ["C01", "C02", "C03", "C04", "C05", "C06", "C09", "C14"],
    "dataiter/vector.py": ["C03", "C06", "C10", "C11", "C19", "C02", "C05"],
    "dataiter/list_of_dicts.py": ["C15", "C16", "C17", "C14"],
    "dataiter/aggregate.py": ["C04", "C07", "C08"],
    "dataiter/deco.py": ["C17", "C15"], "dataiter/io.py": ["C14"], "dataiter/geojson.py": ["C14", "C18"],
    "dataiter/dt.py": ["C19"], "dataiter/regex.py": ["C19"], "dataiter/util.py": ["C10", "C01"], "dataiter/dtypes.py": ["C10"],
}
checks = sorted({p for f in touched for p in FILE_PROPS.get(f, [prop])} | {prop})
DESEL = ["dataiter/test/test_data_frame.py::TestDataFrame::test_read_json_columns", "dataiter/test/test_data_frame.py::TestDataFrame::test_read_json_dtypes",
         "dataiter/test/test_data_frame.py::TestDataFrame::test_read_json_path", "dataiter/test/test_list_of_dicts.py::TestListOfDicts::test_drop_na",
         "dataiter/test/test_list_of_dicts.py::TestListOfDicts::test_keys", "dataiter/test/test_list_of_dicts.py::TestListOfDicts::test_print_memory_use",
         "dataiter/test/test_list_of_dicts.py::TestListOfDicts::test_print_na_counts"]
def run(cmd, **kw):
    return subprocess.run(cmd, capture_output=True, text=True, **kw)
d = tempfile.mkdtemp(prefix="refeval")
try:
    shutil.copytree("/repo", os.path.join(d, "changed"), ignore=shutil.ignore_patterns(".git", "__pycache__", "*.pyc", ".pytest_cache"))
    r = run(["git", "apply", os.path.abspath(diff)], cwd=os.path.join(d, "changed"))
    if r.returncode != 0:
        print("patch does not apply:", r.stderr); sys.exit(2)
    os.makedirs(os.path.join(d, "nbcache"), exist_ok=True)
    tests = run(["/venv/bin/python", "-m", "pytest", "-q", "-x", "-p", "no:cacheprovider", "--timeout=900"] +
                [x for t in DESEL for x in ("--deselect", t)] + ["dataiter/test"], cwd=os.path.join(d, "changed"),
                env=dict(os.environ, NUMBA_CACHE_DIR=os.path.join(d, "nbcache")))
    results = {}
    env = dict(os.environ, VERIF_REPO=os.path.join(d, "changed"))
    if "dataiter/aggregate.py" not in touched:
        env["PYVC_SKIP_NUMBA_MATRIX"] = "1"       # the fresh-process JIT matrix cannot be affected by an edit outside aggregate.py
    for c in checks:
        cr = run(["/verif/check", c], env=env)
        lines = [l for l in cr.stdout.splitlines() if l.startswith(("VIOLATION", "UNDECIDED", "ERROR", c + ":"))]
        results[c] = {"exit": cr.returncode, "lines": [l[:400] for l in lines[:6]]}
finally:
    shutil.rmtree(d, ignore_errors=True)
out = f"/verif/seeded/harmless/{prop}-{k}"
os.makedirs(out, exist_ok=True)
if os.path.abspath(src) != os.path.abspath(out):
    shutil.copy(diff, f"{out}/patch.diff")
old = json.load(open(f"{out}/meta.json")) if os.path.exists(f"{out}/meta.json") else {}
worst = max(v["exit"] for v in results.values())
meta = {"id": f"harmless-{prop}-{k}", "property": prop, "kind": "behaviour-preserving edit (no check may alarm)", "touched": touched,
        "what": open(note).read().strip() if os.path.exists(note) else old.get("what", ""),
        "existing_tests_pass_with_change": tests.returncode == 0, "tests_tail": tests.stdout.strip().splitlines()[-1:],
        "checks": results, "false_alarm": any(v["exit"] == 1 for v in results.values()),
        "undecided": [c for c, v in results.items() if v["exit"] == 2], "errors": [c for c, v in results.items() if v["exit"] == 3],
        "at_arrival": old.get("at_arrival", {c: v["exit"] for c, v in results.items()})}
json.dump(meta, open(f"{out}/meta.json", "w"), indent=1)
print(json.dumps({"id": meta["id"], "tests": meta["existing_tests_pass_with_change"], "exits": {c: v["exit"] for c, v in results.items()}}))
for c, v in results.items():
    if v["exit"] != 0:
        print(c, v["exit"], *v["lines"][:4], sep="\n   ")
